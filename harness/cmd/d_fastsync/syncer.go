package main

import (
	"bytes"
	"fmt"
	"sort"
	"sync"
	"sync/atomic"
	"time"

	mapset "github.com/deckarep/golang-set"
	"github.com/idena-network/idena-go/blockchain/types"
	"github.com/idena-network/idena-go/common"
	"github.com/idena-network/idena-go/core/state"
	"github.com/idena-network/idena-go/core/state/snapshot"
	"github.com/idena-network/idena-go/core/validators"
	"github.com/idena-network/idena-go/crypto"
	"github.com/idena-network/idena-go/ipfs"
	"github.com/idena-network/idena-go/keystore"
	"github.com/idena-network/idena-go/protocol"
	"github.com/idena-network/idena-go/subscriptions"
	"github.com/ipfs/go-cid"
	"github.com/libp2p/go-libp2p-core/peer"
	dbm "github.com/tendermint/tm-db"

	"verifh/internal/sim"
	"verifh/internal/tr"
)

var spSeq int

var (
	sharedKs  *keystore.KeyStore
	sharedSub *subscriptions.Manager
)

func sharedStores() (*keystore.KeyStore, *subscriptions.Manager) {
	if sharedKs == nil {
		sharedKs = keystore.NewKeyStore("./testdata", keystore.StandardScryptN, keystore.StandardScryptP)
		sharedSub, _ = subscriptions.NewManager("./testdata2")
	}
	return sharedKs, sharedSub
}

// plan: what a serving peer does to its answers (heights are absolute).
type plan struct {
	Faults map[uint64]string // height -> fault
}

// served: one BlocksRange answer as it went over the wire (after the peer's alterations)
type servedBlock struct {
	H int    `json:"h"` // relative height
	F string `json:"f"` // the alteration that is effectively on the wire ("none")
}

type servedRec struct {
	Peer   string        `json:"peer"`
	From   uint64        `json:"from"`
	To     uint64        `json:"to"`
	Blocks []servedBlock `json:"blocks"`
}

type syncNode struct {
	c       *canon
	n       *sim.Node
	ip      *netIpfs
	key     int
	L, S    uint64 // local head at the start, manifest height
	h       *protocol.IdenaGossipHandler
	sh      *protocol.IdenaGossipHandler // the serving node's handler
	peers   map[string]*protocol.VerifSyncPeer
	speers  map[string]*protocol.VerifSyncPeer // the serving side's peer objects (one per connection)
	plans   map[string]*plan
	names   []string
	forked  mapset.Set
	sm      *state.SnapshotManager
	fs      *protocol.VerifFastSync
	man     *snapshot.Manifest
	mans    map[string]*snapshot.Manifest // manifests by label
	mu      sync.Mutex
	served  []servedRec
	stop    int32
	pumpErr error
	out     *tr.W
	sid     string
	cursor  uint64
	steps   int
	lastArt map[int]art
	top     uint64 // downloader scenarios: how far the arts are reported
}

func newSyncNode(c *canon, key int, db dbm.DB, S uint64, out *tr.W, sid string) *syncNode {
	s := &syncNode{c: c, key: key, S: S, out: out, sid: sid, plans: map[string]*plan{}, mans: map[string]*snapshot.Manifest{}}
	s.sh = protocol.VerifNewSyncHandler(c.prop.Chain)
	s.boot(db)
	s.L = s.n.Chain.Head.Height()
	return s
}

// boot (re)creates the process state of the syncing node over db, as node.go does on start-up.
func (s *syncNode) boot(db dbm.DB) {
	var old *netIpfs
	if s.ip != nil {
		old = s.ip
	}
	s.n, s.ip = bootNode(s.c.w, s.key, db, s.c.net, s.c.propIpfs)
	if old != nil {
		// the node's IPFS repository is durable
		s.ip.Proxy = old.Proxy
		s.ip.override = old.override
	}
	s.h = protocol.VerifNewSyncHandler(s.n.Chain)
	s.peers = map[string]*protocol.VerifSyncPeer{}
	s.speers = map[string]*protocol.VerifSyncPeer{}
	s.forked = mapset.NewSet()
	s.sm = state.NewSnapshotManager(db, s.n.App.State, s.n.Bus, s.ip, s.n.Cfg)
	s.fs = nil
	// Downloader.startSync
	s.n.Chain.StartSync()
	s.sm.StartSync()
	for _, name := range s.names {
		s.connect(name)
	}
}

// connect registers a serving peer (both directions) and lets it announce its height and manifest.
func (s *syncNode) connect(name string) {
	if _, ok := s.plans[name]; !ok {
		s.plans[name] = &plan{Faults: map[uint64]string{}}
		s.names = append(s.names, name)
	}
	vp := s.h.VerifAddPeer(name)
	vp.SetHeight(s.c.head())
	s.peers[name] = vp
	spSeq++
	s.speers[name] = s.sh.VerifAddPeer(fmt.Sprintf("sync-%s-%s-%d", s.sid, name, spSeq))
	if m := s.mans[name]; m != nil {
		data, _ := m.ToBytes()
		if err := vp.VerifDeliver(protocol.VerifMsg{Code: protocol.SnapshotManifest, Payload: data}); err != nil {
			panic(err)
		}
	}
}

// bestManifest mirrors Downloader.getBestManifest over the manifests the registered peers announced.
func (s *syncNode) bestManifest() *snapshot.Manifest {
	var best *snapshot.Manifest
	names := append([]string(nil), s.names...)
	sort.Strings(names)
	for _, name := range names {
		vp := s.peers[name]
		if vp == nil || !vp.Registered() {
			continue
		}
		m := vp.Manifest()
		if m == nil {
			continue
		}
		if (best == nil || best.Height < m.Height) && !s.sm.IsInvalidManifest(m.CidV2) {
			best = m
		}
	}
	return best
}

// ---------------------------------------------------------------------------------------------
// the wire between the syncing node and its peers

func (s *syncNode) rel(h uint64) int { return int(h) - int(s.L) }

func (s *syncNode) pumpOnce() bool {
	did := false
	for _, name := range s.names {
		vp := s.peers[name]
		if vp == nil {
			continue
		}
		for _, m := range vp.VerifOutbox() {
			did = true
			if m.Code != protocol.GetBlocksRange {
				continue
			}
			sp := s.speers[name]
			if err := sp.VerifDeliver(m); err != nil {
				s.pumpErr = err
				continue
			}
			for _, resp := range sp.VerifOutbox() {
				if resp.Code != protocol.BlocksRange {
					continue
				}
				_, from, to, _ := protocol.VerifRangeRequest(m.Payload)
				payload, rec := s.alter(name, from, to, resp.Payload)
				s.mu.Lock()
				s.served = append(s.served, rec)
				s.mu.Unlock()
				if err := vp.VerifDeliver(protocol.VerifMsg{Code: protocol.BlocksRange, Payload: payload}); err != nil {
					s.pumpErr = err
				}
			}
		}
	}
	return did
}

func (s *syncNode) pump(done chan struct{}) {
	defer close(done)
	for atomic.LoadInt32(&s.stop) == 0 {
		if !s.pumpOnce() {
			time.Sleep(50 * time.Microsecond)
		}
	}
	s.pumpOnce()
}

// alter applies the serving peer's plan to a real BlocksRange answer of the honest serving node.
func (s *syncNode) alter(name string, from, to uint64, payload []byte) ([]byte, servedRec) {
	batchId, blocks, err := protocol.VerifDecodeRange(payload)
	if err != nil {
		panic(err)
	}
	rec := servedRec{Peer: name, From: from, To: to, Blocks: []servedBlock{}}
	pl := s.plans[name]
	var res []*protocol.VerifServed
	for _, b := range blocks {
		h := b.Header.Height()
		f := pl.Faults[h]
		if f == "" {
			f = "none"
		}
		if f == "trunc" {
			break
		}
		if f == "hdr-gap" {
			continue
		}
		eff := s.inject(b, f)
		rec.Blocks = append(rec.Blocks, servedBlock{H: s.rel(h), F: eff})
		res = append(res, b)
	}
	return protocol.VerifEncodeRange(batchId, res), rec
}

func sybilValue() []byte {
	v := state.ApprovedIdentity{Validated: true, Online: true}
	b, err := v.ToBytes()
	if err != nil {
		panic(err)
	}
	return b
}

// inject alters one served block; returns the fault that was effectively applied ("none" when the alteration does not
// change anything on this block, e.g. dropping a certificate the serving node does not have).
func (s *syncNode) inject(b *protocol.VerifServed, f string) string {
	h := b.Header.Height()
	w := s.c.w
	switch f {
	case "none":
		return "none"
	case "diff-wrong":
		// a Sybil entry: an address that is not an identity becomes a validated online identity
		if b.Diff == nil {
			b.Diff = new(state.IdentityStateDiff)
		}
		b.Diff.Values = append(b.Diff.Values, &state.IdentityStateDiffValue{Address: crypto.PubkeyToAddress(sim.DetKey(w.Seed+77, int(h)).PublicKey), Value: sybilValue()})
		return f
	case "diff-noop":
		// an entry that does not change the tree: the deletion of an address that is not in it (not generated by the model or
		// the random scenarios: the header binds the diff only through the resulting root, see FastSync.tla "known limit")
		if b.Diff == nil {
			b.Diff = new(state.IdentityStateDiff)
		}
		b.Diff.Values = append(b.Diff.Values, &state.IdentityStateDiffValue{Address: crypto.PubkeyToAddress(sim.DetKey(w.Seed+78, int(h)).PublicKey), Deleted: true})
		return f
	case "diff-missing":
		if b.Diff.Empty() {
			return "none"
		}
		b.Diff = nil
		return f
	case "diff-stale":
		// the diff of the previous identity-update block instead of this block's
		if b.Diff.Empty() {
			return "none"
		}
		for x := h - 1; x > 1; x-- {
			if d := s.c.ref.Chain.GetIdentityDiff(x); !d.Empty() {
				data, _ := d.ToBytes()
				own, _ := b.Diff.ToBytes()
				if bytes.Equal(data, own) {
					continue
				}
				b.Diff = d
				return f
			}
		}
		b.Diff = nil
		return "diff-missing"
	case "diff-drop-entry":
		if b.Diff.Empty() {
			return "none"
		}
		b.Diff.Values = b.Diff.Values[:len(b.Diff.Values)-1]
		if len(b.Diff.Values) == 0 {
			b.Diff = nil
			return "diff-missing"
		}
		return f
	case "hdr-parent":
		if b.Header.ProposedHeader != nil {
			b.Header.ProposedHeader.ParentHash[3] ^= 0x40
		} else {
			b.Header.EmptyBlockHeader.ParentHash[3] ^= 0x40
		}
		return f
	case "hdr-seed":
		if b.Header.ProposedHeader != nil {
			b.Header.ProposedHeader.BlockSeed[5] ^= 0x01
			return f
		}
		// nothing ties the seed of an empty header to anything: only the hash changes
		b.Header.EmptyBlockHeader.BlockSeed[5] ^= 0x01
		return "hdr-forged"
	case "hdr-forged":
		// a header that stays self-consistent: the identity root of a proposed header (with a matching diff this would
		// install another validator set), the state root of an empty header
		if b.Header.ProposedHeader != nil {
			b.Header.ProposedHeader.IdentityRoot[7] ^= 0x10
		} else {
			b.Header.EmptyBlockHeader.Root[7] ^= 0x10
		}
		return f
	case "hdr-time":
		prev := s.c.info[h-1].header.Time()
		if b.Header.ProposedHeader != nil {
			b.Header.ProposedHeader.Time = prev
		} else {
			b.Header.EmptyBlockHeader.Time = prev
		}
		return f
	case "cert-missing":
		if b.Cert.Empty() {
			return "none"
		}
		b.Cert = nil
		return f
	case "cert-outsider":
		// enough votes, but from keys that are not validators
		blk := &types.Block{Header: s.c.info[h].header, Body: &types.Body{}}
		var ks []int
		for i := 0; i < 6; i++ {
			ks = append(ks, len(w.Keys)-1-i)
		}
		b.Cert = s.outsiderCert(blk, 6)
		return f
	case "cert-few":
		// a single valid vote where the committee needs more
		if len(s.c.info[h].signers) < 2 {
			return s.inject(b, "cert-outsider")
		}
		blk := &types.Block{Header: s.c.info[h].header, Body: &types.Body{}}
		b.Cert = w.Cert(blk, s.c.info[h].signers[:1])
		return f
	case "cert-otherblock":
		// a genuine certificate - of the parent block
		if h < 3 || len(s.c.info[h-1].signers) == 0 {
			return s.inject(b, "cert-outsider")
		}
		blk := &types.Block{Header: s.c.info[h-1].header, Body: &types.Body{}}
		b.Cert = w.Cert(blk, s.c.info[h-1].signers)
		return f
	}
	panic("unknown fault " + f)
}

func (s *syncNode) outsiderCert(blk *types.Block, n int) *types.BlockCert {
	var votes []*types.Vote
	for i := 0; i < n; i++ {
		k := sim.DetKey(s.c.w.Seed+99, i)
		vote := &types.Vote{Header: &types.VoteHeader{Round: blk.Height(), Step: types.Final, ParentHash: blk.Header.ParentHash(), VotedHash: blk.Header.Hash()}}
		hh := crypto.SignatureHash(vote)
		sig, err := crypto.Sign(hh[:], k)
		if err != nil {
			panic(err)
		}
		vote.Signature = sig
		votes = append(votes, vote)
	}
	full := types.FullBlockCert{Votes: votes}
	return full.Compress()
}

// ---------------------------------------------------------------------------------------------
// steps

func errText(err error) string {
	if err == nil {
		return ""
	}
	t := err.Error()
	if len(t) > 90 {
		t = t[:90]
	}
	return t
}

// stepNew = Downloader.createBlockApplier (fast branch) + applier.preConsuming(head)
func (s *syncNode) stepNew() {
	m := s.bestManifest()
	ev := tr.M{"ev": "New", "sid": s.sid}
	if m == nil {
		ev["res"] = "nomanifest"
		ev["man"] = ""
		ev["obs"] = s.observe()
		s.out.Emit(ev)
		s.fs = nil
		return
	}
	s.man = m
	ks, sub := sharedStores()
	s.fs = protocol.VerifNewFastSync(s.h, s.n.Chain, s.ip, s.n.App, s.forked, m, s.sm, s.n.Bus, s.n.Sec.GetAddress(), ks, sub, s.n.Upgrader)
	from, err := s.fs.PreConsuming(s.n.Chain.Head)
	ev["man"] = s.manLabel(m)
	ev["manh"] = s.rel(m.Height)
	ev["res"] = "ok"
	if err != nil {
		ev["res"] = "err"
		s.fs = nil
	}
	ev["err"] = errText(err)
	ev["from"] = s.rel(from)
	s.cursor = from
	ev["obs"] = s.observe()
	s.out.Emit(ev)
}

func (s *syncNode) manLabel(m *snapshot.Manifest) string {
	c, _ := cid.Cast(m.CidV2)
	if mr := s.c.manifests[m.Height]; mr != nil {
		if c2, _ := cid.Cast(mr.manifest.CidV2); c.Equals(c2) {
			return "ok"
		}
	}
	if l, ok := badManifests[fmt.Sprintf("%s@%d", c.String(), m.Height)]; ok {
		return l
	}
	return "unknown"
}

var badManifests = map[string]string{}

// stepBatch = one iteration of Downloader.Load's request loop + consumeBlocks.consume for that batch
func (s *syncNode) stepBatch(peerName string, n int) {
	if s.fs == nil {
		panic("driver: batch without applier")
	}
	from := s.cursor
	to := from + uint64(n) - 1
	if to > s.man.Height {
		to = s.man.Height
	}
	vp := s.peers[peerName]
	s.served = nil
	s.pumpErr = nil
	atomic.StoreInt32(&s.stop, 0)
	done := make(chan struct{})
	go s.pump(done)
	t0 := time.Now()
	err := s.fs.RequestAndProcess(vp.ID(), from, to)
	atomic.StoreInt32(&s.stop, 1)
	<-done
	if s.pumpErr != nil {
		panic(fmt.Sprintf("driver: wire error: %v", s.pumpErr))
	}
	if time.Since(t0) > 12*time.Second {
		// processBatch waits 20 s (real time) for every block: on a starved machine a time-out may have fired although the answer
		// was on its way, and what the applier saw is no longer what the wire log says.  The scenario is marked and left out.
		s.out.Emit(tr.M{"ev": "Unreliable", "sid": s.sid, "why": fmt.Sprintf("batch %d-%d took %v", from, to, time.Since(t0))})
	}
	for _, rec := range s.served {
		s.out.Emit(tr.M{"ev": "Serve", "sid": s.sid, "peer": rec.Peer, "from": s.rel(rec.From), "to": s.rel(rec.To), "blocks": rec.Blocks})
	}
	ev := tr.M{"ev": "BatchEnd", "sid": s.sid, "peer": peerName, "from": s.rel(from), "to": s.rel(to), "res": "ok", "err": errText(err), "attempts": len(s.served)}
	if err != nil {
		ev["res"] = "err"
	}
	s.cursor = to + 1
	ev["obs"] = s.observe()
	if err != nil {
		// Downloader.consumeBlocks stops, Load runs postConsuming (which cannot succeed) and returns: the applier is dropped
		s.fs = nil
	}
	s.out.Emit(ev)
}

func (s *syncNode) stepPost() bool {
	if s.fs == nil {
		panic("driver: post without applier")
	}
	loads := s.ip.loads
	err := s.fs.PostConsuming()
	ev := tr.M{"ev": "Post", "sid": s.sid, "res": "ok", "err": errText(err), "man": s.manLabel(s.man), "downloaded": s.ip.loads > loads}
	if err != nil {
		ev["res"] = "err"
	}
	ev["invalid"] = s.sm.IsInvalidManifest(s.man.CidV2)
	time.Sleep(2 * time.Millisecond) // the switch clears the abandoned databases in the background
	ev["obs"] = s.observe()
	ev["leftover"] = s.leftover()
	ev["reboot"] = s.rebootProbe()
	s.fs = nil
	s.out.Emit(ev)
	return err == nil
}

func (s *syncNode) stepRestart() {
	s.boot(s.n.DB)
	ev := tr.M{"ev": "Restart", "sid": s.sid, "obs": s.observe()}
	s.out.Emit(ev)
}

// stepTail: Downloader.stopSync, then the remaining canonical blocks are applied one by one (normal operation)
func (s *syncNode) stepTail(upTo uint64) {
	s.n.Chain.StopSync()
	s.sm.StopSync()
	acc := 0
	errs := ""
	first := s.n.Chain.Head.Height() + 1
	for h := first; h <= upTo; h++ {
		if err := s.n.Add(s.c.blocks[h]); err != nil {
			errs = fmt.Sprintf("block %d: %s", h, errText(err))
			break
		}
		acc++
	}
	ev := tr.M{"ev": "Tail", "sid": s.sid, "from": s.rel(first), "to": s.rel(upTo), "accepted": acc, "err": errs, "obs": s.observe()}
	s.out.Emit(ev)
}

func peerNames(set mapset.Set) []string {
	res := []string{}
	for _, x := range set.ToSlice() {
		res = append(res, string(x.(peer.ID)))
	}
	sort.Strings(res)
	return res
}

// ---------------------------------------------------------------------------------------------
// observations

type art struct {
	H     int    `json:"h"`
	Hash  string `json:"hash"`
	DiffD string `json:"diffd"`
	CertD string `json:"certd"`
}

type canonObs struct {
	Head       int    `json:"head"`
	HeadHash   string `json:"headHash"`
	Root       string `json:"root"`
	IdRoot     string `json:"idRoot"`
	LiveRoot   string `json:"liveRoot"`
	LiveIdRoot string `json:"liveIdRoot"`
	StateVer   int    `json:"stateVer"`
	IdVer      int    `json:"idVer"`
	View       string `json:"view"`
	Index      string `json:"index"`   // digest of the canonical index up to the head
	DurHead    int    `json:"durHead"` // the head a restarted node would read
	Live       string `json:"live"`    // what the node's components read from the live state all the time (engine, mempool, API)
}

// liveReads goes through the LIVE state objects as the consensus engine, the mempool and the API do on a running node
// (epoch, last snapshot, fee, balances, nonces, identity states), so that whatever the state keeps cached is in use.
func liveReads(w *sim.World, n *sim.Node) string {
	st := n.App.State
	var b bytes.Buffer
	fmt.Fprintf(&b, "%d/%d/%d/%v/%d;", st.Epoch(), st.LastSnapshot(), st.ValidationPeriod(), st.FeePerGas(), st.NextValidationTime().Unix())
	for _, k := range []int{0, 1, 2, 3, 6, ownKey, 8, 10} {
		a := w.Addrs[k]
		fmt.Fprintf(&b, "%d:%v/%d/%d/%d/%v;", k, st.GetBalance(a), st.GetNonce(a), st.GetEpoch(a), st.GetIdentityState(a), st.GetStakeBalance(a))
	}
	return dig(b.Bytes())
}

type obsT struct {
	Canon      canonObs `json:"canon"`
	Prelim     int      `json:"prelim"`    // relative height of the preliminary head, -1 when there is none
	DurPrelim  int      `json:"durPrelim"` // as stored
	PIdRoot    string   `json:"pIdRoot"`
	PIdVers    []int    `json:"pIdVers"` // saved versions of the preliminary identity tree in (L..S]
	PView      string   `json:"pView"`
	Deferred   []int    `json:"deferred"`
	Arts       []art    `json:"arts"` // what the node stores for the heights (L..top] above its start
	Banned     []string `json:"banned"`
	Forked     []string `json:"forked"`
	Registered []string `json:"registered"`
	Applier    bool     `json:"applier"`
}

func viewDigest(w *sim.World, vc *validators.ValidatorsCache) string {
	if vc == nil {
		return ""
	}
	var b bytes.Buffer
	fmt.Fprintf(&b, "%d/%d/%d/%d;", vc.NetworkSize(), vc.OnlineSize(), vc.ValidatorsSize(), vc.ForkCommitteeSize())
	for i, a := range w.Addrs {
		if vc.IsValidated(a) {
			fmt.Fprintf(&b, "v%d,", i)
		}
		if vc.IsOnlineIdentity(a) {
			fmt.Fprintf(&b, "o%d,", i)
		}
		if vc.IsDiscriminated(a) {
			fmt.Fprintf(&b, "d%d,", i)
		}
		if vc.IsPool(a) {
			fmt.Fprintf(&b, "p%d:%d[", i, vc.PoolSize(a))
			for j := 0; j <= vc.PoolSize(a) && j < 12; j++ {
				sub, nonce := vc.FindSubIdentity(a, uint32(j))
				fmt.Fprintf(&b, "%s/%d ", w.Name(sub), nonce)
			}
			b.WriteString("],")
		}
		if d := vc.Delegator(a); d != (common.Address{}) {
			fmt.Fprintf(&b, "g%d>%s,", i, w.Name(d))
		}
	}
	for i := 0; i < 3; i++ {
		var seed types.Seed
		copy(seed[:], crypto.Keccak256([]byte{byte(i), 7}))
		for _, limit := range []int{3, 100} {
			sv := vc.GetOnlineValidators(seed, uint64(10+i), types.Final, limit)
			if sv == nil {
				b.WriteString("nil;")
				continue
			}
			var names []string
			for _, x := range sv.Original.ToSlice() {
				names = append(names, w.Name(x.(common.Address)))
			}
			sort.Strings(names)
			fmt.Fprintf(&b, "%v|%d|%d;", names, sv.Validators.Cardinality(), sv.ApprovedValidators.Cardinality())
		}
	}
	return fmt.Sprintf("%d/%d/%d:%s", vc.NetworkSize(), vc.OnlineSize(), vc.ValidatorsSize(), dig(b.Bytes()))
}

func canonOf(w *sim.World, n *sim.Node, base uint64) canonObs {
	h := n.Chain.Head
	lr := n.App.State.Root()
	lir := n.App.IdentityState.Root()
	o := canonObs{Head: int(h.Height()) - int(base), HeadHash: hx(h.Hash().Bytes()), Root: hx(h.Root().Bytes()), IdRoot: hx(h.IdentityRoot().Bytes()),
		LiveRoot: hx(lr[:]), LiveIdRoot: hx(lir[:]), StateVer: int(n.App.State.Version()) - int(base), IdVer: int(n.App.IdentityState.Version()) - int(base),
		View: viewDigest(w, n.App.ValidatorsCache), Live: liveReads(w, n)}
	var b bytes.Buffer
	for x := uint64(1); x <= h.Height(); x++ {
		if hd := n.Chain.GetBlockHeaderByHeight(x); hd != nil {
			b.Write(hd.Hash().Bytes())
		} else {
			b.WriteString("-")
		}
	}
	o.Index = dig(b.Bytes())
	o.DurHead = -1000
	if dh := n.Chain.GetHead(); dh != nil {
		o.DurHead = int(dh.Height()) - int(base)
	}
	return o
}

func artsOf(n *sim.Node, base, lo, hi uint64) []art {
	res := []art{}
	for x := lo; x <= hi; x++ {
		a := art{H: int(x) - int(base)}
		if hd := n.Chain.GetBlockHeaderByHeight(x); hd != nil {
			a.Hash = hx(hd.Hash().Bytes())
			if ct := n.Chain.GetCertificate(hd.Hash()); ct != nil {
				cb, _ := ct.ToBytes()
				a.CertD = dig(cb)
			}
		}
		if d := n.Chain.GetIdentityDiff(x); d != nil {
			db, _ := d.ToBytes()
			a.DiffD = dig(db)
			if a.DiffD == "" {
				a.DiffD = "empty"
			}
		}
		res = append(res, a)
	}
	return res
}

func (s *syncNode) observe() obsT {
	n := s.n
	o := obsT{Canon: canonOf(s.c.w, n, s.L), Prelim: -1, DurPrelim: -1, PIdVers: []int{}, Deferred: []int{}, Applier: s.fs != nil}
	top := n.Chain.Head.Height()
	if p := n.Chain.PreliminaryHead; p != nil {
		o.Prelim = s.rel(p.Height())
		if p.Height() > top {
			top = p.Height()
		}
	}
	if p := n.Chain.ReadPreliminaryHead(); p != nil {
		o.DurPrelim = s.rel(p.Height())
	}
	if s.fs != nil {
		if ids := s.fs.PrelimIdentity(); ids != nil {
			r := ids.Root()
			o.PIdRoot = hx(r[:])
			for x := s.L + 1; x <= s.S; x++ {
				if ids.HasVersion(x) {
					o.PIdVers = append(o.PIdVers, s.rel(x))
				}
			}
		}
		o.PView = viewDigest(s.c.w, s.fs.PrelimValidators())
		for _, x := range s.fs.Deferred() {
			o.Deferred = append(o.Deferred, s.rel(x))
		}
	}
	// only what changed since the previous observation (every artifact is judged when it appears or changes)
	if s.lastArt == nil {
		s.lastArt = map[int]art{}
	}
	o.Arts = []art{}
	for _, a := range artsOf(n, s.L, s.L+1, top) {
		if la, ok := s.lastArt[a.H]; !ok || la != a {
			o.Arts = append(o.Arts, a)
			s.lastArt[a.H] = a
		}
	}
	o.Forked = peerNames(s.forked)
	o.Banned = []string{}
	o.Registered = []string{}
	names := append([]string(nil), s.names...)
	sort.Strings(names)
	for _, name := range names {
		if vp := s.peers[name]; vp != nil {
			if vp.Banned() {
				o.Banned = append(o.Banned, name)
			}
			if vp.Registered() {
				o.Registered = append(o.Registered, name)
			}
		}
	}
	return o
}

// leftover counts the keys of state databases other than the live one (a refused snapshot must leave none)
func (s *syncNode) leftover() int {
	db := s.n.DB
	cur, _ := state.StateDbKeys.LoadDbPrefix(db)
	cnt := 0
	for _, h := range []uint64{s.S, s.S - 1, s.S + 1} {
		p := state.StateDbKeys.BuildDbPrefix(h)
		if bytes.Equal(p, cur) {
			continue
		}
		pdb := dbm.NewPrefixDB(db, p)
		it, err := pdb.Iterator(nil, nil)
		if err != nil {
			continue
		}
		for ; it.Valid(); it.Next() {
			cnt++
		}
		it.Close()
	}
	return cnt
}

type rebootObs struct {
	Ok     bool     `json:"ok"`
	Err    string   `json:"err"`
	Canon  canonObs `json:"canon"`
	Prelim int      `json:"prelim"`
}

// rebootProbe boots a second node over a COPY of the database (the syncing node itself goes on undisturbed).
func (s *syncNode) rebootProbe() (res rebootObs) {
	defer func() {
		if e := recover(); e != nil {
			res = rebootObs{Ok: false, Err: fmt.Sprint(e), Prelim: -1}
			if len(res.Err) > 90 {
				res.Err = res.Err[:90]
			}
		}
	}()
	ip := &netIpfs{Proxy: s.ip.Proxy, net: s.c.net, others: []ipfs.Proxy{s.c.propIpfs}, override: map[string][]byte{}}
	n := s.c.w.Boot(s.key, sim.CopyDB(s.n.DB), ip)
	if n.BootErr != nil {
		return rebootObs{Ok: false, Err: errText(n.BootErr), Prelim: -1}
	}
	r := rebootObs{Ok: true, Canon: canonOf(s.c.w, n, s.L), Prelim: -1}
	if p := n.Chain.PreliminaryHead; p != nil {
		r.Prelim = s.rel(p.Height())
	}
	return r
}
