// d_probe: scratch reproduction of a missing tree node after repeated ResetTo.
package main

import (
	"bytes"
	"encoding/hex"
	"fmt"

	dbm "github.com/tendermint/tm-db"
	"math/rand"

	"github.com/idena-network/idena-go/blockchain/types"
	"github.com/idena-network/idena-go/blockchain/validation"
	"github.com/idena-network/idena-go/common"
	"github.com/idena-network/idena-go/core/state"

	"verifh/internal/sim"
)

func main() {
	defer sim.Cleanup()
	for seed := int64(1); seed <= 30; seed++ {
		rnd := rand.New(rand.NewSource(seed))
		w := sim.NewWorld(seed, 6)
		w.Allocs = []sim.Alloc{
			{Key: 0, State: state.Verified, Balance: sim.Dna(100000, 1), Stake: sim.Dna(100, 1)},
			{Key: 1, State: state.Verified, Balance: sim.Dna(5000, 1), Stake: sim.Dna(50, 1)},
			{Key: 2, State: state.Newbie, Balance: sim.Dna(1000, 1)},
		}
		a := w.NewNode(0) // producer
		var ops []opRec
		phase := "init"
		b := w.Boot(1, &logDB{DB: dbm.NewMemDB(), ops: &ops, phase: &phase}, nil) // node under test
		nonce := uint32(0)
		var blocks [][]byte
		mk := func() []byte {
			if rnd.Intn(2) == 0 {
				nonce++
				tx := w.Tx(sim.TxSpec{From: 0, To: &w.Addrs[1+rnd.Intn(4)], Type: types.SendTx, Amount: sim.Dna(1, 1), MaxFee: sim.Dna(100, 1), Nonce: a.App.State.GetNonce(w.Addrs[0]) + 1})
				_ = a.Pool.AddExternalTxs(validation.InboundTx, tx)
			}
			blk := a.Propose(20)
			d := sim.Encode(blk)
			if err := a.Add(d); err != nil {
				panic(err)
			}
			return d
		}
		for i := 0; i < 12; i++ {
			d := mk()
			blocks = append(blocks, d)
			if err := b.Add(d); err != nil {
				panic(err)
			}
		}
		bad := false
		log := []string{}
		for step := 0; step < 12 && !bad; step++ {
			head := b.Chain.Head.Height()
			k := uint64(1 + rnd.Intn(3))
			db0 := sim.CopyDB(b.DB)
			phase = fmt.Sprintf("reset%d", step)
			if _, err := b.Chain.ResetTo(head - k); err != nil {
				panic(err)
			}
			db1 := sim.CopyDB(b.DB)
			phase = fmt.Sprintf("add%d", step)
			log = append(log, fmt.Sprintf("reset %d->%d", head, head-k))
			if rnd.Intn(2) == 0 {
				// re-apply the same blocks
				for x := head - k + 1; x <= head; x++ {
					if err := b.Add(blocks[x-2]); err != nil {
						panic(fmt.Sprint("re-add ", x, err))
					}
				}
				log = append(log, "readd-same")
			} else {
				// the producer switches too and builds other blocks
				if _, err := a.Chain.ResetTo(head - k); err != nil {
					panic(err)
				}
				blocks = blocks[:head-k-1]
				for x := head - k + 1; x <= head; x++ {
					d := mk()
					blocks = append(blocks, d)
					if err := b.Add(d); err != nil {
						panic(fmt.Sprint("add-new ", x, err))
					}
				}
				log = append(log, "add-other")
			}
			func() {
				defer func() {
					if e := recover(); e != nil {
						bad = true
						msg := fmt.Sprint(e)
						fmt.Println("seed", seed, "PANIC after", log, ":", msg[:80])
						var hx string
						fmt.Sscanf(msg, "Value missing for hash %s", &hx)
						raw, _ := hex.DecodeString(hx)
						find := func(name string, d dbm.DB) {
							it, _ := d.Iterator(nil, nil)
							defer it.Close()
							n := 0
							for ; it.Valid(); it.Next() {
								if bytes.HasSuffix(it.Key(), raw) {
									n++
									fmt.Printf("   %s: key %x (value %d bytes) head=%x\n", name, it.Key()[:6], len(it.Value()), it.Value()[:8])
								}
							}
							if n == 0 {
								fmt.Printf("   %s: absent\n", name)
							}
						}
						fmt.Println("   tree versions:", b.App.State.Version(), "head", b.Chain.Head.Height())
						find("before-reset", db0)
						find("after-reset", db1)
						find("after-add", b.DB)
						find("producer", a.DB)
						func() {
							defer func() {
								if e := recover(); e != nil {
									fmt.Println("   canonical live state iterate: PANIC", fmt.Sprint(e)[:50])
								}
							}()
							b.App.State.IterateOverAccounts(func(_ common.Address, _ state.Account) {})
							fmt.Println("   canonical live state iterate: ok")
						}()
						func() {
							defer func() {
								if e := recover(); e != nil {
									fmt.Println("   after restart: PANIC", fmt.Sprint(e)[:50])
								}
							}()
							c := w.Boot(1, sim.CopyDB(b.DB), nil)
							fmt.Println("   restart boot err:", c.BootErr)
							c.App.State.IterateOverAccounts(func(_ common.Address, _ state.Account) {})
							fmt.Println("   after restart iterate: ok, head", c.Chain.Head.Height())
						}()
						for _, o := range ops {
							if bytes.HasSuffix(o.key, raw) {
								fmt.Println("   op", o.op, o.at)
							}
						}
					}
				}()
				ro, err := b.App.Readonly(b.Chain.Head.Height())
				if err != nil {
					panic(err)
				}
				for i := range w.Addrs {
					_ = ro.State.GetBalance(w.Addrs[i])
				}
				ro.State.IterateOverAccounts(func(_ common.Address, _ state.Account) {})
			}()
		}
		if !bad {
			fmt.Println("seed", seed, "ok")
		}
	}
}
