package main

import (
	dbm "github.com/tendermint/tm-db"
)

type opRec struct {
	op  string
	key []byte
	at  string
}

type logDB struct {
	dbm.DB
	ops   *[]opRec
	phase *string
}

func (l *logDB) Set(k, v []byte) error {
	*l.ops = append(*l.ops, opRec{"set", append([]byte(nil), k...), *l.phase})
	return l.DB.Set(k, v)
}
func (l *logDB) SetSync(k, v []byte) error { return l.Set(k, v) }
func (l *logDB) Delete(k []byte) error {
	*l.ops = append(*l.ops, opRec{"del", append([]byte(nil), k...), *l.phase})
	return l.DB.Delete(k)
}
func (l *logDB) DeleteSync(k []byte) error { return l.Delete(k) }
func (l *logDB) NewBatch() dbm.Batch       { return &logBatch{Batch: l.DB.NewBatch(), l: l} }

type logBatch struct {
	dbm.Batch
	l    *logDB
	pend []opRec
}

func (b *logBatch) Set(k, v []byte) error {
	b.pend = append(b.pend, opRec{"bset", append([]byte(nil), k...), *b.l.phase})
	return b.Batch.Set(k, v)
}
func (b *logBatch) Delete(k []byte) error {
	b.pend = append(b.pend, opRec{"bdel", append([]byte(nil), k...), *b.l.phase})
	return b.Batch.Delete(k)
}
func (b *logBatch) Write() error {
	for _, o := range b.pend {
		o.at = o.at + ">write@" + *b.l.phase
		*b.l.ops = append(*b.l.ops, o)
	}
	b.pend = nil
	return b.Batch.Write()
}
func (b *logBatch) WriteSync() error { return b.Write() }
