package main

import (
	"fmt"
	"math/big"
	"sort"

	"github.com/idena-network/idena-go/blockchain/types"
	"github.com/idena-network/idena-go/common"
	"github.com/idena-network/idena-go/core/state"
	"github.com/idena-network/idena-go/core/validators"
	"github.com/idena-network/idena-go/crypto"
	dbm "github.com/tendermint/tm-db"

	"verifh/internal/sim"
	"verifh/internal/tr"
)

// vview is the projection of a validator view through its public getters.
type vview struct {
	NetSize    int        `json:"netsize"`
	OnlineSize int        `json:"online"`
	ValSize    int        `json:"valsize"`
	ForkSize   int        `json:"forksize"`
	Validated  []string   `json:"validated"`
	Online     []string   `json:"onlineIds"`
	Discr      []string   `json:"discr"`
	Pools      [][]string `json:"pools"` // [pool, size]
	Deleg      [][]string `json:"deleg"` // [delegator, pool]
	Committees []string   `json:"committees"`
}

func (h *hist) viewOf(vc *validators.ValidatorsCache, addrs []common.Address) vview {
	v := vview{NetSize: vc.NetworkSize(), OnlineSize: vc.OnlineSize(), ValSize: vc.ValidatorsSize(), ForkSize: vc.ForkCommitteeSize(),
		Validated: []string{}, Online: []string{}, Discr: []string{}, Pools: [][]string{}, Deleg: [][]string{}, Committees: []string{}}
	for _, a := range addrs {
		n := h.w.Name(a)
		if vc.IsValidated(a) {
			v.Validated = append(v.Validated, n)
		}
		if vc.IsOnlineIdentity(a) {
			v.Online = append(v.Online, n)
		}
		if vc.IsDiscriminated(a) {
			v.Discr = append(v.Discr, n)
		}
		if vc.IsPool(a) {
			// the order of the pool's members as block rewards walk it (sub-identity for every delegation nonce)
			row := []string{n, fmt.Sprint(vc.PoolSize(a))}
			for i := 0; i <= vc.PoolSize(a) && i < 12; i++ {
				sub, nonce := vc.FindSubIdentity(a, uint32(i))
				row = append(row, fmt.Sprintf("%s/%d", h.w.Name(sub), nonce))
			}
			v.Pools = append(v.Pools, row)
		}
		if d := vc.Delegator(a); d != (common.Address{}) {
			v.Deleg = append(v.Deleg, []string{n, h.w.Name(d)})
		}
	}
	// committees for a grid of seeds / rounds / steps
	for i := 0; i < 4; i++ {
		var seed types.Seed
		copy(seed[:], crypto.Keccak256([]byte{byte(i), 7}))
		for _, step := range []uint8{1, 2, types.Final} {
			for _, limit := range []int{3, 100} {
				sv := vc.GetOnlineValidators(seed, uint64(10+i), step, limit)
				if sv == nil {
					v.Committees = append(v.Committees, "nil")
					continue
				}
				var names []string
				for _, x := range sv.Original.ToSlice() {
					names = append(names, h.w.Name(x.(common.Address)))
				}
				sort.Strings(names)
				v.Committees = append(v.Committees, fmt.Sprintf("%v|%d|%d|%d", names, sv.Validators.Cardinality(), sv.ApprovedValidators.Cardinality(), sv.VotesCountSubtrahend(0.65)))
			}
		}
	}
	return v
}

type regEntry struct {
	A         string `json:"a"`
	Validated bool   `json:"validated"`
	Online    bool   `json:"online"`
	Delegatee string `json:"delegatee"`
	Discr     bool   `json:"discr"`
}

func (h *hist) knownAddrs() []common.Address {
	set := map[common.Address]bool{}
	for _, a := range h.w.Addrs {
		set[a] = true
	}
	var res []common.Address
	for a := range set {
		res = append(res, a)
	}
	return sim.SortedAddrs(res)
}

// follower replays the identity diffs a node serves, as a fast-syncing peer does
type follower struct {
	db  dbm.DB
	ids *state.IdentityStateDB
	at  uint64
}

func (h *hist) start() {
	l, err := h.ref.n.Project(h.ref.n.Chain.Head.Height())
	if err != nil {
		panic(err)
	}
	h.prevLed = l
	h.ledgers[h.ref.n.Chain.Head.Height()] = l
	cons := h.w.Cons
	h.genDB = sim.CopyDB(h.ref.n.DB)
	blockReward := sim.Limbs(addBig(cons.BlockReward, cons.FinalCommitteeReward))
	names := []string{}
	for i := range h.w.Addrs {
		if i < 24 {
			names = append(names, fmt.Sprintf("k%d", i))
		}
	}
	h.out.Emit(tr.M{"ev": "Genesis", "hid": h.id, "ledger": l, "blockReward": blockReward, "god": "k0", "keys": names,
		"obs": h.ref.n.Obs(), "big": h.cfg.big})
}

// addViews adds the registry, sync-artifact and historical-view observations of the reference replica
func (h *hist) addViews(line tr.M, height uint64) {
	n := h.ref.n
	addrs := h.knownAddrs()
	incr := h.viewOf(n.App.ValidatorsCache, addrs)
	fresh := validators.NewValidatorsCache(n.App.IdentityState, n.App.State.GodAddress())
	fresh.Load()
	loaded := h.viewOf(fresh, addrs)
	line["vincr"] = incr
	line["vload"] = loaded
	// stored registry entries
	var reg []regEntry
	for _, a := range addrs {
		is := n.App.IdentityState
		e := regEntry{A: h.w.Name(a), Validated: is.IsValidated(a), Online: is.IsOnline(a)}
		if d := is.Delegatee(a); d != nil {
			e.Delegatee = h.w.Name(*d)
		}
		if e.Validated || e.Online || e.Delegatee != "" {
			reg = append(reg, e)
		}
	}
	if reg == nil {
		reg = []regEntry{}
	}
	line["registry"] = reg
	if h.life != nil {
		line["life"] = h.lifeObs()
		if h.life.step != nil {
			line["lstep"] = h.life.step
		}
	}

	// the read-only view of the head (what queries are answered from) shows what the node committed for its head
	func() {
		defer func() {
			if e := recover(); e != nil {
				line["rohead"] = tr.M{"ok": false, "same": false, "msg": fmt.Sprint(e)[:90]}
			}
		}()
		ro, err := n.Project(height)
		live := sim.ProjectState(h.w, n.App)
		line["rohead"] = tr.M{"ok": err == nil, "same": err == nil && ledgerEq(ro, live), "msg": ""}
	}()

	// historical exactness: a fresh read-only view of an older retained height equals what was
	// recorded when that height was committed
	if height > 3 {
		old := height - uint64(1+h.rnd.Intn(int(minU(height-2, 60))))
		if rec, ok := h.ledgers[old]; ok && n.App.State.HasVersion(old) {
			now, err := n.Project(old)
			line["hist"] = tr.M{"h": old, "ok": err == nil, "same": err == nil && ledgerEq(rec, now)}
		}
	}
}

func minU(a, b uint64) uint64 {
	if a < b {
		return a
	}
	return b
}

func ledgerEq(a, b *sim.Ledger) bool {
	if len(a.Accts) != len(b.Accts) || a.Epoch != b.Epoch || a.TotalB.Cmp(b.TotalB) != 0 {
		return false
	}
	for i := range a.Accts {
		x, y := a.Accts[i], b.Accts[i]
		if x.A != y.A || x.BalB.Cmp(y.BalB) != 0 || x.StakeB.Cmp(y.StakeB) != 0 || x.CStakeB.Cmp(y.CStakeB) != 0 ||
			x.Nonce != y.Nonce || x.Epoch != y.Epoch || x.Status != y.Status || x.Inviter != y.Inviter || x.Delegatee != y.Delegatee {
			return false
		}
	}
	return true
}

// finish: a follower replays every served identity diff of the canonical chain from the genesis
// identity state and compares the identity root with each canonical header.
func (h *hist) finish() {
	servers := []*replica{h.ref, h.reps[len(h.reps)-1]}
	if h.cfg.faults {
		servers = h.reps // every replica may have been the one whose insertion failed
	}
	for _, r := range servers {
		db := sim.CopyDB(h.genDB.(dbm.DB))
		ids, err := state.NewLazyIdentityState(db)
		if err != nil {
			panic(err)
		}
		if err := ids.Load(1); err != nil {
			panic(err)
		}
		head := r.n.Chain.Head.Height()
		bad := []uint64{}
		for x := uint64(2); x <= head; x++ {
			hdr := r.n.Chain.GetBlockHeaderByHeight(x)
			if hdr == nil {
				bad = append(bad, x)
				break
			}
			diff := r.n.Chain.GetIdentityDiff(x)
			if diff != nil {
				// transported as bytes, like every sync artifact
				data, _ := diff.ToBytes()
				d2 := new(state.IdentityStateDiff)
				if err := d2.FromBytes(data); err != nil {
					panic(err)
				}
				ids.AddDiff(x, d2)
			}
			if ids.Root() != hdr.IdentityRoot() {
				bad = append(bad, x)
				break
			}
			if _, _, err := ids.CommitTree(int64(x)); err != nil {
				panic(err)
			}
		}
		h.out.Emit(tr.M{"ev": "Follower", "hid": h.id, "server": r.name, "head": head, "bad": bad, "reorgs": h.nReorgs, "failedInserts": h.nFailed})
	}
}

func addBig(a, b *big.Int) *big.Int { return new(big.Int).Add(a, b) }
