package main

// A replica whose node-local history is "was offline and caught up": it does not apply blocks as the
// network produces them but falls behind and then fetches what it missed in batches through the REAL
// full-sync code (protocol.fullSync.processBatch: validateHeader, ValidateBlockCert, deferred headers,
// applyDeferredBlocks with ONE long-lived check state per batch, AddBlock, FinalizePrecommit).  The blocks
// travel as the bytes of a real BlocksRange message through the real handle(), bodies through the ipfs
// store, certificates are real quorum certificates signed by the final committee of every height.
//
// Replicas.tla calls this history kind "sync<k>"; Trace_Replicas judges the "Catchup" line: a replica that
// is offered the canonical chain accepts it and ends with the observation of the replicas that followed
// the chain block by block (clause SyncedAgrees).

import (
	"fmt"
	"time"

	"github.com/golang/protobuf/proto"
	"github.com/idena-network/idena-go/blockchain/types"
	"github.com/idena-network/idena-go/config"
	"github.com/idena-network/idena-go/core/flip"
	"github.com/idena-network/idena-go/core/mempool"
	"github.com/idena-network/idena-go/pengings"
	models "github.com/idena-network/idena-go/protobuf"
	"github.com/idena-network/idena-go/protocol"
	"github.com/idena-network/idena-go/stats/collector"

	"verifh/internal/sim"
	"verifh/internal/tr"
	"verifh/internal/vclock"
)

type fsItem struct {
	height uint64
	blk    *types.Block
	cert   *types.BlockCert
	need   int // votes a certificate of this block needs
	avail  int // committee members whose keys the scenario holds
	stuck  bool
}

type fsReplica struct {
	r       *replica
	h       *protocol.IdenaGossipHandler
	peer    *protocol.VerifPeer
	queue   []fsItem
	obsAt   map[uint64]sim.HeadObs // what the block-by-block reference observed at each height
	batches int
}

// clockPump emulates the passage of time for code parked on the virtual clock (only the full-sync applier parks): its
// 1 s sleep after an invalid block is released at once.  Its 20 s wait for the next header is NOT released here: a
// timer released while the applier is merely slow (loaded machine) would make it take the time-out branch although
// the header is in the channel; fsCatchup releases those timers only when the applier is waiting for a header that
// is not going to arrive.
func clockPump(c *vclock.Clock) {
	for s := range c.Parked {
		if s.D <= 2*time.Second {
			c.Release(s)
		}
	}
}

func releaseLongTimers(c *vclock.Clock) {
	for _, s := range c.Sleepers() {
		if s.D > 2*time.Second {
			c.Release(s)
		}
	}
}

func (h *hist) newFS(key int) {
	go clockPump(h.w.Clock)
	n := h.w.NewNode(key)
	if n.BootErr != nil {
		panic(n.BootErr)
	}
	r := &replica{name: "fs", n: n, kind: "sync"}
	h.attachCeremony(r)
	props, _ := pengings.NewProposals(n.Chain, n.App, n.Offline, n.Upgrader, collector.NewStatsCollector())
	votes := pengings.NewVotes(n.App, n.Bus, n.Offline, n.Upgrader)
	votes.Initialize(n.Chain.Head)
	keys := mempool.NewKeysPool(n.DB, n.App, n.Bus, n.Sec)
	keys.Initialize(n.Chain.Head)
	fp := flip.NewFlipper(n.DB, n.Ipfs, keys, n.Pool, n.Sec, n.App, n.Bus)
	fp.Initialize()
	gh := protocol.VerifNewHandler(config.P2P{MaxInboundPeers: 12, MaxOutboundPeers: 6}, n.Chain, props, votes, n.Pool, fp, n.Bus, keys, "1.1.0", true)
	h.fs = &fsReplica{r: r, h: gh, peer: gh.VerifNewPeer("peer-fs"), obsAt: map[uint64]sim.HeadObs{}}
}

// fsCommittee: who may certify the NEXT block and how many votes a certificate needs (read from the
// reference before it applies the block).
func (h *hist) fsCommittee() ([]int, int) {
	n := h.ref.n
	vc := n.App.ValidatorsCache
	head := n.Chain.Head
	sv := vc.GetOnlineValidators(head.Seed(), head.Height()+1, types.Final, n.Chain.GetCommitteeSize(vc, true))
	if sv == nil {
		return nil, 1 << 20
	}
	var signers []int
	for i, a := range h.w.Addrs {
		if sv.Approved(a) {
			signers = append(signers, i)
		}
	}
	need := n.Chain.GetCommitteeVotesThreshold(vc, true) - sv.VotesCountSubtrahend(n.Cfg.Consensus.AgreementThreshold)
	return signers, need
}

func (h *hist) fsEnqueue(blk *types.Block, signers []int, need int) {
	if h.fs == nil {
		return
	}
	it := fsItem{height: blk.Height(), blk: blk, need: need, avail: len(signers)}
	flags := blk.Header.Flags()
	must := flags.HasFlag(types.IdentityUpdate) || flags.HasFlag(types.Snapshot) || flags.HasFlag(types.NewGenesis)
	if need >= 1 && len(signers) >= need && (must || h.rnd.Intn(3) == 0) {
		it.cert = h.w.Cert(blk, signers)
	}
	// a block that full sync only takes with a certificate but for which none can exist in this tiny network (every
	// committee member is non-approved: zero required votes, and an empty certificate counts as missing)
	it.stuck = must && it.cert == nil
	h.fs.queue = append(h.fs.queue, it)
	h.fs.obsAt[blk.Height()] = h.ref.n.Obs()
}

// fsCatchup lets the lagging replica fetch what it missed, up to the last queued block that carries a
// certificate (the blocks behind it stay deferred in the real code as well).
func (h *hist) fsCatchup(why string) {
	fs := h.fs
	if fs == nil {
		return
	}
	if h.pendingEpoch != nil {
		h.pendingEpoch(fs.r)
	}
	for i, it := range fs.queue {
		if !it.stuck {
			continue
		}
		// no peer could serve this stretch by full sync: the replica takes it block by block, like the others
		for _, x := range fs.queue[:i+1] {
			if err := fs.r.n.Add(sim.Encode(x.blk)); err != nil {
				panic(fmt.Sprintf("fs replica: plain insertion of block %d failed: %v", x.height, err))
			}
		}
		h.out.Emit(tr.M{"ev": "CatchupSkipped", "hid": h.id, "from": fs.queue[0].height, "to": it.height, "need": it.need, "avail": it.avail,
			"why": "a block full sync takes only with a certificate, and no certificate can exist for it here"})
		fs.queue = append([]fsItem(nil), fs.queue[i+1:]...)
		h.fsCatchup(why)
		return
	}
	last := -1
	for i, it := range fs.queue {
		if it.cert != nil {
			last = i
		}
	}
	if last < 0 {
		return
	}
	items := fs.queue[:last+1]
	n := fs.r.n
	from, to := n.Chain.Head.Height()+1, items[last].height
	if items[0].height != from {
		panic(fmt.Sprintf("fs replica head %d, queue starts at %d", from-1, items[0].height))
	}
	if h.pendingEpoch != nil {
		h.pendingEpoch(fs.r) // the per-height result cache of a node that was away (stand-in for on-chain data)
	}
	var blocks []*models.ProtoGossipBlockRange_Block
	certs, idupd := 0, 0
	var shape [][5]int
	for _, it := range items {
		c := 0
		if it.cert != nil {
			c = len(it.cert.Signatures)
		}
		shape = append(shape, [5]int{int(it.height), int(it.blk.Header.Flags()), c, it.need, it.avail})
		if it.blk.Header.ProposedHeader != nil && it.blk.Body != nil {
			n.Ipfs.Add(it.blk.Body.ToBytes(), false)
		}
		b := &models.ProtoGossipBlockRange_Block{Header: it.blk.Header.ToProto()}
		if it.cert != nil {
			b.Cert = it.cert.ToProto()
			certs++
		}
		if it.blk.Header.Flags().HasFlag(types.IdentityUpdate) {
			idupd++
		}
		blocks = append(blocks, b)
	}
	vb := fs.peer.ExpectBlocks(from, to)
	fs.peer.Outbox()
	payload, err := proto.Marshal(&models.ProtoGossipBlockRange{BatchId: vb.Id, Blocks: blocks})
	if err != nil {
		panic(err)
	}
	env, err := proto.Marshal(&models.ProtoMsg{Code: protocol.BlocksRange, Payload: payload})
	if err != nil {
		panic(err)
	}
	raw := protocol.VerifLenPrefixed(protocol.Encode(protocol.BlocksRange, env))
	var herr, serr error
	h.inZone(fs.r, func() {
		herr = fs.peer.HandleStream(raw)
		if herr != nil {
			return
		}
		done := make(chan struct{})
		go func() {
			defer close(done)
			serr = vb.FullSync(n.Chain, n.Ipfs, n.App, collector.NewStatsCollector())
		}()
		// the applier's header time-outs fire only when it is waiting in vain: every header it was sent has been taken
		// (a re-requested batch after a refused block never gets an answer here), or nothing moved for 3 s of real time
		last, since := vb.Received(), time.Now()
		for {
			select {
			case <-done:
				return
			case <-time.After(5 * time.Millisecond):
			}
			r := vb.Received()
			if r != last {
				last, since = r, time.Now()
			}
			if r == 0 || time.Since(since) > 3*time.Second {
				releaseLongTimers(h.w.Clock)
			}
		}
	})
	verdict, msg := "ok", ""
	if herr != nil {
		verdict, msg = "handle-error", herr.Error()
	} else if serr != nil {
		verdict, msg = errClass(serr), serr.Error()
	}
	head := n.Chain.Head.Height()
	if verdict == "ok" && head != to {
		verdict = "stopped-short"
	}
	fs.batches++
	line := tr.M{"ev": "Catchup", "hid": h.id, "replica": "fs", "from": from, "to": to, "n": len(items), "certs": certs, "idupd": idupd,
		"why": why, "shape": shape, "known": fs.peer.KnownHeight(), "verdict": verdict, "msg": msg, "head": head, "obs": n.Obs(), "reorgs": h.nReorgs}
	if ro, ok := fs.obsAt[head]; ok {
		line["refobs"] = ro
	} else {
		line["refobs"] = h.ref.n.Obs()
	}
	h.out.Emit(line)
	// whatever was applied leaves the queue; a refused batch is asked for again next time (fresh check state)
	keep := fs.queue[:0]
	for _, it := range fs.queue {
		if it.height > head {
			keep = append(keep, it)
		}
	}
	fs.queue = keep
	for x := range fs.obsAt {
		if x < head {
			delete(fs.obsAt, x)
		}
	}
}

// fsReorg: the network abandoned the blocks above `to`.
func (h *hist) fsReorg(to uint64) {
	fs := h.fs
	if fs == nil {
		return
	}
	keep := fs.queue[:0]
	for _, it := range fs.queue {
		if it.height <= to {
			keep = append(keep, it)
		}
	}
	fs.queue = keep
	for x := range fs.obsAt {
		if x > to {
			delete(fs.obsAt, x)
		}
	}
	if fs.r.n.Chain.Head.Height() > to {
		if _, err := fs.r.n.Chain.ResetTo(to); err != nil {
			panic("fs replica ResetTo: " + err.Error())
		}
	}
}
