package main

// A replica whose node-local history is "was offline and caught up": it does not apply blocks as the
// network produces them but falls behind and then fetches what it missed in batches through the REAL
// full-sync code (protocol.fullSync.processBatch: validateHeader, ValidateBlockCert, deferred headers,
// applyDeferredBlocks with ONE long-lived check state per batch, AddBlock, FinalizePrecommit).  The blocks
// travel as the bytes of a real BlocksRange message through the real handle(), bodies through the ipfs
// store, certificates are real quorum certificates signed by the final committee of every height.
//
// Replicas.tla calls this history kind "sync<k>"; Trace_Replicas judges the "Catchup" line: a replica that
// is offered the canonical chain accepts it and ends with the observation of the replicas that followed
// the chain block by block (clause SyncedAgrees).

import (
	"fmt"
	"time"

	"github.com/golang/protobuf/proto"
	"github.com/idena-network/idena-go/blockchain/types"
	"github.com/idena-network/idena-go/config"
	"github.com/idena-network/idena-go/core/flip"
	"github.com/idena-network/idena-go/core/mempool"
	"github.com/idena-network/idena-go/pengings"
	models "github.com/idena-network/idena-go/protobuf"
	"github.com/idena-network/idena-go/protocol"
	"github.com/idena-network/idena-go/stats/collector"

	"verifh/internal/sim"
	"verifh/internal/tr"
	"verifh/internal/vclock"
)

type fsItem struct {
	height uint64
	blk    *types.Block
	cert   *types.BlockCert
}

type fsReplica struct {
	r       *replica
	h       *protocol.IdenaGossipHandler
	peer    *protocol.VerifPeer
	queue   []fsItem
	obsAt   map[uint64]sim.HeadObs // what the block-by-block reference observed at each height
	batches int
}

// clockPump emulates the passage of time for code parked on the virtual clock (only the full-sync applier parks: it
// sleeps 1 s after an invalid block and waits 20 s for a header that is not coming): short sleeps are released at once,
// long timers after a real 2 ms.
func clockPump(c *vclock.Clock) {
	for s := range c.Parked {
		if s.D <= 2*time.Second {
			c.Release(s)
		} else {
			go func(s *vclock.Sleeper) {
				time.Sleep(2 * time.Millisecond)
				c.Release(s)
			}(s)
		}
	}
}

func (h *hist) newFS(key int) {
	go clockPump(h.w.Clock)
	n := h.w.NewNode(key)
	if n.BootErr != nil {
		panic(n.BootErr)
	}
	r := &replica{name: "fs", n: n, kind: "sync"}
	h.attachCeremony(r)
	props, _ := pengings.NewProposals(n.Chain, n.App, n.Offline, n.Upgrader, collector.NewStatsCollector())
	votes := pengings.NewVotes(n.App, n.Bus, n.Offline, n.Upgrader)
	votes.Initialize(n.Chain.Head)
	keys := mempool.NewKeysPool(n.DB, n.App, n.Bus, n.Sec)
	keys.Initialize(n.Chain.Head)
	fp := flip.NewFlipper(n.DB, n.Ipfs, keys, n.Pool, n.Sec, n.App, n.Bus)
	fp.Initialize()
	gh := protocol.VerifNewHandler(config.P2P{MaxInboundPeers: 12, MaxOutboundPeers: 6}, n.Chain, props, votes, n.Pool, fp, n.Bus, keys, "1.1.0", true)
	h.fs = &fsReplica{r: r, h: gh, peer: gh.VerifNewPeer("peer-fs"), obsAt: map[uint64]sim.HeadObs{}}
}

// fsCommittee: who may certify the NEXT block and how many votes a certificate needs (read from the
// reference before it applies the block).
func (h *hist) fsCommittee() ([]int, int) {
	n := h.ref.n
	vc := n.App.ValidatorsCache
	head := n.Chain.Head
	sv := vc.GetOnlineValidators(head.Seed(), head.Height()+1, types.Final, n.Chain.GetCommitteeSize(vc, true))
	if sv == nil {
		return nil, 1 << 20
	}
	var signers []int
	for i, a := range h.w.Addrs {
		if sv.Approved(a) {
			signers = append(signers, i)
		}
	}
	need := n.Chain.GetCommitteeVotesThreshold(vc, true) - sv.VotesCountSubtrahend(n.Cfg.Consensus.AgreementThreshold)
	return signers, need
}

func (h *hist) fsEnqueue(blk *types.Block, signers []int, need int) {
	if h.fs == nil {
		return
	}
	it := fsItem{height: blk.Height(), blk: blk}
	flags := blk.Header.Flags()
	must := flags.HasFlag(types.IdentityUpdate) || flags.HasFlag(types.Snapshot) || flags.HasFlag(types.NewGenesis)
	if need >= 1 && len(signers) >= need && (must || h.rnd.Intn(3) == 0) {
		it.cert = h.w.Cert(blk, signers)
	}
	h.fs.queue = append(h.fs.queue, it)
	h.fs.obsAt[blk.Height()] = h.ref.n.Obs()
}

// fsCatchup lets the lagging replica fetch what it missed, up to the last queued block that carries a
// certificate (the blocks behind it stay deferred in the real code as well).
func (h *hist) fsCatchup(why string) {
	fs := h.fs
	if fs == nil {
		return
	}
	last := -1
	for i, it := range fs.queue {
		if it.cert != nil {
			last = i
		}
	}
	if last < 0 {
		return
	}
	items := fs.queue[:last+1]
	n := fs.r.n
	from, to := n.Chain.Head.Height()+1, items[last].height
	if items[0].height != from {
		panic(fmt.Sprintf("fs replica head %d, queue starts at %d", from-1, items[0].height))
	}
	if h.pendingEpoch != nil {
		h.pendingEpoch(fs.r) // the per-height result cache of a node that was away (stand-in for on-chain data)
	}
	var blocks []*models.ProtoGossipBlockRange_Block
	certs, idupd := 0, 0
	for _, it := range items {
		if it.blk.Header.ProposedHeader != nil && it.blk.Body != nil {
			n.Ipfs.Add(it.blk.Body.ToBytes(), false)
		}
		b := &models.ProtoGossipBlockRange_Block{Header: it.blk.Header.ToProto()}
		if it.cert != nil {
			b.Cert = it.cert.ToProto()
			certs++
		}
		if it.blk.Header.Flags().HasFlag(types.IdentityUpdate) {
			idupd++
		}
		blocks = append(blocks, b)
	}
	vb := fs.peer.ExpectBlocks(from, to)
	fs.peer.Outbox()
	payload, err := proto.Marshal(&models.ProtoGossipBlockRange{BatchId: vb.Id, Blocks: blocks})
	if err != nil {
		panic(err)
	}
	env, err := proto.Marshal(&models.ProtoMsg{Code: protocol.BlocksRange, Payload: payload})
	if err != nil {
		panic(err)
	}
	raw := protocol.VerifLenPrefixed(protocol.Encode(protocol.BlocksRange, env))
	var herr, serr error
	h.inZone(fs.r, func() {
		herr = fs.peer.HandleStream(raw)
		if herr == nil {
			serr = vb.FullSync(n.Chain, n.Ipfs, n.App, collector.NewStatsCollector())
		}
	})
	verdict, msg := "ok", ""
	if herr != nil {
		verdict, msg = "handle-error", herr.Error()
	} else if serr != nil {
		verdict, msg = errClass(serr), serr.Error()
	}
	head := n.Chain.Head.Height()
	if verdict == "ok" && head != to {
		verdict = "stopped-short"
	}
	fs.batches++
	line := tr.M{"ev": "Catchup", "hid": h.id, "replica": "fs", "from": from, "to": to, "n": len(items), "certs": certs, "idupd": idupd,
		"why": why, "verdict": verdict, "msg": msg, "head": head, "obs": n.Obs(), "reorgs": h.nReorgs}
	if ro, ok := fs.obsAt[head]; ok {
		line["refobs"] = ro
	} else {
		line["refobs"] = h.ref.n.Obs()
	}
	h.out.Emit(line)
	// whatever was applied leaves the queue; a refused batch is asked for again next time (fresh check state)
	keep := fs.queue[:0]
	for _, it := range fs.queue {
		if it.height > head {
			keep = append(keep, it)
		}
	}
	fs.queue = keep
	for x := range fs.obsAt {
		if x < head {
			delete(fs.obsAt, x)
		}
	}
}

// fsReorg: the network abandoned the blocks above `to`.
func (h *hist) fsReorg(to uint64) {
	fs := h.fs
	if fs == nil {
		return
	}
	keep := fs.queue[:0]
	for _, it := range fs.queue {
		if it.height <= to {
			keep = append(keep, it)
		}
	}
	fs.queue = keep
	for x := range fs.obsAt {
		if x > to {
			delete(fs.obsAt, x)
		}
	}
	if fs.r.n.Chain.Head.Height() > to {
		if _, err := fs.r.n.Chain.ResetTo(to); err != nil {
			panic("fs replica ResetTo: " + err.Error())
		}
	}
}
