package main

// Identity-lifecycle scenarios exported by TLC from spec/Lifecycle.tla (MC_Lifecycle): every path starts in one of the
// situations the prelude prepares on a real chain (a key in every identity status, validated ones with and without their
// required flips) and is a sequence of ATTEMPTS (transactions by or against the focus identity x, admissible or not) and
// block-level steps (identity-update block, start of the next validation period, epoch end with a model-chosen outcome,
// an offline penalty decided by the committee).  Every attempt becomes one real signed transaction in a block of its own:
// it is offered to the real mempools; what they refuse is offered once more by a proposer whose mempool does not filter
// (VerifInjectExecutable), so that the rules a BLOCK must satisfy are exercised as well.  Blocks are proposed by the real
// ProposeBlock and validated / inserted by the real ValidateBlock / AddBlock of every replica; epoch outcomes go through
// the real ceremony.ApplyNewEpoch (values injected into its per-height cache).  The trace is the ordinary d_chain trace
// (so that Trace_Ledger / Trace_Registry / Trace_Replicas judge these histories too) plus, per block, the extended
// projection of the cast ("life") and the model's prediction for the step ("lstep"), which Trace_Lifecycle reads.

import (
	"encoding/json"
	"fmt"
	"math/big"
	"os"

	"github.com/idena-network/idena-go/blockchain/attachments"
	"github.com/idena-network/idena-go/blockchain/types"
	"github.com/idena-network/idena-go/common"
	"github.com/idena-network/idena-go/core/ceremony"
	"github.com/idena-network/idena-go/core/state"
	"github.com/idena-network/idena-go/crypto"
	"github.com/idena-network/idena-go/crypto/ecies"
	"github.com/idena-network/idena-go/crypto/vrf/p256"
	"github.com/idena-network/idena-go/ipfs"
	dbm "github.com/tendermint/tm-db"

	"verifh/internal/sim"
	"verifh/internal/tr"
)

type lifeStep struct {
	N     string          `json:"n"`
	Out   string          `json:"out"`
	Inv   int             `json:"inv"`
	Rw    bool            `json:"rw"`
	By    string          `json:"by"`
	Pool  bool            `json:"pool"`
	Block bool            `json:"block"`
	Post  json.RawMessage `json:"post"`
}

type lifePath struct {
	Init string     `json:"init"`
	Id   int        `json:"id"`
	Path []lifeStep `json:"path"`
}

type lifeCtx struct {
	roles      map[string]int
	init       string
	fixedDelay int64
	craft      func(prop *replica, delay int64) *types.Block
	epoch      func(h *hist, outs []ceremony.VerifOutcome) ([]ceremony.VerifOutcome, map[common.ShardId]*types.ValidationResults)
	step       tr.M             // what the coming block stands for (copied into its trace line)
	flips      map[int][][]byte // cids of the flips a key submitted (prelude included)
	flipSeq    int
	stats      map[string]int
}

// the common switch range of lifecycle worlds
const lifeRange = 16

func lifeExtra(cfg *scenCfg) int {
	if cfg.life {
		return 30000
	}
	return 0
}

func (l *lifeCtx) delay(h *hist) int64 {
	if l.fixedDelay > 0 {
		d := l.fixedDelay
		l.fixedDelay = 0
		return d
	}
	return 11
}

// keys of the prelude's cast
const (
	lifeGod  = 0
	lifePool = 10 // p: a Verified identity that never delegates
	lifeInvI = 11 // inviter of the Invite situation
	lifeInv  = 12 // i of every other situation: a Human holding exactly one invitation
	lifeDel  = 13 // d: a Verified identity that may delegate to x
	lifeInvC = 14 // inviter of the Candidate situation
	lifeKeyI = 15
	lifeKeyC = 16
	lifeF    = 17
	lifeS    = 18
)

// which key plays x in which initial situation, and who is its inviter
var lifeX = map[string][2]int{
	"U": {8, lifeInv}, "I": {lifeKeyI, lifeInvI}, "C": {lifeKeyC, lifeInvC}, "S": {1, lifeInv}, "Z": {6, lifeInv},
	"N0": {3, lifeInv}, "N3": {5, lifeInv}, "V0": {4, lifeInv}, "V3": {7, lifeInv}, "H0": {2, lifeInv}, "H3": {9, lifeInv},
}

// outcomes of the prelude's validation: every status a path may start in exists afterwards
var lifePreludeOutcome = map[int]state.IdentityState{
	0: state.Verified, 1: state.Suspended, 2: state.Human, 3: state.Newbie, 4: state.Verified, 5: state.Newbie, 6: state.Zombie,
	7: state.Verified, 9: state.Human, 10: state.Verified, 11: state.Human, 12: state.Human, 13: state.Verified, 14: state.Human,
}
var lifePerfect = map[int]bool{0: true, 1: true, 2: true, 3: true, 4: true, 5: true, 6: true, 7: true, 9: true, 11: true, 12: true, 14: true}

func (h *hist) lifeMust(ok bool, what string, a ...interface{}) {
	if !ok {
		panic("lifecycle prelude: " + fmt.Sprintf(what, a...))
	}
}

func (h *hist) addrOf(k int) *common.Address { a := h.w.Addrs[k]; return &a }

// one block that carries exactly these transactions (harness steps of the prelude and auxiliary steps of a path)
func (h *hist) lifeBlock(recs ...*txRec) bool {
	if recs == nil {
		recs = []*txRec{}
	}
	h.forced = recs
	return h.block()
}

func (h *hist) lifeFlipTx(k int, pend map[int]uint32) *txRec {
	l := h.life
	l.flipSeq++
	c, err := h.ref.n.Ipfs.Cid([]byte(fmt.Sprintf("flip-%d-%d-%d", h.id, k, l.flipSeq)))
	if err != nil {
		panic(err)
	}
	pair := uint8(len(h.ref.n.App.State.GetIdentity(h.w.Addrs[k]).Flips)) + uint8(pend[k])
	rec := h.mkTx(k, types.SubmitFlipTx, nil, nil, attachments.CreateFlipSubmitAttachment(c.Bytes(), pair), 0, 0, pend)
	rec.m["cid"] = fmt.Sprintf("%x", c.Bytes())
	return rec
}

// lifePeriodDelay: the block delay that makes the coming block start the next validation period
func (h *hist) lifePeriodDelay() int64 {
	st := h.ref.n.App.State
	nv := st.NextValidationTime().Unix()
	head := h.ref.n.Chain.Head.Time()
	v := h.w.ValCfg
	var at int64
	switch st.ValidationPeriod() {
	case state.NonePeriod:
		at = nv - int64(v.FlipLotteryDuration.Seconds()) + 30
	case state.FlipLotteryPeriod:
		at = nv + 1
	case state.ShortSessionPeriod:
		at = nv + int64(v.ShortSessionDuration.Seconds()) + 2
	case state.LongSessionPeriod:
		at = nv + int64(v.ShortSessionDuration.Seconds()) + int64(v.LongSessionDuration.Seconds()) + 2
	default:
		return 11
	}
	return maxI(11, at-head)
}

// lifeUntil produces blocks without transactions until the head carries the flag (at most n blocks)
func (h *hist) lifeUntil(flag types.BlockFlag, n int) bool {
	for i := 0; i < n; i++ {
		if !h.lifeBlock() {
			return false
		}
		if h.ref.n.Chain.Head.Flags().HasFlag(flag) {
			return true
		}
	}
	return false
}

func lifeCopyResults(src map[common.ShardId]*types.ValidationResults, shards int) map[common.ShardId]*types.ValidationResults {
	res := map[common.ShardId]*types.ValidationResults{}
	for s := 1; s <= shards; s++ {
		res[common.ShardId(s)] = &types.ValidationResults{}
	}
	for s, r := range src {
		c := &types.ValidationResults{GoodInviters: map[common.Address]*types.InviterValidationResult{}}
		for a, g := range r.GoodInviters {
			gi := &types.InviterValidationResult{NewIdentityState: g.NewIdentityState, PayInvitationReward: g.PayInvitationReward}
			for _, si := range g.SuccessfulInvites {
				x := *si
				gi.SuccessfulInvites = append(gi.SuccessfulInvites, &x)
			}
			c.GoodInviters[a] = gi
		}
		res[s] = c
	}
	return res
}

// ---------------------------------------------------------------------------------------------
// prelude

// lifeIpfs: the repository's in-memory IPFS proxy (test scaffolding of the repository, not node code) panics in
// GetWithSizeLimit ("implement me"), which the background loader of an applied StoreToIpfsTx calls with probability 0.5
type lifeIpfs struct{ ipfs.Proxy }

func (lifeIpfs) GetWithSizeLimit(key []byte, dataType ipfs.DataType, size int64) ([]byte, error) {
	return nil, fmt.Errorf("not stored")
}

type lifeSnapshot struct {
	dbs    []dbm.DB
	ledger *sim.Ledger
	head   uint64
	flips  map[int][][]byte
}

func lifePrelude(seed int64) (*hist, *lifeSnapshot) {
	cfg := &scenCfg{blocks: 200, epochs: false, nProposers: 2, relQuiet: true, life: true}
	h := newHist(seed, 0, cfg, tr.Discard())
	h.life = &lifeCtx{roles: map[string]int{}, flips: map[int][][]byte{}, stats: map[string]int{}}
	h.start()
	nop := map[int]uint32{}
	st := h.ref.n.App.State
	// the god identity comes online (it then proposes every block of every path)
	h.lifeMust(h.lifeBlock(h.mkTx(lifeGod, types.OnlineStatusTx, nil, nil, attachments.CreateOnlineStatusAttachment(true), 0, 0, nop)), "online request refused")
	h.lifeMust(h.lifeUntil(types.IdentityUpdate, lifeRange+2), "no identity-update block")
	h.lifeMust(h.ref.n.App.ValidatorsCache.IsOnlineIdentity(h.w.Addrs[lifeGod]), "god identity did not come online")
	// one validation: every status a path may start in exists afterwards, validated identities hold invitations
	h.life.epoch = func(h *hist, outs []ceremony.VerifOutcome) ([]ceremony.VerifOutcome, map[common.ShardId]*types.ValidationResults) {
		for i := range outs {
			k := h.w.Index(outs[i].Addr)
			ns, ok := lifePreludeOutcome[k]
			h.lifeMust(ok, "no outcome for key %d", k)
			outs[i].State = uint8(ns)
			outs[i].Missed = !ns.NewbieOrBetter()
			outs[i].Participated = !outs[i].Missed
			outs[i].ShortQualifiedFlipsCount = 6
			outs[i].ShortFlipPoint = 3
			if lifePerfect[k] {
				outs[i].ShortFlipPoint = 6
			}
			if state.IdentityState(outs[i].PrevState) == state.Candidate {
				outs[i].Birthday = h.ref.n.App.State.Epoch() + 1
			}
		}
		return outs, nil
	}
	for p := 0; p < 4; p++ {
		h.life.fixedDelay = h.lifePeriodDelay()
		h.lifeMust(h.lifeBlock(), "period block refused")
	}
	h.lifeMust(st.ValidationPeriod() == state.AfterLongSessionPeriod, "after-long period not reached (period %v)", st.ValidationPeriod())
	h.lifeMust(h.lifeUntil(types.ValidationFinished, 30), "validation did not finish")
	h.life.epoch = nil
	h.lifeMust(st.Epoch() == 1 && st.ValidationPeriod() == state.NonePeriod, "not in the second epoch")
	for k, ns := range lifePreludeOutcome {
		h.lifeMust(st.GetIdentityState(h.w.Addrs[k]) == ns, "key %d has status %v, expected %v", k, st.GetIdentityState(h.w.Addrs[k]), ns)
	}
	h.lifeMust(h.lifeBlock(), "block refused")
	// funds for the keys without genesis allocation
	var recs []*txRec
	pend := map[int]uint32{}
	for _, k := range []int{lifeKeyI, lifeKeyC, lifeF, lifeS} {
		recs = append(recs, h.mkTx(lifeGod, types.SendTx, h.addrOf(k), sim.Dna(20000, 1), nil, 0, 0, pend))
		pend[lifeGod]++
	}
	h.lifeMust(h.lifeBlock(recs...), "funding refused")
	// required flips of the "3" situations
	for i := 0; i < 3; i++ {
		recs, pend = nil, map[int]uint32{}
		for _, k := range []int{5, 7, 9} {
			r := h.lifeFlipTx(k, pend)
			recs = append(recs, r)
		}
		h.lifeMust(h.lifeBlock(recs...), "flip block refused")
		for _, r := range recs {
			var c []byte
			fmt.Sscanf(r.m["cid"].(string), "%x", &c)
			h.life.flips[r.from] = append(h.life.flips[r.from], c)
		}
	}
	for _, k := range []int{5, 7, 9} {
		h.lifeMust(len(st.GetIdentity(h.w.Addrs[k]).Flips) == 3, "key %d made %d flips", k, len(st.GetIdentity(h.w.Addrs[k]).Flips))
	}
	// the Invite and the Candidate situation
	h.lifeMust(h.lifeBlock(h.mkTx(lifeInvI, types.InviteTx, h.addrOf(lifeKeyI), sim.Dna(100, 1), nil, 0, 0, nop),
		h.mkTx(lifeInvC, types.InviteTx, h.addrOf(lifeKeyC), sim.Dna(100, 1), nil, 0, 0, nop)), "invitations refused")
	h.lifeMust(h.lifeBlock(h.mkTx(lifeKeyC, types.ActivationTx, h.addrOf(lifeKeyC), nil, crypto.FromECDSAPub(&h.w.Keys[lifeKeyC].PublicKey), 0, 0, nop)), "activation refused")
	h.lifeMust(h.lifeBlock(h.mkTx(lifeGod, types.ReplenishStakeTx, h.addrOf(lifeKeyC), sim.Dna(55, 1), nil, 0, 0, nop)), "replenishment refused")
	h.lifeMust(st.GetIdentityState(h.w.Addrs[lifeKeyI]) == state.Invite && st.GetIdentityState(h.w.Addrs[lifeKeyC]) == state.Candidate, "invite / candidate not created")
	// invitations: the inviters of the prepared invitee / candidate hold none any more, i holds exactly one, the validated
	// focus candidates at least one (surplus invitations go to addresses nobody has a key for)
	burn := 0
	for _, kw := range [][2]int{{lifeInvI, 0}, {lifeInvC, 0}, {lifeInv, 1}} {
		for n := 0; int(st.GetInvites(h.w.Addrs[kw[0]])) > kw[1]; n++ {
			h.lifeMust(n < 4, "key %d keeps its invitations", kw[0])
			burn++
			to := common.BytesToAddress(crypto.Keccak256([]byte(fmt.Sprintf("nobody-%d-%d", seed, burn)))[:20])
			h.lifeMust(h.lifeBlock(h.mkTx(kw[0], types.InviteTx, &to, sim.Dna(1, 1), nil, 0, 0, nop)), "surplus invitation refused")
		}
		h.lifeMust(int(st.GetInvites(h.w.Addrs[kw[0]])) == kw[1], "key %d holds %d invitations", kw[0], st.GetInvites(h.w.Addrs[kw[0]]))
	}
	for _, k := range []int{2, 4, 7, 9} {
		h.lifeMust(st.GetInvites(h.w.Addrs[k]) >= 1, "validated key %d holds no invitation", k)
	}
	h.lifeMust(h.lifeBlock(), "block refused")
	snap := &lifeSnapshot{ledger: h.prevLed, head: h.ref.n.Chain.Head.Height(), flips: h.life.flips}
	for _, r := range h.reps {
		snap.dbs = append(snap.dbs, sim.CopyDB(r.n.DB))
	}
	return h, snap
}

func (h *hist) lifeRestore(snap *lifeSnapshot, p lifePath, out *tr.W) *hist {
	n := &hist{w: h.w, rnd: h.rnd, out: out, id: p.Id, props: map[int]*replica{}, recs: map[string]*txRec{}, ledgers: map[uint64]*sim.Ledger{},
		fresh: 19, cfg: &scenCfg{blocks: 50, epochs: false, nProposers: 2, relQuiet: true, life: true}, flagsAt: map[uint64]int{}, txsAt: map[uint64][]string{},
		genDB: h.genDB}
	for i, old := range h.reps {
		node := h.w.Boot(old.n.Key, sim.CopyDB(snap.dbs[i]), lifeIpfs{ipfs.NewMemoryIpfsProxy()})
		if node.BootErr != nil {
			panic(node.BootErr)
		}
		r := &replica{name: old.name, n: node, kind: "line"}
		n.attachCeremony(r)
		n.reps = append(n.reps, r)
		n.props[old.n.Key] = r
	}
	n.ref = n.reps[0]
	n.prevLed = snap.ledger
	n.ledgers[snap.head] = snap.ledger
	n.txSeq = p.Id * 1000
	xi := lifeX[p.Init]
	n.life = &lifeCtx{init: p.Init, flips: map[int][][]byte{}, stats: h.life.stats,
		roles: map[string]int{"x": xi[0], "i": xi[1], "g": lifeGod, "p": lifePool, "d": lifeDel, "f": lifeF, "s": lifeS}}
	for k, v := range snap.flips {
		n.life.flips[k] = append([][]byte(nil), v...)
	}
	names := []string{}
	for i := 0; i < 24; i++ {
		names = append(names, fmt.Sprintf("k%d", i))
	}
	roles := tr.M{}
	for r, k := range n.life.roles {
		roles[r] = fmt.Sprintf("k%d", k)
	}
	cons := h.w.Cons
	out.Emit(tr.M{"ev": "Genesis", "hid": p.Id, "ledger": snap.ledger, "blockReward": sim.Limbs(addBig(cons.BlockReward, cons.FinalCommitteeReward)),
		"god": "k0", "keys": names, "obs": n.ref.n.Obs(), "big": false, "roles": roles, "init": p.Init, "life": n.lifeObs(), "lifepath": true})
	return n
}

// ---------------------------------------------------------------------------------------------
// extended projection of the cast

func (h *hist) lifeObs() tr.M {
	n := h.ref.n
	st := n.App.State
	vc := n.App.ValidatorsCache
	is := n.App.IdentityState
	epoch := st.Epoch()
	thr := st.DiscriminationStakeThreshold()
	dels := st.Delegations()
	ro, _ := n.App.Readonly(n.Chain.Head.Height())
	cast := tr.M{}
	for role, k := range h.life.roles {
		a := h.w.Addrs[k]
		id := st.GetIdentity(a)
		m := tr.M{"k": fmt.Sprintf("k%d", k), "status": int(id.State), "rv": is.IsValidated(a), "on": is.IsOnline(a), "psw": st.HasStatusSwitchAddresses(a),
			"delegatee": "", "sw": "no", "swto": "", "swidx": -1, "dnew": id.DelegationEpoch == epoch, "disc": id.IsDiscriminated(thr, epoch), "undel": id.IsDiscriminatedDelegation(),
			"pens": id.PenaltySeconds() > 0, "pend": st.HasDelayedOfflinePenalty(a), "stake": !common.ZeroOrNil(id.Stake),
			"locked": !common.ZeroOrNil(id.LockedStake()), "repl": !common.ZeroOrNil(id.ReplenishedStake()), "invites": int(id.Invites), "inviter": "",
			"nfl": len(id.Flips), "req": int(id.RequiredFlips), "pool": vc.IsPool(a), "vval": vc.IsValidated(a), "von": vc.IsOnlineIdentity(a),
			"rich": st.GetBalance(a).Cmp(sim.Dna(3000, 1)) >= 0, "rec": ro != nil && ro.State.VerifHasIdentityRecord(a),
			"balL": sim.Limbs(st.GetBalance(a)), "stakeL": sim.Limbs(id.Stake), "lockedL": sim.Limbs(id.LockedStake())}
		if k == lifeGod {
			m["invites"] = int(st.GodAddressInvites())
		}
		if d := id.Delegatee(); d != nil {
			m["delegatee"] = h.w.Name(*d)
		}
		if id.Inviter != nil {
			m["inviter"] = h.w.Name(id.Inviter.Address)
		}
		for i, d := range dels {
			if d.Delegator == a {
				m["swidx"] = i
				if d.Delegatee.IsEmpty() {
					m["sw"] = "empty"
				} else {
					m["sw"], m["swto"] = "to", h.w.Name(d.Delegatee)
				}
			}
		}
		vtx := []string{}
		for _, t := range []struct {
			t types.TxType
			n string
		}{{types.SubmitAnswersHashTx, "hash"}, {types.SubmitShortAnswersTx, "short"}, {types.SubmitLongAnswersTx, "long"}, {types.EvidenceTx, "evid"}} {
			if id.HasValidationTx(t.t) {
				vtx = append(vtx, t.n)
			}
		}
		m["vtx"] = vtx
		cast[role] = m
	}
	return tr.M{"per": int(st.ValidationPeriod()), "epoch": int(epoch), "cast": cast}
}

// lifeMayInject: may the refused transaction be offered by a non-filtering proposer?  Not when the proposer's own filter
// would trip over the recorded finding C02:...:filter-skipped-tx-leaves-empty-identity-record (validators that read a
// missing identity record through a creating getter leave an empty record in the proposer's state when they refuse).
func (h *hist) lifeMayInject(r *txRec) bool {
	ro, err := h.ref.n.App.Readonly(h.ref.n.Chain.Head.Height())
	if err != nil {
		return false
	}
	has := func(a common.Address) bool { return ro.State.VerifHasIdentityRecord(a) }
	sender := h.w.Addrs[r.from]
	switch r.tx.Type {
	case types.DelegateTx:
		return has(sender) && r.tx.To != nil && has(*r.tx.To)
	case types.UndelegateTx:
		return has(sender)
	case types.KillInviteeTx, types.KillDelegatorTx:
		return r.tx.To != nil && has(*r.tx.To)
	}
	return true
}

// lifeSweepPools: transactions that did not make it into the proposal are withdrawn from every pool (a lifecycle step
// is one attempt in one block; what a pool keeps for later - a ceremony transaction that came a period early, an
// injected transaction the block builder refused - must not ride along with a later attempt)
func (h *hist) lifeSweepPools() {
	for _, r := range h.reps {
		for _, tx := range r.n.Pool.GetPendingTransaction(true, true, common.MultiShard, false) {
			r.n.Pool.Remove(tx)
		}
	}
}

// ---------------------------------------------------------------------------------------------
// paths

func (h *hist) lifeAttemptTx(s lifeStep) *txRec {
	l := h.life
	nop := map[int]uint32{}
	key := func(role string) int { return l.roles[role] }
	addr := func(role string) *common.Address { return h.addrOf(l.roles[role]) }
	pub := func(role string) []byte { return crypto.FromECDSAPub(&h.w.Keys[key(role)].PublicKey) }
	x := key("x")
	switch s.N {
	case "Send":
		return h.mkTx(x, types.SendTx, addr("f"), sim.Dna(1, 1), nil, 0, 0, nop)
	case "ActivateSelf":
		return h.mkTx(x, types.ActivationTx, addr("x"), nil, pub("x"), 0, 0, nop)
	case "ActivateOther":
		return h.mkTx(x, types.ActivationTx, addr("f"), nil, pub("f"), 0, 0, nop)
	case "ActivateF":
		return h.mkTx(key("f"), types.ActivationTx, addr("f"), nil, pub("f"), 0, 0, nop)
	case "InviteF":
		return h.mkTx(x, types.InviteTx, addr("f"), sim.Dna(100, 1), nil, 0, 0, nop)
	case "InviteX":
		return h.mkTx(key("i"), types.InviteTx, addr("x"), sim.Dna(100, 1), nil, 0, 0, nop)
	case "InviteXByS":
		return h.mkTx(key("s"), types.InviteTx, addr("x"), sim.Dna(100, 1), nil, 0, 0, nop)
	case "Kill":
		return h.mkTx(x, types.KillTx, nil, nil, nil, 0, 0, nop)
	case "KillInviteeF":
		return h.mkTx(x, types.KillInviteeTx, addr("f"), nil, nil, 0, 0, nop)
	case "KillInviteeX":
		return h.mkTx(key("i"), types.KillInviteeTx, addr("x"), nil, nil, 0, 0, nop)
	case "KillInviteeXByG":
		return h.mkTx(key("g"), types.KillInviteeTx, addr("x"), nil, nil, 0, 0, nop)
	case "KillDelegatorD":
		return h.mkTx(x, types.KillDelegatorTx, addr("d"), nil, nil, 0, 0, nop)
	case "KillDelegatorX":
		return h.mkTx(key("p"), types.KillDelegatorTx, addr("x"), nil, nil, 0, 0, nop)
	case "KillDelegatorXByG":
		return h.mkTx(key("g"), types.KillDelegatorTx, addr("x"), nil, nil, 0, 0, nop)
	case "SubmitFlip":
		return h.lifeFlipTx(x, nop)
	case "DeleteFlip":
		c := []byte{1, 2, 3}
		if fl := h.ref.n.App.State.GetIdentity(h.w.Addrs[x]).Flips; len(fl) > 0 {
			c = fl[len(fl)-1].Cid
		}
		rec := h.mkTx(x, types.DeleteFlipTx, nil, nil, attachments.CreateDeleteFlipAttachment(c), 0, 0, nop)
		// the fee of a flip deletion covers 120 KiB: the ordinary max fee of the driver would refuse it for another reason
		rec.tx = h.w.Tx(sim.TxSpec{From: x, Type: types.DeleteFlipTx, MaxFee: sim.Dna(2500, 1), Nonce: rec.tx.AccountNonce, Epoch: rec.tx.Epoch, Payload: rec.tx.Payload})
		rec.m["maxfee"], rec.m["tips"] = sim.Limbs(rec.tx.MaxFeeOrZero()), sim.Limbs(rec.tx.TipsOrZero())
		h.recs[rec.tx.Hash().Hex()] = rec
		return rec
	case "AnswersHash":
		hsh := common.Hash{byte(x), byte(h.blockNo), 7}
		return h.mkTx(x, types.SubmitAnswersHashTx, nil, nil, hsh[:], 0, 0, nop)
	case "ShortAnswers":
		return h.mkTx(x, types.SubmitShortAnswersTx, nil, nil, attachments.CreateShortAnswerAttachment([]byte{1, 2, byte(x)}, uint64(100+x), 0), 0, 0, nop)
	case "LongAnswers":
		seed := h.ref.n.App.State.FlipWordsSeed()
		var proof []byte
		if signer, err := p256.NewVRFSigner(h.w.Keys[x]); err == nil {
			_, proof = signer.Evaluate(seed[:])
		}
		return h.mkTx(x, types.SubmitLongAnswersTx, nil, nil, attachments.CreateLongAnswerAttachment([]byte{3, byte(x)}, proof, []byte{byte(x), 9, 9}, ecies.ImportECDSA(h.w.Keys[x])), 0, 0, nop)
	case "Evidence":
		return h.mkTx(x, types.EvidenceTx, nil, nil, []byte{byte(x), 9}, 0, 0, nop)
	case "GoOnline":
		return h.mkTx(x, types.OnlineStatusTx, nil, nil, attachments.CreateOnlineStatusAttachment(true), 0, 0, nop)
	case "GoOffline":
		return h.mkTx(x, types.OnlineStatusTx, nil, nil, attachments.CreateOnlineStatusAttachment(false), 0, 0, nop)
	case "ChangeGod":
		return h.mkTx(x, types.ChangeGodAddressTx, addr("x"), nil, nil, 0, 0, nop)
	case "Burn":
		return h.mkTx(x, types.BurnTx, nil, sim.Dna(1, 1), attachments.CreateBurnAttachment("k"), 0, 0, nop)
	case "ChangeProfile":
		return h.mkTx(x, types.ChangeProfileTx, nil, nil, attachments.CreateChangeProfileAttachment([]byte{1, 2, 3, byte(h.blockNo)}), 0, 0, nop)
	case "Delegate":
		return h.mkTx(x, types.DelegateTx, addr("p"), nil, nil, 0, 0, nop)
	case "Undelegate":
		return h.mkTx(x, types.UndelegateTx, nil, nil, nil, 0, 0, nop)
	case "DelegateDX":
		return h.mkTx(key("d"), types.DelegateTx, addr("x"), nil, nil, 0, 0, nop)
	case "StoreToIpfs":
		c, _ := h.ref.n.Ipfs.Cid([]byte(fmt.Sprintf("data-%d-%d", h.id, h.blockNo)))
		return h.mkTx(x, types.StoreToIpfsTx, nil, nil, attachments.CreateStoreToIpfsAttachment(c.Bytes(), 100), 0, 0, nop)
	case "ReplenishSelf":
		return h.mkTx(x, types.ReplenishStakeTx, addr("x"), sim.Dna(10, 1), nil, 0, 0, nop)
	case "ReplenishX":
		return h.mkTx(key("g"), types.ReplenishStakeTx, addr("x"), sim.Dna(10, 1), nil, 0, 0, nop)
	}
	panic("unknown lifecycle attempt " + s.N)
}

var lifeStatus = map[string]state.IdentityState{"U": state.Undefined, "I": state.Invite, "C": state.Candidate, "N": state.Newbie, "V": state.Verified,
	"H": state.Human, "S": state.Suspended, "Z": state.Zombie, "K": state.Killed}

// lifeEpochFn: the outcomes of the path's epoch end.  x gets the model's outcome; the cast keeps its statuses (i with a
// perfect score, so that it holds an invitation again); f - an invitee or candidate of x - is terminated; everybody else
// gets what the quiet generator chose (validated identities stay validated).
func (h *hist) lifeEpochFn(s lifeStep) func(h *hist, outs []ceremony.VerifOutcome) ([]ceremony.VerifOutcome, map[common.ShardId]*types.ValidationResults) {
	return func(h *hist, outs []ceremony.VerifOutcome) ([]ceremony.VerifOutcome, map[common.ShardId]*types.ValidationResults) {
		l := h.life
		st := h.ref.n.App.State
		var full map[common.ShardId]*types.ValidationResults
		for i := range outs {
			k := h.w.Index(outs[i].Addr)
			prev := state.IdentityState(outs[i].PrevState)
			set := func(ns state.IdentityState, points float32) {
				outs[i].State = uint8(ns)
				outs[i].Missed = !ns.NewbieOrBetter()
				outs[i].Participated = !outs[i].Missed
				outs[i].ShortQualifiedFlipsCount = 6
				outs[i].ShortFlipPoint = points
				if prev == state.Candidate && ns == state.Newbie {
					outs[i].Birthday = st.Epoch() + 1
				}
			}
			switch k {
			case l.roles["x"]:
				pts := float32(0)
				if s.Inv > 0 {
					pts = 6
				}
				set(lifeStatus[s.Out], pts)
				if s.Rw {
					// x was invited by i and is validated for the first time: the invitation is rewarded (the invitee's share is staked
					// and locked)
					inv := st.GetInviter(outs[i].Addr)
					if inv != nil {
						full = map[common.ShardId]*types.ValidationResults{1: {GoodInviters: map[common.Address]*types.InviterValidationResult{
							inv.Address: {NewIdentityState: uint8(st.GetIdentityState(inv.Address)), PayInvitationReward: true,
								SuccessfulInvites: []*types.SuccessfulInvite{{Age: 1, TxHash: inv.TxHash, EpochHeight: inv.EpochHeight, Address: outs[i].Addr}}}}}}
					}
				}
			case l.roles["i"]:
				set(prev, 6)
			case l.roles["g"], l.roles["p"], l.roles["d"]:
				set(prev, 3)
			case l.roles["f"]:
				set(state.Killed, 0)
			default:
				// the crowd: never a better score than the cast (the invitations of an epoch go to the best scores)
				if outs[i].ShortFlipPoint > 4 {
					outs[i].ShortFlipPoint = 4
				}
			}
		}
		return outs, full
	}
}

func (h *hist) lifeSkip(step int, s lifeStep, why string) {
	h.life.stats["unrealised"]++
	h.out.Emit(tr.M{"ev": "LifeSkip", "hid": h.id, "step": step, "op": s.N, "why": why})
}

var lifePendingMakers = map[string]bool{"GoOnline": true, "GoOffline": true, "Delegate": true, "Undelegate": true, "DelegateDX": true, "Penalty": true}
var lifeFlushers = map[string]bool{"Kill": true, "KillInviteeX": true, "KillDelegatorX": true, "KillInviteeF": true, "KillDelegatorD": true}

func lifeBlocksOf(s lifeStep) int {
	switch {
	case s.N == "Penalty":
		return 2
	case s.N == "Ceremony":
		return 4
	case s.N == "ActivateOther" && s.Block:
		return 2 // the refund
	}
	return 1
}

// lifeAlign: the model separates "something becomes pending" from "the identity-update block applies it"; on the chain
// that block comes at the next multiple of the switch range.  Before the first step of a stretch that leaves something
// pending, blocks without transactions (harmless while nothing is pending) are inserted so that the steps up to the
// model's next flushing step fit in front of the next multiple and that step finds it right away.
func (h *hist) lifeAlign(p lifePath, idx int) bool {
	s := p.Path[idx]
	st := h.ref.n.App.State
	if !lifePendingMakers[s.N] || (s.N != "Penalty" && !s.Block) ||
		len(st.StatusSwitchAddresses()) > 0 || len(st.Delegations()) > 0 || len(st.DelayedOfflinePenalties()) > 0 {
		return true
	}
	n, toFlush := 0, false
	for k := idx; k < len(p.Path); k++ {
		q := p.Path[k]
		if k > idx && (q.N == "Flush" || q.N == "EpochEnd" || lifeFlushers[q.N] && q.Block) {
			toFlush = q.N == "Flush"
			break
		}
		n += lifeBlocksOf(q)
	}
	if n >= lifeRange {
		h.lifeSkip(idx, s, fmt.Sprintf("%d blocks between a pending switch and its identity-update block do not fit into the switch range", n))
		return false
	}
	head := int(h.ref.n.Chain.Head.Height())
	// the stretch ends with the model's Flush step: the multiple comes right after it; otherwise (a terminating transaction, an
	// epoch end or the end of the path follows) the stretch only has to stay clear of the multiple
	fill := (lifeRange - (head+n+1)%lifeRange) % lifeRange
	if !toFlush {
		fill = 0
		if (head+n)/lifeRange != head/lifeRange {
			fill = lifeRange - head%lifeRange
		}
	}
	for i := 0; i < fill; i++ {
		h.life.step = tr.M{"op": "Align", "idx": idx, "kind": "aux"}
		if !h.lifeBlock() {
			return false
		}
	}
	return true
}

func (h *hist) lifeRun(p lifePath) {
	l := h.life
	deviated := false
	defer func() {
		// the node answered an attempt otherwise than the specification says: the history is continued until the pending
		// switches (if any) have been applied, so that the consequences come before the property clauses as well
		st := h.ref.n.App.State
		if deviated && st.ValidationPeriod() != state.AfterLongSessionPeriod &&
			(len(st.StatusSwitchAddresses()) > 0 || len(st.Delegations()) > 0 || len(st.DelayedOfflinePenalties()) > 0) {
			for i := 0; i <= lifeRange; i++ {
				l.step = tr.M{"op": "Settle", "idx": len(p.Path), "kind": "settle"}
				if !h.lifeBlock() || h.ref.n.Chain.Head.Flags().HasFlag(types.IdentityUpdate) {
					break
				}
			}
			l.stats["settled"]++
		}
	}()
	for idx, s := range p.Path {
		mark := func(kind string) {
			l.step = tr.M{"op": s.N, "out": s.Out, "inv": s.Inv, "rw": s.Rw, "by": s.By, "idx": idx, "kind": kind, "pool": s.Pool, "block": s.Block, "post": s.Post}
		}
		if !h.lifeAlign(p, idx) {
			return
		}
		switch s.N {
		case "Flush":
			done := false
			for i := 0; i < 40 && !done; i++ {
				// the kind of the block is known only afterwards: the line is marked by what the block turned out to be
				mark("switch")
				if !h.lifeBlock() {
					return
				}
				done = h.ref.n.Chain.Head.Flags().HasFlag(types.IdentityUpdate)
			}
			if !done {
				h.lifeSkip(idx, s, "no identity-update block within 40 blocks")
				return
			}
		case "NextPeriod":
			mark("final")
			before := h.ref.n.App.State.ValidationPeriod()
			l.fixedDelay = h.lifePeriodDelay()
			if !h.lifeBlock() {
				return
			}
			if h.ref.n.App.State.ValidationPeriod() != before+1 {
				h.lifeSkip(idx, s, fmt.Sprintf("period %v after %v", h.ref.n.App.State.ValidationPeriod(), before))
				return
			}
		case "Ceremony":
			// the four period blocks in a row
			for k := 0; k < 4; k++ {
				if k == 3 {
					mark("final")
				} else {
					mark("period")
				}
				before := h.ref.n.App.State.ValidationPeriod()
				l.fixedDelay = h.lifePeriodDelay()
				if !h.lifeBlock() {
					return
				}
				if h.ref.n.App.State.ValidationPeriod() != before+1 {
					h.lifeSkip(idx, s, fmt.Sprintf("period %v after %v", h.ref.n.App.State.ValidationPeriod(), before))
					return
				}
			}
		case "EpochEnd":
			l.epoch = h.lifeEpochFn(s)
			done := false
			for i := 0; i < 40 && !done; i++ {
				mark("epoch")
				if !h.lifeBlock() {
					return
				}
				done = h.ref.n.Chain.Head.Flags().HasFlag(types.ValidationFinished)
			}
			l.epoch = nil
			if !done {
				h.lifeSkip(idx, s, "validation did not finish within 40 blocks")
				return
			}
		case "Penalty":
			// the committee turns x offline: a block proposing it, a block committing it (flags written by the proposer; the
			// votes behind them are the subject of the offline-detection module)
			target := h.addrOf(l.roles["x"])
			for _, fl := range []types.BlockFlag{types.OfflinePropose, types.OfflineCommit} {
				flag := fl
				l.craft = func(prop *replica, delay int64) *types.Block {
					at := prop.n.Chain.Head.Time() + delay
					h.w.SetNow(at)
					b, err := prop.n.Chain.VerifCraftOfflineBlock(nil, at, flag, target)
					if err != nil {
						panic(err)
					}
					return b
				}
				if flag == types.OfflineCommit {
					mark("final")
				} else {
					mark("filler")
				}
				ok := h.lifeBlock()
				l.craft = nil
				if !ok {
					return
				}
			}
		default:
			rec := h.lifeAttemptTx(s)
			mark("attempt")
			rec.m["attempt"] = tr.M{"op": s.N, "by": s.By, "step": idx, "expectPool": s.Pool, "expectBlock": s.Block}
			if !h.lifeBlock(rec) {
				return
			}
			l.stats["attempts"]++
			if h.ref.n.Chain.Head.Flags().HasFlag(types.ValidationFinished) {
				h.lifeSkip(idx, s, "the block of an attempt ended the epoch")
				return
			}
			included := false
			for _, id := range h.txsAt[h.ref.n.Chain.Head.Height()] {
				if id == rec.id {
					included = true
				}
			}
			if included != s.Block {
				deviated = true
			}
			if included {
				l.stats["included"]++
				if s.N == "SubmitFlip" {
					var c []byte
					fmt.Sscanf(rec.m["cid"].(string), "%x", &c)
					l.flips[rec.from] = append(l.flips[rec.from], c)
				}
			}
			// an identity that gave its coins away (activation of its invitation for another address) is funded again: what it
			// attempts afterwards must not fail for lack of coins
			if bal := h.ref.n.App.State.GetBalance(h.w.Addrs[l.roles["x"]]); bal.Cmp(sim.Dna(3000, 1)) < 0 {
				l.step = tr.M{"op": "Refund", "idx": idx, "kind": "aux"}
				if !h.lifeBlock(h.mkTx(lifeGod, types.SendTx, h.addrOf(l.roles["x"]), sim.Dna(20000, 1), nil, 0, 0, map[int]uint32{})) {
					return
				}
			}
		}
	}
	l.stats["completed"]++
}

func runLife(file string, seed int64, out *tr.W) {
	var ps []lifePath
	tr.ReadLines(file, func(raw []byte) {
		var p lifePath
		if err := json.Unmarshal(raw, &p); err != nil {
			panic(err)
		}
		ps = append(ps, p)
	})
	h0, snap := lifePrelude(seed)
	blocks := 0
	for _, p := range ps {
		if _, ok := lifeX[p.Init]; !ok {
			panic("unknown initial situation " + p.Init)
		}
		h := h0.lifeRestore(snap, p, out)
		h.lifeRun(p)
		blocks += h.blockNo
		for _, r := range h.reps {
			r.n.Close()
		}
	}
	st := h0.life.stats
	fmt.Fprintf(os.Stderr, "histories=%d blocks=%d refused=%d lines=%d attempts=%d included=%d completed=%d unrealised=%d\n", len(ps), blocks,
		len(ps)-st["completed"]-st["unrealised"], out.N, st["attempts"], st["included"], st["completed"], st["unrealised"])
	_ = big.NewInt
}
