package main

import (
	"encoding/json"
	"fmt"

	"github.com/idena-network/idena-go/blockchain/types"
	"github.com/idena-network/idena-go/common"
	"github.com/idena-network/idena-go/core/state"
	"github.com/idena-network/idena-go/crypto"
	dbm "github.com/tendermint/tm-db"

	"verifh/internal/sim"
	"verifh/internal/tr"
)

// Relationship scenarios exported by TLC from spec/Relations.tla: every path is a sequence of ATTEMPTS
// (admissible or not) by actors in named roles; each attempt becomes one real signed transaction in its own block.

type attempt struct {
	Op string `json:"op"`
	A  string `json:"a"`
	B  string `json:"b"`
	Ok bool   `json:"ok"`
}

type relPath struct {
	Path []attempt `json:"path"`
}

type relSnapshot struct {
	dbs    []dbm.DB
	ledger *sim.Ledger
	roles  map[string]int
	head   uint64
}

// relPrelude drives a chain through its first epoch (so that validated identities hold invitations), creates the
// candidate "c" through a real invitation + activation and snapshots every replica's database.
func relPrelude(seed int64, out *tr.W) (*hist, *relSnapshot) {
	cfg := &scenCfg{blocks: 200, epochs: true, nProposers: 2, relQuiet: true}
	h := newHist(seed, 0, cfg, tr.Discard())
	h.start()
	for b := 0; b < 120; b++ {
		st := h.ref.n.App.State
		if st.Epoch() >= 1 && st.ValidationPeriod() == state.NonePeriod && h.blocksInEpoch >= 2 {
			break
		}
		if !h.block() {
			panic("relationship prelude: block refused")
		}
	}
	st := h.ref.n.App.State
	if st.Epoch() < 1 {
		panic("relationship prelude did not reach the second epoch")
	}
	roles := map[string]int{"g": 0, "s": 8, "c": 15, "f1": 16, "f2": 17}
	// two validated inviters that hold invitations
	var inviters []int
	for k := 1; k <= 14; k++ {
		id := st.GetIdentity(h.w.Addrs[k])
		if id.State.NewbieOrBetter() && id.Invites > 0 && id.Delegatee() == nil {
			inviters = append(inviters, k)
		}
	}
	if len(inviters) < 2 {
		panic(fmt.Sprintf("relationship prelude: only %d validated identities hold invitations", len(inviters)))
	}
	roles["v1"], roles["v2"] = inviters[0], inviters[1]
	// the candidate: god invites key 15, which activates itself
	to := h.w.Addrs[15]
	h.forced = []*txRec{h.mkTx(0, types.InviteTx, &to, sim.Dna(300, 1), nil, 0, 0, map[int]uint32{})}
	if !h.block() {
		panic("prelude invite refused")
	}
	h.forced = []*txRec{h.mkTx(15, types.ActivationTx, &to, nil, crypto.FromECDSAPub(&h.w.Keys[15].PublicKey), 0, 0, map[int]uint32{})}
	if !h.block() {
		panic("prelude activation refused")
	}
	if got := st.GetIdentityState(to); got != state.Candidate {
		panic(fmt.Sprintf("relationship prelude: candidate was not created (state %v)", got))
	}
	h.forced = []*txRec{h.mkTx(0, types.ReplenishStakeTx, &to, sim.Dna(55, 1), nil, 0, 0, map[int]uint32{})}
	if !h.block() {
		panic("prelude replenish refused")
	}
	snap := &relSnapshot{ledger: h.prevLed, roles: roles, head: h.ref.n.Chain.Head.Height()}
	for _, r := range h.reps {
		snap.dbs = append(snap.dbs, sim.CopyDB(r.n.DB))
	}
	return h, snap
}

// restore boots fresh replicas over copies of the snapshot databases
func (h *hist) restore(snap *relSnapshot, id int, out *tr.W) *hist {
	n := &hist{w: h.w, rnd: h.rnd, out: out, id: id, props: map[int]*replica{}, recs: map[string]*txRec{}, ledgers: map[uint64]*sim.Ledger{},
		fresh: 18, cfg: &scenCfg{blocks: 50, epochs: false, nProposers: 2, relQuiet: true}, flagsAt: map[uint64]int{}, txsAt: map[uint64][]string{},
		genDB: h.genDB}
	for i, old := range h.reps {
		node := h.w.Boot(old.n.Key, sim.CopyDB(snap.dbs[i]), nil)
		if node.BootErr != nil {
			panic(node.BootErr)
		}
		r := &replica{name: old.name, n: node, kind: "line"}
		n.attachCeremony(r)
		n.reps = append(n.reps, r)
		n.props[old.n.Key] = r
	}
	n.ref = n.reps[0]
	n.prevLed = snap.ledger
	n.ledgers[snap.head] = snap.ledger
	n.txSeq = id * 1000
	names := []string{}
	for i := 0; i < 24; i++ {
		names = append(names, fmt.Sprintf("k%d", i))
	}
	cons := h.w.Cons
	out.Emit(tr.M{"ev": "Genesis", "hid": id, "ledger": snap.ledger, "blockReward": sim.Limbs(addBig(cons.BlockReward, cons.FinalCommitteeReward)),
		"god": "k0", "keys": names, "obs": n.ref.n.Obs(), "big": false, "roles": snap.roles})
	return n
}

func (h *hist) runPath(p relPath, roles map[string]int) {
	key := func(role string) int { return roles[role] }
	addr := func(role string) *common.Address { a := h.w.Addrs[roles[role]]; return &a }
	for step, at := range p.Path {
		var rec *txRec
		nop := map[int]uint32{}
		switch at.Op {
		case "Invite":
			rec = h.mkTx(key(at.A), types.InviteTx, addr(at.B), sim.Dna(int64(150+h.rnd.Intn(100)), 1), nil, 0, 0, nop)
		case "Activate":
			rec = h.mkTx(key(at.A), types.ActivationTx, addr(at.B), nil, crypto.FromECDSAPub(&h.w.Keys[key(at.B)].PublicKey), 0, 0, nop)
		case "Kill":
			rec = h.mkTx(key(at.A), types.KillTx, nil, nil, nil, 0, 0, nop)
		case "KillInvitee":
			rec = h.mkTx(key(at.A), types.KillInviteeTx, addr(at.B), nil, nil, 0, 0, nop)
		case "Delegate":
			rec = h.mkTx(key(at.A), types.DelegateTx, addr(at.B), nil, nil, 0, 0, nop)
		case "Undelegate":
			rec = h.mkTx(key(at.A), types.UndelegateTx, nil, nil, nil, 0, 0, nop)
		case "KillDelegator":
			rec = h.mkTx(key(at.A), types.KillDelegatorTx, addr(at.B), nil, nil, 0, 0, nop)
		case "Switch":
			// blocks without transactions until the next delegation-switch block has been applied
			for i := 0; i < 8; i++ {
				h.forced = []*txRec{}
				if !h.block() {
					return
				}
				if h.ref.n.Chain.Head.Height()%h.w.Cons.DelegationSwitchRange == 0 {
					break
				}
			}
			continue
		default:
			panic("unknown attempt " + at.Op)
		}
		rec.m["attempt"] = tr.M{"op": at.Op, "a": at.A, "b": at.B, "expect": at.Ok, "step": step}
		h.forced = []*txRec{rec}
		if !h.block() {
			return
		}
		if at.Op == "Activate" && h.ref.n.App.State.GetIdentityState(*addr(at.B)) == state.Candidate &&
			h.ref.n.App.State.GetStakeBalance(*addr(at.B)).Sign() == 0 {
			// every new candidate gets some stake (replenished by the god identity), so that a termination it is not
			// entitled to shows up as lost funds
			h.forced = []*txRec{h.mkTx(0, types.ReplenishStakeTx, addr(at.B), sim.Dna(int64(30+h.rnd.Intn(40)), 1), nil, 0, 0, nop)}
			if !h.block() {
				return
			}
		}
	}
}

func runRelations(file string, seed int64, out *tr.W) (paths, blocks int) {
	var ps []relPath
	tr.ReadLines(file, func(raw []byte) {
		var p relPath
		if err := json.Unmarshal(raw, &p); err != nil {
			panic(err)
		}
		ps = append(ps, p)
	})
	h0, snap := relPrelude(seed, out)
	for i, p := range ps {
		h := h0.restore(snap, i, out)
		h.runPath(p, snap.roles)
		blocks += h.blockNo
		paths++
	}
	return
}
