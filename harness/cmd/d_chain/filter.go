package main

import (
	"encoding/json"
	"fmt"
	"math/big"

	"github.com/idena-network/idena-go/blockchain/types"
	"github.com/idena-network/idena-go/common"
	"github.com/idena-network/idena-go/core/state"
	"github.com/idena-network/idena-go/crypto"

	"verifh/internal/sim"
	"verifh/internal/tr"
)

// Filter scenarios exported by TLC from spec/Filter.tla: pool contents that make the proposer's filter attempt and SKIP
// transactions - at validation (a conflict with an earlier transaction of the block) and at application (the follow-up
// transactions queued behind a refused one: their nonce is no longer the next one) - for senders whose account was used in
// this epoch, last used in an older epoch, or never.  Every case is one block built by the real pool / ProposeBlock from
// really submitted transactions and judged by every replica like any other block of the chain histories.

type filterCase struct {
	Case struct {
		Epoch  string `json:"epoch"`
		Acct   string `json:"acct"`
		Cause  string `json:"cause"`
		Follow int    `json:"follow"`
	} `json:"case"`
	Offer    []string `json:"offer"`
	Included []string `json:"included"`
}

// filterPrelude: like relPrelude, but half of the keys send one transaction in the FIRST epoch (their accounts are "stale" in
// the second one), the others never send anything ("fresh").
func filterPrelude(seed int64, epochOne bool) (*hist, *relSnapshot, map[int]string) {
	cfg := &scenCfg{blocks: 200, epochs: epochOne, nProposers: 2, relQuiet: true}
	h := newHist(seed, 0, cfg, tr.Discard())
	h.start()
	used := map[int]string{}
	for b := 0; b < 2; b++ {
		h.forced = []*txRec{}
		if !h.block() {
			panic("filter prelude: block refused")
		}
	}
	var first []*txRec
	for k := 1; k <= 14; k += 2 {
		to := h.w.Addrs[8]
		first = append(first, h.mkTx(k, types.SendTx, &to, sim.Dna(1, 1), nil, 0, 0, map[int]uint32{}))
		used[k] = "stale"
	}
	h.forced = first
	if !h.block() {
		panic("filter prelude: block refused")
	}
	if epochOne {
		for b := 0; b < 140; b++ {
			st := h.ref.n.App.State
			if st.Epoch() >= 1 && st.ValidationPeriod() == state.NonePeriod && h.blocksInEpoch >= 2 {
				break
			}
			if !h.block() {
				panic("filter prelude: block refused")
			}
		}
		if h.ref.n.App.State.Epoch() < 1 {
			panic("filter prelude did not reach the second epoch")
		}
	} else {
		for k := range used {
			used[k] = "current"
		}
	}
	snap := &relSnapshot{ledger: h.prevLed, roles: map[string]int{}, head: h.ref.n.Chain.Head.Height()}
	for _, r := range h.reps {
		snap.dbs = append(snap.dbs, sim.CopyDB(r.n.DB))
	}
	return h, snap, used
}

func (h *hist) quietBlocks(n int) bool {
	for i := 0; i < n; i++ {
		h.forced = []*txRec{}
		if !h.block() {
			return false
		}
	}
	return true
}

// pickActor: a validated identity (with invitations when needed) whose account is in the wanted situation
func (h *hist) pickActor(used map[int]string, acct string, needInvites bool, not map[int]bool) int {
	st := h.ref.n.App.State
	for k := 1; k <= 14; k++ {
		if not[k] {
			continue
		}
		id := st.GetIdentity(h.w.Addrs[k])
		if !id.State.NewbieOrBetter() || id.Delegatee() != nil || (needInvites && id.Invites == 0) {
			continue
		}
		have := used[k]
		if have == "" {
			have = "fresh"
		}
		want := acct
		if want == "current" {
			want = have // made current by a warm-up transaction
		}
		if have == want && st.GetBalance(h.w.Addrs[k]).Cmp(sim.Dna(800, 1)) > 0 {
			return k
		}
	}
	return -1
}

func (h *hist) runFilterCase(c filterCase, used map[int]string) (realised bool, note string) {
	st := h.ref.n.App.State
	cs := c.Case
	needInv := cs.Cause == "double-invite"
	taken := map[int]bool{}
	a := h.pickActor(used, cs.Acct, needInv, taken)
	if cs.Cause == "killed-invitee" {
		a = -2 // the invitee created below
	}
	if a == -1 {
		return false, "no actor in the wanted account situation"
	}
	taken[a] = true
	b := -1
	if cs.Cause == "double-invite" {
		if b = h.pickActor(used, cs.Acct, true, taken); b == -1 {
			if b = h.pickActor(used, "current", true, taken); b == -1 {
				return false, "no second inviter"
			}
		}
	}
	sink := h.w.Addrs[8]
	warm := []*txRec{}
	if cs.Acct == "current" && a >= 0 {
		warm = append(warm, h.mkTx(a, types.SendTx, &sink, sim.Dna(1, 1), nil, 0, 0, map[int]uint32{}))
		if b >= 0 {
			warm = append(warm, h.mkTx(b, types.SendTx, &sink, sim.Dna(1, 1), nil, 0, 0, map[int]uint32{}))
		}
	}
	if cs.Cause == "killed-invitee" {
		// the god identity invites key 16, which activates itself and gets some coins
		to := h.w.Addrs[16]
		h.forced = []*txRec{h.mkTx(0, types.InviteTx, &to, sim.Dna(400, 1), nil, 0, 0, map[int]uint32{})}
		if !h.block() {
			return false, "invite refused"
		}
		if st.GetIdentityState(to) != state.Invite {
			return false, "the god identity holds no invitation"
		}
		h.forced = []*txRec{h.mkTx(16, types.ActivationTx, &to, nil, pubOf(h, 16), 0, 0, map[int]uint32{})}
		if !h.block() || st.GetIdentityState(to) != state.Candidate {
			return false, "activation refused"
		}
		a, b = 16, 0
	}
	if len(warm) > 0 {
		h.forced = warm
		if !h.block() {
			return false, "warm-up block refused"
		}
	}
	pend := map[int]uint32{}
	var sub []*txRec
	add := func(from int, typ types.TxType, to *common.Address, amount *big.Int, kind string) {
		r := h.mkTx(from, typ, to, amount, nil, 0, 0, pend)
		pend[from]++
		r.m["filter"] = kind
		sub = append(sub, r)
	}
	follow := func(from int, n int) {
		for i := 0; i < n; i++ {
			add(from, types.SendTx, &sink, sim.Dna(int64(1+i), 1), "follow")
		}
	}
	switch cs.Cause {
	case "none":
		add(a, types.SendTx, &sink, sim.Dna(2, 1), "send")
		follow(a, cs.Follow)
	case "double-invite":
		x := h.w.Addrs[17]
		add(b, types.InviteTx, &x, sim.Dna(120, 1), "invite")
		follow(b, cs.Follow)
		add(a, types.InviteTx, &x, sim.Dna(120, 1), "invite")
		follow(a, cs.Follow)
	case "killed-invitee":
		add(b, types.KillInviteeTx, &h.w.Addrs[16], nil, "killinv")
		add(a, types.KillTx, nil, nil, "idtx") // (a transaction only a live identity may send: its own termination)
		follow(a, cs.Follow)
	case "self-kill":
		add(a, types.KillTx, nil, nil, "kill")
		add(a, types.KillTx, nil, nil, "idtx") // (terminating itself a second time)
		follow(a, cs.Follow)
	case "overspend":
		bal := st.GetBalance(h.w.Addrs[a])
		// (the second amount is exactly what the first one leaves before its fee: whatever the fees are, it no longer fits)
		add(a, types.SendTx, &sink, new(big.Int).Sub(bal, sim.Dna(300, 1)), "sendbig")
		add(a, types.SendTx, &sink, sim.Dna(300, 1), "sendover")
		follow(a, cs.Follow)
	default:
		panic("unknown filter cause " + cs.Cause)
	}
	before := len(h.included)
	h.forced = sub
	ok := h.block()
	var inc []string
	for _, r := range h.included[before:] {
		if k, _ := r.m["filter"].(string); k != "" {
			inc = append(inc, fmt.Sprintf("k%d:%s", r.from, k))
		}
	}
	h.out.Emit(tr.M{"ev": "FilterCase", "hid": h.id, "case": cs, "modelOffer": c.Offer, "modelIncluded": c.Included, "submitted": len(sub),
		"included": inc, "skipped": len(sub) - len(inc), "accepted": ok})
	if !ok {
		return true, "refused"
	}
	// the leftovers stay in the pools: two more blocks built from them
	h.quietBlocks(2)
	return len(sub)-len(inc) > 0 || cs.Cause == "none", ""
}

func pubOf(h *hist, k int) []byte {
	return crypto.FromECDSAPub(&h.w.Keys[k].PublicKey)
}

func runFilter(file string, seed int64, out *tr.W) (cases, blocks, realised int) {
	var cs []filterCase
	tr.ReadLines(file, func(raw []byte) {
		var c filterCase
		if err := json.Unmarshal(raw, &c); err != nil {
			panic(err)
		}
		cs = append(cs, c)
	})
	h1, snap1, used1 := filterPrelude(seed, true)
	h0, snap0, used0 := filterPrelude(seed+1, false)
	for i, c := range cs {
		var h *hist
		var used map[int]string
		if c.Case.Epoch == "e1" {
			h, used = h1.restore(snap1, 2000+i, out), used1
		} else {
			h, used = h0.restore(snap0, 2000+i, out), used0
		}
		h.w.Use()
		ok, note := h.runFilterCase(c, used)
		if ok {
			realised++
		} else {
			out.Emit(tr.M{"ev": "FilterSkip", "hid": h.id, "case": c.Case, "note": note})
		}
		blocks += h.blockNo
		cases++
	}
	return
}
