package main

// Gas-boundary scenarios exported by TLC from spec/Gas.tla: a list of transactions of one sender (consecutive
// nonces, so the order is forced) with small model weights.  The driver realises the list with REAL transactions
// whose cumulative gas, at every prefix, is Cap_real + (cum_model - Cap_model) * U, where U is chosen so that the
// model's execution weight R of a contract deployment is the execution gas a real (embedded multisig) deployment
// burns: every "<", "=" or ">" relation of the model list to the cap holds for the real list to the real block gas
// cap, the equality cases landing EXACTLY on the cap.  The first transaction is the ballast that carries the bulk.
// The list goes through every real pool, the real BuildBlockTransactions + ProposeBlock of the proposer and the real
// validation / insertion of all replicas (the ordinary "Block" line); the "GasCase" line adds what the block did.

import (
	"encoding/json"
	"fmt"
	"math/big"

	"github.com/idena-network/idena-go/blockchain/attachments"
	"github.com/idena-network/idena-go/blockchain/fee"
	"github.com/idena-network/idena-go/blockchain/types"
	"github.com/idena-network/idena-go/common"
	"github.com/idena-network/idena-go/vm/embedded"

	"verifh/internal/sim"
	"verifh/internal/tr"
)

type gasTx struct {
	G int  `json:"g"`
	C bool `json:"c"`
}

type gasCase struct {
	Txs     []gasTx  `json:"txs"`
	Cap     int      `json:"cap"`
	R       int      `json:"r"`
	Pat     []string `json:"pat"`
	Spat    []string `json:"spat"`
	Offered int      `json:"offered"`
	Block   int      `json:"block"`
	Accept  bool     `json:"accept"`
}

const gasSender = 0

// custom builds a transaction of the gas sender with the given size knobs and registers it like mkTx does.
func (h *hist) gasTxOf(deploy bool, nonce uint32, epoch uint16, pad int, tips *big.Int, maxFee, stake *big.Int) *types.Transaction {
	if deploy {
		att := attachments.CreateDeployContractAttachment(embedded.MultisigContract, nil, make([]byte, pad),
			common.ToBytes(byte(2)), common.ToBytes(byte(2)))
		payload, err := att.ToBytes()
		if err != nil {
			panic(err)
		}
		return h.w.Tx(sim.TxSpec{From: gasSender, Type: types.DeployContractTx, Amount: stake, MaxFee: maxFee, Tips: tips, Nonce: nonce, Epoch: epoch, Payload: payload})
	}
	to := h.w.Addrs[1]
	return h.w.Tx(sim.TxSpec{From: gasSender, To: &to, Type: types.SendTx, Amount: big.NewInt(1), MaxFee: maxFee, Tips: tips, Nonce: nonce, Epoch: epoch, Payload: make([]byte, pad)})
}

// exactGas searches the padding (and, across a length-prefix boundary, the tips field) for a transaction whose STATIC
// gas is exactly target.
func (h *hist) exactGas(deploy bool, nonce uint32, epoch uint16, target int, maxFee, stake *big.Int) *types.Transaction {
	for _, tips := range []*big.Int{nil, big.NewInt(1), big.NewInt(300), big.NewInt(70000), big.NewInt(1 << 24)} {
		pad := 0
		for i := 0; i < 8; i++ {
			tx := h.gasTxOf(deploy, nonce, epoch, pad, tips, maxFee, stake)
			g := fee.CalculateGas(tx)
			if g == target {
				return tx
			}
			pad += (target - g) / 10
			if pad < 0 {
				break
			}
		}
	}
	return nil
}

func (h *hist) register(tx *types.Transaction, note string) *txRec {
	h.txSeq++
	id := fmt.Sprintf("t%d", h.txSeq)
	toName := ""
	if tx.To != nil {
		toName = h.w.Name(*tx.To)
	}
	m := tr.M{"id": id, "type": int(tx.Type), "from": fmt.Sprintf("k%d", gasSender), "to": toName, "amount": sim.Limbs(tx.AmountOrZero()),
		"tips": sim.Limbs(tx.TipsOrZero()), "maxfee": sim.Limbs(tx.MaxFeeOrZero()), "nonce": int(tx.AccountNonce), "epoch": int(tx.Epoch),
		"nadj": 0, "eadj": 0, "gas": note}
	rec := &txRec{id: id, tx: tx, from: gasSender, m: m}
	h.recs[tx.Hash().Hex()] = rec
	return rec
}

func (h *hist) quiet(n int) {
	for b := 0; b < n; b++ {
		h.forced = []*txRec{}
		if !h.block() {
			panic("gas scenario: quiet block refused")
		}
	}
}

// blockGas returns the per-transaction total gas (static + execution) of the head block.
func (h *hist) blockGas() []int {
	blk := h.ref.n.Chain.GetBlock(h.ref.n.Chain.Head.Hash())
	var res []int
	for _, tx := range blk.Body.Transactions {
		g := fee.CalculateGas(tx)
		if r := h.ref.n.Chain.GetReceipt(tx.Hash()); r != nil {
			g += int(r.GasUsed)
		}
		res = append(res, g)
	}
	return res
}

func runGas(file string, seed int64, out *tr.W) (int, int) {
	var cases []gasCase
	tr.ReadLines(file, func(raw []byte) {
		var c gasCase
		if err := json.Unmarshal(raw, &c); err != nil {
			panic(err)
		}
		cases = append(cases, c)
	})
	blocks := 0
	execGas := 0 // execution gas of one embedded multisig deployment, measured on the real code
	for i, c := range cases {
		cfg := &scenCfg{blocks: 8, epochs: false, nProposers: 6, relQuiet: true}
		h := newHist(seed, 700+i, cfg, out)
		h.start()
		h.quiet(2)
		blocks += 2
		st := h.ref.n.App.State
		capReal := int(types.MaxBlockSize(h.w.Cons.EnableUpgrade11))
		feePerGas := st.FeePerGas()
		if common.ZeroOrNil(feePerGas) {
			feePerGas = fee.GetFeePerGasForNetwork(h.ref.n.App.ValidatorsCache.NetworkSize())
		}
		stake := new(big.Int).Mul(feePerGas, big.NewInt(3000000*2))
		// the pool refuses a max fee that buys more than a block of gas at the minimal price
		feeCap := new(big.Int).Mul(fee.GetFeePerGasForNetwork(h.ref.n.App.ValidatorsCache.NetworkSize()), big.NewInt(int64(capReal)))
		maxFeeFor := func(gas int) *big.Int {
			f := new(big.Int).Mul(feePerGas, big.NewInt(int64(gas)*3+30000))
			if f.Cmp(feeCap) > 0 {
				return feeCap
			}
			return f
		}
		if execGas == 0 {
			// measure: one deployment alone in a block
			base, ep := h.nextNonce(gasSender)
			tx := h.gasTxOf(true, base+1, ep, 0, nil, maxFeeFor(20000), stake)
			h.forced = []*txRec{h.register(tx, "probe")}
			if !h.block() {
				panic("gas scenario: probe deployment refused")
			}
			blocks++
			r := h.ref.n.Chain.GetReceipt(tx.Hash())
			if r == nil || !r.Success || r.GasUsed == 0 {
				panic(fmt.Sprintf("gas scenario: probe deployment gave no usable receipt: %+v", r))
			}
			execGas = int(r.GasUsed)
		}
		if execGas%c.R != 0 || (execGas/c.R)%10 != 0 {
			panic(fmt.Sprintf("gas scenario: execution gas %d is not R=%d units of whole payload bytes", execGas, c.R))
		}
		U := execGas / c.R
		base, ep := h.nextNonce(gasSender)
		var recs []*txRec
		var want []int
		feasible := true
		for j, t := range c.Txs {
			target := t.G * U
			if j == 0 {
				dyn := t.G
				if t.C {
					dyn += c.R
				}
				target = capReal + (dyn-c.Cap)*U
				if t.C {
					target -= execGas
				}
			}
			tx := h.exactGas(t.C, base+uint32(j)+1, ep, target, maxFeeFor(target+execGas), stake)
			if tx == nil {
				feasible = false
				break
			}
			recs = append(recs, h.register(tx, fmt.Sprintf("static=%d", target)))
			want = append(want, target)
		}
		line := tr.M{"ev": "GasCase", "hid": h.id, "case": c, "feasible": feasible, "capReal": capReal, "unit": U, "execGas": execGas, "wantStatic": want}
		if !feasible {
			out.Emit(line)
			continue
		}
		h.forced = recs
		accepted := h.block()
		blocks++
		line["accepted"] = accepted
		if accepted {
			per := h.blockGas()
			cum, pat := 0, []string{}
			for _, g := range per {
				cum += g
				switch {
				case cum < capReal:
					pat = append(pat, "<")
				case cum == capReal:
					pat = append(pat, "=")
				default:
					pat = append(pat, ">")
				}
			}
			line["blockLen"] = len(per)
			line["gas"] = per
			line["pat"] = pat
			// the next block takes what was left over (the leftovers must not be lost or refused either)
			h.forced = []*txRec{}
			line["nextAccepted"] = h.block()
			blocks++
		}
		out.Emit(line)
	}
	return len(cases), blocks
}
