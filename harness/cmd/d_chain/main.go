// d_chain drives real multi-replica idena-go chains through seeded random histories and records one
// rich ndjson trace that several trace specifications read (each looks at the fields it needs):
//
//	Trace_Replicas   (C01 agreement of replicas that reach the same chain through different node-local
//	                  histories; C02 every honest proposal is accepted by every replica)
//	Trace_Ledger     (C04 non-negativity / issuance, C05 only the signer's funds, C06 replay / nonces)
//	Trace_Registry   (C10 incremental vs rebuilt validator view, registry vs ledger coupling)
//	Trace_SyncViews  (C11a served identity diffs reproduce the canonical identity roots; C13b canonical
//	                  state untouched by speculative work, historical views exact)
//
// Nothing of the node is re-implemented: blocks are proposed by the real ProposeBlock from the real
// mempool, validated and inserted by the real ValidateBlock / AddBlock on every replica, epoch results
// go through the real ceremony.ApplyNewEpoch (per-identity values injected through the verif shim).
package main

import (
	"bytes"
	"encoding/json"
	"flag"
	"fmt"
	"github.com/idena-network/idena-go/crypto/ecies"
	"github.com/idena-network/idena-go/crypto/vrf/p256"
	"math/big"
	"math/rand"
	"os"
	"sort"
	"strings"
	"time"

	"github.com/idena-network/idena-go/blockchain/attachments"
	"github.com/idena-network/idena-go/blockchain/types"
	"github.com/idena-network/idena-go/blockchain/validation"
	"github.com/idena-network/idena-go/common"
	"github.com/idena-network/idena-go/core/ceremony"
	"github.com/idena-network/idena-go/core/state"
	"github.com/idena-network/idena-go/crypto"
	"github.com/idena-network/idena-go/stats/collector"
	"github.com/idena-network/idena-go/vm/embedded"

	"verifh/internal/sim"
	"verifh/internal/tr"
)

// replica = a node plus the node-local history it goes through before each block
type replica struct {
	name string
	n    *sim.Node
	vc   *ceremony.ValidationCeremony
	kind string // line | restart | rollback | spec | zone | valins
	zone *time.Location
}

type hist struct {
	w             *sim.World
	rnd           *rand.Rand
	out           *tr.W
	reps          []*replica
	props         map[int]*replica // proposer-capable replicas by key
	ref           *replica
	id            int
	nProp         int
	txSeq         int
	included      []*txRec // txs included so far (for replays)
	recs          map[string]*txRec
	invites       []int // keys holding an invite
	fresh         int   // next unused key index
	prevLed       *sim.Ledger
	ledgers       map[uint64]*sim.Ledger
	genDB         interface{}
	blocksInEpoch int
	blockNo       int
	nReorgs       int
	nFailed       int
	lostOnce      map[common.Hash]bool
	diag          tr.M
	floods        int
	forced        []*txRec       // when non-nil: exactly these submissions for the coming block
	graphSent     map[int]uint64 // edge index -> height of the last DelegateTx submission
	flagsAt       map[uint64]int
	txsAt         map[uint64][]string
	fs            *fsReplica       // the replica that falls behind and catches up through the real full sync
	pendingEpoch  func(r *replica) // re-delivers the injected epoch results (stand-in for on-chain data)
	cfg           *scenCfg
	life          *lifeCtx // identity-lifecycle scenario (life.go): roles, per-step controls, extended projection
}

type txRec struct {
	id   string
	tx   *types.Transaction
	from int
	m    tr.M
}

// sched[b][replica name] = pre-history kind (exported by TLC from Replicas.tla); cycled over the blocks
type schedule []map[string]string

type scenCfg struct {
	life       bool     // identity-lifecycle scenarios (life.go): no snapshots, long sessions, rich accounts
	relQuiet   bool     // relationship scenarios: no random transactions, everybody stays validated
	graph      [][2]int // delegation graph scenario (edges delegator -> delegatee over keys 1..4), exported by TLC from EpochLoop.tla
	heavy      bool
	reorgs     bool
	contracts  bool // the generator also deploys embedded contracts (receipts, gas cost, contract stake in every replica's evaluation)
	dawn       bool // a network before its first validation: nobody is validated (network size 0), the god address proposes
	faults     bool // now and then a replica's insertion of a proposal FAILS (content-store fault) and the round is lost
	replays    bool
	sched      schedule
	blocks     int
	big        bool // genesis with > 300 identities (NormalizedEpochDuration leaves its small-network branch)
	epochs     bool
	nProposers int
	fsync      bool // add the lagging replica that catches up by full sync
}

func (h *hist) attachCeremony(r *replica) {
	r.vc = ceremony.VerifNewCeremony(r.n.App, r.n.Bus, r.n.Sec, r.n.DB, r.n.Pool, r.n.Chain, r.n.Cfg)
	r.n.Chain.ProvideApplyNewEpochFunc(r.vc.ApplyNewEpoch)
	if h.pendingEpoch != nil {
		h.pendingEpoch(r)
	}
}

func newHist(seed int64, id int, cfg *scenCfg, out *tr.W) *hist {
	rnd := rand.New(rand.NewSource(seed*7919 + int64(id)))
	nkeys := 24
	if cfg.big {
		nkeys = 24 + 320
	}
	w := sim.NewWorld(seed*1000+int64(id), nkeys)
	w.IpfsFaults = cfg.faults
	w.Cons.StatusSwitchRange = 5
	w.Cons.DelegationSwitchRange = 7
	w.Cons.DiscriminationSwitchRange = 6
	w.Cons.SnapshotRange = 11
	// validation sessions are short, the epoch length is the repository's own NormalizedEpochDuration
	w.ValCfg.FlipLotteryDuration = 5 * time.Minute
	w.ValCfg.ShortSessionDuration = 2 * time.Minute
	w.ValCfg.LongSessionDuration = 10 * time.Minute
	w.FirstCeremony = 1693666800 // Sat 2023-09-02 15:00:00 UTC
	if cfg.life {
		// a lifecycle path puts many one-attempt blocks (10 s apart at least) into one session, and a snapshot block would
		// apply pending status switches at a height the path does not name
		w.Cons.SnapshotRange = 1 << 40
		// one common switch range: pending status / delegation / discrimination switches are all applied by the same
		// identity-update block, and the driver can keep the attempts of a path clear of it (lifeAlign)
		w.Cons.StatusSwitchRange, w.Cons.DelegationSwitchRange, w.Cons.DiscriminationSwitchRange = lifeRange, lifeRange, lifeRange
		w.ValCfg.FlipLotteryDuration = 15 * time.Minute
		w.ValCfg.ShortSessionDuration = 15 * time.Minute
		w.ValCfg.LongSessionDuration = 30 * time.Minute
	}
	st := []state.IdentityState{state.Verified, state.Human, state.Newbie, state.Verified, state.Candidate, state.Suspended, state.Zombie}
	w.Allocs = append(w.Allocs, sim.Alloc{Key: 0, State: state.Verified, Balance: sim.Dna(100000, 1), Stake: sim.Dna(1000, 1)})
	if cfg.graph != nil {
		st = []state.IdentityState{state.Candidate, state.Candidate, state.Candidate, state.Candidate, state.Verified, state.Verified, state.Newbie}
		w.Cons.DelegationSwitchRange = 5
	}
	for i := 1; i <= 7; i++ {
		bal := sim.Dna(int64(2000+rnd.Intn(3000)), 1)
		if cfg.life {
			bal = sim.Dna(int64(30000+rnd.Intn(3000)), 1)
		}
		w.Allocs = append(w.Allocs, sim.Alloc{Key: i, State: st[i-1], Balance: bal, Stake: sim.Dna(int64(50+rnd.Intn(500)), 1)})
	}
	if cfg.life {
		w.Allocs = append(w.Allocs, sim.Alloc{Key: 8, State: state.Undefined, Balance: sim.Dna(30000, 1)})
	} else {
		w.Allocs = append(w.Allocs, sim.Alloc{Key: 8, State: state.Undefined, Balance: sim.Dna(3000, 1)})
	}
	// more validated identities without a node of their own: pool members, invitees, committee members
	for i := 9; i <= 14; i++ {
		w.Allocs = append(w.Allocs, sim.Alloc{Key: i, State: []state.IdentityState{state.Verified, state.Newbie, state.Human}[i%3],
			Balance: sim.Dna(int64(1500+rnd.Intn(1500)+lifeExtra(cfg)), 1), Stake: sim.Dna(int64(20+rnd.Intn(200)), 1)})
	}
	if cfg.big {
		for i := 24; i < nkeys; i++ {
			w.Allocs = append(w.Allocs, sim.Alloc{Key: i, State: state.Verified, Balance: sim.Dna(10, 1), Stake: sim.Dna(int64(10+rnd.Intn(90)), 1)})
		}
	}
	if cfg.dawn {
		for i := range w.Allocs {
			if w.Allocs[i].State != state.Undefined {
				w.Allocs[i].State = state.Candidate
			}
			// (with a network size of zero the fee rate - and with it the minimal contract stake - is at its maximum)
			w.Allocs[i].Balance = new(big.Int).Mul(w.Allocs[i].Balance, big.NewInt(100))
		}
	}
	h := &hist{w: w, rnd: rnd, out: out, id: id, props: map[int]*replica{}, recs: map[string]*txRec{}, ledgers: map[uint64]*sim.Ledger{}, fresh: 15, cfg: cfg,
		flagsAt: map[uint64]int{}, txsAt: map[uint64][]string{}}
	// proposer-capable replicas (each owns a key); they also differ in node-local history
	kinds := []string{"line", "restart", "rollback", "spec", "valins", "random"}
	zones := []*time.Location{time.FixedZone("UTC+14", 14*3600), time.FixedZone("UTC-12", -12*3600), time.FixedZone("UTC+5:45", 5*3600+45*60), time.FixedZone("UTC+9", 9*3600)}
	for k := 0; k < cfg.nProposers; k++ {
		n := w.NewNode(k)
		if n.BootErr != nil {
			panic(n.BootErr)
		}
		r := &replica{name: fmt.Sprintf("r%d", k), n: n, kind: kinds[k%len(kinds)]}
		if k >= 4 {
			// the last two replicas run in other host time zones: one far east, one seeded
			if k == 4 {
				r.zone = zones[0]
			} else {
				r.zone = zones[1+rnd.Intn(len(zones)-1)]
			}
		}
		h.attachCeremony(r)
		h.reps = append(h.reps, r)
		h.props[k] = r
	}
	h.ref = h.reps[0]
	if cfg.fsync {
		h.newFS(23)
	}
	return h
}

func (h *hist) inZone(r *replica, f func()) {
	if r.zone != nil {
		old := time.Local
		time.Local = r.zone
		defer func() { time.Local = old }()
	}
	f()
}

func errClass(err error) string {
	if err == nil {
		return "ok"
	}
	s := err.Error()
	for _, m := range []string{"invalid block roots", "invalid block root", "invalid block identity root", "empty blocks' hashes mismatch"} {
		if strings.Contains(s, m) {
			// the replica recomputed the block's state transition and got another result than the block states
			return "roots-mismatch"
		}
	}
	if len(s) > 60 {
		s = s[:60]
	}
	return s
}

// ---------------------------------------------------------------------------------------------
// transactions

func (h *hist) nextNonce(k int) (uint32, uint16) {
	s := h.ref.n.App.State
	a := h.w.Addrs[k]
	ep := s.Epoch()
	n := s.GetNonce(a)
	if s.GetEpoch(a) < ep {
		n = 0
	}
	// account for txs already submitted for the coming block
	return n, ep
}

func (h *hist) mkTx(from int, typ types.TxType, to *common.Address, amount *big.Int, payload []byte, nonceAdj int, epochAdj int, pendingBySender map[int]uint32) *txRec {
	base, ep := h.nextNonce(from)
	nonce := int(base) + int(pendingBySender[from]) + 1 + nonceAdj
	if nonce < 0 {
		nonce = 0
	}
	e := int(ep) + epochAdj
	if e < 0 {
		e = 0
	}
	maxFee := sim.Dna(int64(60+h.rnd.Intn(100)), 1)
	var tips *big.Int
	if h.rnd.Intn(4) == 0 {
		tips = sim.Dna(int64(1+h.rnd.Intn(30)), 1)
	}
	tx := h.w.Tx(sim.TxSpec{From: from, To: to, Type: typ, Amount: amount, MaxFee: maxFee, Tips: tips, Nonce: uint32(nonce), Epoch: uint16(e), Payload: payload})
	h.txSeq++
	id := fmt.Sprintf("t%d", h.txSeq)
	toName := ""
	if to != nil {
		toName = h.w.Name(*to)
	}
	m := tr.M{"id": id, "type": int(typ), "from": fmt.Sprintf("k%d", from), "to": toName, "amount": sim.Limbs(tx.AmountOrZero()),
		"tips": sim.Limbs(tx.TipsOrZero()), "maxfee": sim.Limbs(tx.MaxFeeOrZero()), "nonce": nonce, "epoch": e,
		"nadj": nonceAdj, "eadj": epochAdj}
	rec := &txRec{id: id, tx: tx, from: from, m: m}
	h.recs[tx.Hash().Hex()] = rec
	return rec
}

func (h *hist) funded() []int {
	res := []int{}
	for k := 0; k < 24 && k < len(h.w.Addrs); k++ {
		if h.ref.n.App.State.GetBalance(h.w.Addrs[k]).Cmp(sim.Dna(200, 1)) > 0 {
			res = append(res, k)
		}
	}
	return res
}

func (h *hist) pick(xs []int) int { return xs[h.rnd.Intn(len(xs))] }

func (h *hist) anyKey() int { return h.rnd.Intn(h.fresh + 1) }

// genTxs produces the submissions for the coming block: a seeded mix of every plain tx type with
// targets in every relationship to the signer, amounts on the funds boundary, in and out of nonce
// order, right and wrong epochs, and replays of already included transactions.
// graphTxs builds the scenario's delegation graph with real DelegateTx transactions, one edge per delegation-switch
// window, sources first (a delegation can only be switched on while its target has no delegatee itself).
func (h *hist) graphTxs() []*txRec {
	s := h.ref.n.App.State
	if h.graphSent == nil {
		h.graphSent = map[int]uint64{}
	}
	edges := orderEdges(h.cfg.graph)
	head := h.ref.n.Chain.Head.Height()
	for i, e := range edges {
		src, dst := e[0], e[1]
		if d := s.Delegatee(h.w.Addrs[src]); d != nil && *d == h.w.Addrs[dst] {
			continue // switched on
		}
		if sent, ok := h.graphSent[i]; ok && head < sent+7 {
			return nil // submitted, waiting for the switch block
		}
		if s.ValidationPeriod() != state.NonePeriod {
			return nil
		}
		h.graphSent[i] = head
		to := h.w.Addrs[dst]
		return []*txRec{h.mkTx(src, types.DelegateTx, &to, nil, nil, 0, 0, map[int]uint32{})}
	}
	return nil
}

// orderEdges: an edge (s -> t) before (t -> u)
func orderEdges(g [][2]int) [][2]int {
	var res [][2]int
	left := append([][2]int(nil), g...)
	for len(left) > 0 {
		progressed := false
		for i, e := range left {
			blocked := false
			for _, f := range left {
				if f[1] == e[0] { // somebody still has to delegate TO e's source first
					blocked = true
				}
			}
			if !blocked {
				res = append(res, e)
				left = append(left[:i], left[i+1:]...)
				progressed = true
				break
			}
		}
		if !progressed {
			break
		}
	}
	return res
}

func (h *hist) graphBuilt() bool {
	s := h.ref.n.App.State
	for _, e := range h.cfg.graph {
		if d := s.Delegatee(h.w.Addrs[e[0]]); d == nil || *d != h.w.Addrs[e[1]] {
			return false
		}
	}
	return true
}

func (h *hist) genTxs() []*txRec {
	if h.forced != nil {
		f := h.forced
		h.forced = nil
		return f
	}
	if h.cfg.relQuiet {
		return nil
	}
	if h.cfg.graph != nil {
		return h.graphTxs()
	}
	var res []*txRec
	pend := map[int]uint32{}
	s := h.ref.n.App.State
	n := 1 + h.rnd.Intn(6)
	if h.rnd.Intn(5) == 0 {
		n += 4
	}
	// who currently delegates to whom (to aim undelegations / terminations at real relationships)
	var delegators, pools []int
	for k := 0; k < 24 && k < len(h.w.Addrs); k++ {
		if d := s.Delegatee(h.w.Addrs[k]); d != nil {
			delegators = append(delegators, k)
			if i := h.w.Index(*d); i >= 0 && i < 24 {
				pools = append(pools, i)
			}
		}
	}
	add := func(r *txRec, counts bool) {
		res = append(res, r)
		if counts {
			pend[r.from]++
		}
	}
	if per := s.ValidationPeriod(); h.cfg.epochs && (per == state.FlipLotteryPeriod || per != state.NonePeriod && h.rnd.Intn(2) == 0 || per == state.NonePeriod && h.rnd.Intn(25) == 0) {
		// ceremony transactions, submitted in time, a period EARLY (the pools take them and make them wait; the builder
		// must leave them out until their period) and late; what they say does not matter here (the epoch results are
		// injected), when they may enter a block does.  From the second epoch on long answers carry a real VRF proof.
		var cands []int
		for k := 0; k < 15; k++ {
			if state.IsCeremonyCandidate(s.GetIdentity(h.w.Addrs[k])) {
				cands = append(cands, k)
			}
		}
		for i, cnt := 0, 1+h.rnd.Intn(3); i < cnt; i++ {
			k := h.rnd.Intn(15)
			if len(cands) > 0 && h.rnd.Intn(4) != 0 {
				k = h.pick(cands)
			}
			typ := []types.TxType{types.SubmitAnswersHashTx, types.SubmitShortAnswersTx, types.SubmitLongAnswersTx, types.EvidenceTx}[h.rnd.Intn(4)]
			if per == state.FlipLotteryPeriod && i == 0 {
				typ = types.SubmitLongAnswersTx // the type the pools accept a whole period before a block may carry it
			}
			var payload []byte
			switch typ {
			case types.SubmitAnswersHashTx:
				hsh := common.Hash{byte(k), byte(h.blockNo), 7}
				payload = hsh[:]
			case types.SubmitShortAnswersTx:
				payload = attachments.CreateShortAnswerAttachment([]byte{1, 2, byte(k)}, uint64(100+k), 0)
			case types.SubmitLongAnswersTx:
				seed := s.FlipWordsSeed()
				var proof []byte
				if signer, err := p256.NewVRFSigner(h.w.Keys[k]); err == nil {
					_, proof = signer.Evaluate(seed[:])
				}
				payload = attachments.CreateLongAnswerAttachment([]byte{3, byte(k)}, proof, []byte{byte(k), 9, 9}, ecies.ImportECDSA(h.w.Keys[k]))
			case types.EvidenceTx:
				payload = []byte{byte(k), 9}
			}
			r := h.mkTx(k, typ, nil, nil, payload, 0, 0, pend)
			r.m["ceremony"] = true
			add(r, per >= state.ShortSessionPeriod)
		}
	}
	if !h.cfg.heavy && h.floods < 3 && h.rnd.Intn(30) == 0 && s.GetBalance(h.w.Addrs[0]).Cmp(sim.Dna(40000, 1)) > 0 {
		// a flood: large transactions in nonce order whose total gas crosses the block gas cap (the builder, the
		// proposer's filter and the validators must agree where the block ends)
		h.floods++
		for i := 0; i < 7; i++ {
			payload := make([]byte, 60000+h.rnd.Intn(60000))
			h.rnd.Read(payload)
			to := h.w.Addrs[1+h.rnd.Intn(8)]
			r := h.mkTx(0, types.SendTx, &to, sim.Dna(1, 1), payload, 0, 0, pend)
			r.tx = h.w.Tx(sim.TxSpec{From: 0, To: &to, Type: types.SendTx, Amount: sim.Dna(1, 1), MaxFee: sim.Dna(4000, 1),
				Nonce: r.tx.AccountNonce, Epoch: r.tx.Epoch, Payload: payload})
			delete(h.recs, "") // (the record is re-keyed below)
			r.m["maxfee"] = sim.Limbs(r.tx.MaxFeeOrZero())
			r.m["flood"] = true
			h.recs[r.tx.Hash().Hex()] = r
			add(r, true)
		}
	}
	for i := 0; i < n; i++ {
		fs := h.funded()
		if len(fs) == 0 {
			break
		}
		from := h.pick(fs)
		nadj, eadj := 0, 0
		switch h.rnd.Intn(22) {
		case 0:
			nadj = 1 // gap
		case 1:
			nadj = -1 // stale / duplicate
		case 2:
			eadj = 1
		case 3:
			if s.Epoch() > 0 {
				eadj = -1
			}
		}
		counts := nadj == 0 && eadj == 0
		bal := s.GetBalance(h.w.Addrs[from])
		amt := func() *big.Int {
			switch h.rnd.Intn(6) {
			case 0:
				return new(big.Int).Add(bal, big.NewInt(1)) // more than the balance
			case 1:
				return new(big.Int).Set(bal) // exactly the balance (fee cannot be paid)
			case 2:
				return new(big.Int).Sub(bal, sim.Dna(1, 2)) // leaves less than any fee
			case 3:
				return nil
			default:
				return sim.Dna(int64(1+h.rnd.Intn(50)), 1)
			}
		}
		choice := h.rnd.Intn(16)
		if h.cfg.heavy && h.rnd.Intn(4) != 0 {
			choice = []int{3, 4, 5, 6, 7, 8, 9, 9, 10, 11, 11, 9}[h.rnd.Intn(12)]
		}
		followUp := false
		if h.rnd.Intn(2) == 0 {
			// follow-up on something that is PENDING for an identity (a status switch or a delegation switch waiting
			// for its switch block): terminate it, toggle it back, delegate it away before the switch happens
			var pendingKeys []int
			for _, a := range s.StatusSwitchAddresses() {
				if i := h.w.Index(a); i >= 0 && i < 24 {
					pendingKeys = append(pendingKeys, i)
				}
			}
			for _, d := range s.Delegations() {
				if i := h.w.Index(d.Delegator); i >= 0 && i < 24 {
					pendingKeys = append(pendingKeys, i)
				}
			}
			if len(pendingKeys) > 0 {
				from = h.pick(pendingKeys)
				choice = []int{5, 5, 5, 7, 9, 10}[h.rnd.Intn(6)]
				if from == 0 && choice == 5 {
					choice = 7
				}
				nadj, eadj, counts = 0, 0, true
				followUp = true
			}
		}
		if choice == 5 && !followUp && (from == 0 || h.rnd.Intn(3) != 0) {
			choice = 0 // plain terminations are kept rare (identities should live long enough to get into pools etc.)
		}
		switch choice {
		case 0, 1, 2:
			to := h.w.Addrs[h.anyKey()]
			add(h.mkTx(from, types.SendTx, &to, amt(), nil, nadj, eadj, pend), counts)
		case 3:
			if h.fresh+1 < 24 {
				h.fresh++
				to := h.w.Addrs[h.fresh]
				r := h.mkTx(from, types.InviteTx, &to, sim.Dna(int64(100+h.rnd.Intn(100)), 1), nil, nadj, eadj, pend)
				r.m["inviteKey"] = h.fresh
				add(r, counts)
				h.invites = append(h.invites, h.fresh)
			}
		case 4:
			// activation by an invite holder (or by somebody who holds none)
			var ik int
			if len(h.invites) > 0 && h.rnd.Intn(4) != 0 {
				ik = h.pick(h.invites)
			} else {
				ik = from
			}
			tk := ik
			if h.rnd.Intn(2) == 0 && h.fresh+1 < 24 {
				h.fresh++
				tk = h.fresh
			}
			to := h.w.Addrs[tk]
			payload := crypto.FromECDSAPub(&h.w.Keys[tk].PublicKey)
			if h.rnd.Intn(8) == 0 {
				payload = []byte{1, 2, 3}
			}
			add(h.mkTx(ik, types.ActivationTx, &to, nil, payload, 0, eadj, pend), eadj == 0)
		case 5:
			add(h.mkTx(from, types.KillTx, nil, nil, nil, nadj, eadj, pend), counts)
		case 6:
			// terminate an invitee: own invitee, somebody else's, a stranger, self, god
			target := h.anyKey()
			if inv := s.GetInvitees(h.w.Addrs[from]); len(inv) > 0 && h.rnd.Intn(3) != 0 {
				a := inv[h.rnd.Intn(len(inv))].Address
				add(h.mkTx(from, types.KillInviteeTx, &a, nil, nil, nadj, eadj, pend), counts)
			} else {
				a := h.w.Addrs[target]
				add(h.mkTx(from, types.KillInviteeTx, &a, nil, nil, nadj, eadj, pend), counts)
			}
		case 7, 8:
			online := h.rnd.Intn(3) != 0
			if h.cfg.heavy && h.rnd.Intn(2) == 0 {
				// pool owners (the addresses delegations concentrate on) come online: an online pool is what proposes, earns
				// and - at an epoch end - keeps its registry entry when the owner itself loses validation
				from = 1 + h.rnd.Intn(2)
				online = true
			}
			add(h.mkTx(from, types.OnlineStatusTx, nil, nil, attachments.CreateOnlineStatusAttachment(online), nadj, eadj, pend), counts)
		case 9:
			// delegations concentrate on two pools so that pools with several members (and departures from them) occur
			to := h.w.Addrs[h.rnd.Intn(15)]
			if h.rnd.Intn(4) != 0 {
				to = h.w.Addrs[1+h.rnd.Intn(2)]
			}
			add(h.mkTx(from, types.DelegateTx, &to, nil, nil, nadj, eadj, pend), counts)
		case 10:
			if len(delegators) > 0 && h.rnd.Intn(3) != 0 {
				from = h.pick(delegators)
			}
			add(h.mkTx(from, types.UndelegateTx, nil, nil, nil, nadj, eadj, pend), counts)
		case 11:
			to := h.w.Addrs[h.rnd.Intn(9)]
			if len(pools) > 0 && h.rnd.Intn(4) != 0 {
				from = h.pick(pools)
			}
			if h.rnd.Intn(3) != 0 {
				// a pool terminating one of its own delegators
				var mine []common.Address
				for k := 0; k < 24; k++ {
					if d := s.Delegatee(h.w.Addrs[k]); d != nil && *d == h.w.Addrs[from] {
						mine = append(mine, h.w.Addrs[k])
					}
				}
				if len(mine) > 0 {
					to = mine[h.rnd.Intn(len(mine))]
				}
			}
			add(h.mkTx(from, types.KillDelegatorTx, &to, nil, nil, nadj, eadj, pend), counts)
		case 12:
			to := h.w.Addrs[h.rnd.Intn(15)]
			add(h.mkTx(from, types.ReplenishStakeTx, &to, amt(), nil, nadj, eadj, pend), counts)
		case 13:
			add(h.mkTx(from, types.BurnTx, nil, amt(), attachments.CreateBurnAttachment("k"), nadj, eadj, pend), counts)
		case 14:
			typ := []types.TxType{types.ChangeProfileTx, types.SubmitAnswersHashTx, types.SubmitShortAnswersTx, types.SubmitLongAnswersTx,
				types.EvidenceTx, types.ChangeGodAddressTx, types.DeleteFlipTx, types.SubmitFlipTx, types.StoreToIpfsTx}[h.rnd.Intn(9)]
			var to *common.Address
			if typ == types.ChangeGodAddressTx {
				a := h.w.Addrs[from]
				to = &a
				if from == 0 {
					continue
				}
			}
			payload := attachments.CreateChangeProfileAttachment([]byte{1, 2, 3, 4})
			if h.rnd.Intn(2) == 0 {
				payload = make([]byte, 33)
				h.rnd.Read(payload)
			}
			add(h.mkTx(from, typ, to, nil, payload, nadj, eadj, pend), false)
		case 15:
			// replay of an already included transaction
			if len(h.included) > 0 {
				old := h.included[h.rnd.Intn(len(h.included))]
				res = append(res, &txRec{id: old.id, tx: old.tx, from: old.from, m: old.m})
			}
		}
	}
	if h.cfg.replays && h.rnd.Intn(5) == 0 {
		// "send max": a sender without a node spends its balance down to EXACTLY zero (amount = balance - the fee the node will
		// charge); its account stays - with its nonce - although it holds nothing
		var cands []int
		for _, k := range h.funded() {
			if k >= 6 && pend[k] == 0 {
				cands = append(cands, k)
			}
		}
		if len(cands) > 0 {
			from := h.pick(cands)
			to := h.w.Addrs[1+h.rnd.Intn(5)]
			bal := s.GetBalance(h.w.Addrs[from])
			base, ep := h.nextNonce(from)
			// (the funds check wants amount + MAXIMUM fee: the maximum fee is the fee itself)
			amount := new(big.Int).Set(bal)
			maxFee := sim.Dna(1, 1)
			var tx *types.Transaction
			for i := 0; i < 8; i++ {
				tx = h.w.Tx(sim.TxSpec{From: from, To: &to, Type: types.SendTx, Amount: amount, MaxFee: maxFee, Nonce: base + 1, Epoch: ep})
				f := h.ref.n.SizeFee(tx)
				want := new(big.Int).Sub(bal, f)
				if want.Sign() <= 0 || (want.Cmp(amount) == 0 && f.Cmp(maxFee) == 0) {
					break
				}
				amount, maxFee = want, f
			}
			if amount.Sign() > 0 && new(big.Int).Add(amount, h.ref.n.SizeFee(tx)).Cmp(bal) == 0 && h.ref.n.SizeFee(tx).Cmp(tx.MaxFeeOrZero()) == 0 {
				h.txSeq++
				id := fmt.Sprintf("t%d", h.txSeq)
				m := tr.M{"id": id, "type": int(types.SendTx), "from": fmt.Sprintf("k%d", from), "to": h.w.Name(to), "amount": sim.Limbs(tx.AmountOrZero()),
					"tips": sim.Limbs(tx.TipsOrZero()), "maxfee": sim.Limbs(tx.MaxFeeOrZero()), "nonce": int(base + 1), "epoch": int(ep), "nadj": 0, "eadj": 0, "drain": true}
				rec := &txRec{id: id, tx: tx, from: from, m: m}
				h.recs[tx.Hash().Hex()] = rec
				add(rec, true)
			}
		}
	}
	if h.cfg.contracts && (h.cfg.dawn || h.rnd.Intn(3) == 0) {
		// an embedded contract deployment (2-of-2 multisig): a receipt with gas used and gas cost, coins moved into contract
		// stake - every replica evaluates it again, some of them twice (validate, then insert)
		var rich []int
		stake := new(big.Int).Mul(s.FeePerGas(), big.NewInt(3000000*2))
		if stake.Sign() == 0 {
			stake = sim.Dna(10, 1)
		}
		need := new(big.Int).Add(stake, sim.Dna(300, 1))
		for _, k := range h.funded() {
			if pend[k] == 0 && s.GetBalance(h.w.Addrs[k]).Cmp(need) > 0 {
				rich = append(rich, k)
			}
		}
		if len(rich) > 0 {
			from := h.pick(rich)
			att := attachments.CreateDeployContractAttachment(embedded.MultisigContract, nil, nil, common.ToBytes(byte(2)), common.ToBytes(byte(2)))
			payload, err := att.ToBytes()
			if err != nil {
				panic(err)
			}
			add(h.mkTx(from, types.DeployContractTx, nil, stake, payload, 0, 0, pend), true)
		}
	}
	return res
}

// ---------------------------------------------------------------------------------------------
// blocks

func (h *hist) eligible() []*replica {
	var res []*replica
	vcache := h.ref.n.App.ValidatorsCache
	for k, r := range h.props {
		a := h.w.Addrs[k]
		if vcache.IsOnlineIdentity(a) || (k == h.w.God && vcache.OnlineSize() == 0) {
			res = append(res, r)
		}
	}
	// deterministic order
	for i := 0; i < len(res); i++ {
		for j := i + 1; j < len(res); j++ {
			if res[j].name < res[i].name {
				res[i], res[j] = res[j], res[i]
			}
		}
	}
	return res
}

// preHistory runs the replica's node-local history before it sees the next block.
func (h *hist) preHistory(r *replica, other []byte, blockNo int) string {
	kind := r.kind
	scheduled := false
	if len(h.cfg.sched) > 0 {
		if k, ok := h.cfg.sched[blockNo%len(h.cfg.sched)][r.name]; ok {
			kind, scheduled = k, true
		}
	}
	if kind == "random" {
		kind = []string{"line", "restart", "rollback", "spec", "valins"}[h.rnd.Intn(5)]
		scheduled = true
	}
	rollK := uint64(0)
	if len(kind) == 9 && kind[:8] == "rollback" {
		rollK = uint64(kind[8] - '0')
		kind = "rollback"
	}
	switch kind {
	case "restart":
		if scheduled || h.rnd.Intn(3) == 0 {
			n := r.n.Restart()
			if n.BootErr != nil {
				return "restart-failed:" + n.BootErr.Error()
			}
			r.n = n
			h.attachCeremony(r)
			h.props[r.n.Key] = r
			return "restart"
		}
	case "rollback":
		if head := r.n.Chain.Head.Height(); head > 4 && (scheduled || h.rnd.Intn(4) == 0) {
			k := uint64(1 + h.rnd.Intn(3))
			if rollK > 0 {
				k = rollK
			}
			// roll back k blocks and re-apply the same blocks (fetched from the reference as bytes)
			var blocks [][]byte
			for x := head - k + 1; x <= head; x++ {
				b := h.ref.n.Chain.GetBlockByHeight(x)
				if b == nil {
					return "rollback-skipped"
				}
				blocks = append(blocks, sim.Encode(b))
			}
			if _, err := r.n.Chain.ResetTo(head - k); err != nil {
				return "rollback-failed:" + err.Error()
			}
			r.vc.VerifClearEpochCache()
			if h.pendingEpoch != nil {
				h.pendingEpoch(r)
			}
			for _, b := range blocks {
				if err := r.n.Add(b); err != nil {
					return "reapply-failed:" + err.Error()
				}
			}
			return fmt.Sprintf("rollback%d", k)
		}
	case "spec":
		if other != nil && (scheduled || h.rnd.Intn(2) == 0) {
			// speculative work first: validate a DIFFERENT block for the same height and propose one
			_ = r.n.Validate(other)
			_ = r.n.Chain.ProposeBlock([]byte{})
			return "after-speculation"
		}
	case "valins":
		return "validate-then-insert"
	}
	return "line"
}

// probeProposals re-proposes on the current head many times and counts distinct results (diagnosis of order-dependent
// block application: every call iterates Go maps in a fresh order)
func (h *hist) probeProposals(n int) {
	roots := map[string]int{}
	el := h.eligible()
	for _, prop := range el {
		for i := 0; i < n; i++ {
			h.w.SetNow(prop.n.Chain.Head.Time() + 30)
			p := prop.n.Chain.ProposeBlock([]byte{})
			k := fmt.Sprintf("%s:%x/%x/txs=%d/flags=%d", prop.name, p.Block.Root().Bytes()[:6], p.Block.IdentityRoot().Bytes()[:6], len(p.Block.Body.Transactions), p.Block.Header.Flags())
			roots[k]++
		}
	}
	fmt.Fprintf(os.Stderr, "PROBE height=%d %v\n", h.ref.n.Chain.Head.Height(), roots)
}

func (h *hist) block() bool {
	if pa := os.Getenv("VERIF_PROBE_AT"); pa != "" && fmt.Sprint(h.ref.n.Chain.Head.Height()) == pa {
		h.probeProposals(1500)
	}
	el := h.eligible()
	if len(el) == 0 && h.ref.n.App.ValidatorsCache.OnlineSize() > 0 {
		// the only online identities are ones without a node of their own in this scenario: a stand-in node with the key
		// of the first of them is booted over a copy of the reference database for this one proposal (otherwise the
		// history would degenerate into empty blocks for good)
		vc := h.ref.n.App.ValidatorsCache
		for k := range h.w.Addrs {
			if _, has := h.props[k]; !has && vc.IsOnlineIdentity(h.w.Addrs[k]) {
				n := h.ref.n.Clone(k)
				if n.BootErr != nil {
					panic(n.BootErr)
				}
				st := &replica{name: fmt.Sprintf("standin-k%d", k), n: n, kind: "line"}
				h.attachCeremony(st)
				defer n.Close()
				el = []*replica{st}
				break
			}
		}
	}
	noProposer := len(el) == 0
	if noProposer {
		// none of the proposer-capable replicas is eligible on this state: the network produces an empty block
		el = []*replica{h.ref}
	}
	prop := el[h.rnd.Intn(len(el))]
	height := h.ref.n.Chain.Head.Height() + 1
	epochBlockPre := h.ref.n.App.State.EpochBlock()
	pre := h.prevLed
	empty := noProposer || (h.cfg.graph == nil && !h.cfg.relQuiet && h.rnd.Intn(9) == 0)
	if h.cfg.heavy && !empty && h.cfg.graph == nil && !h.cfg.relQuiet {
		// an EMPTY block changes the identity state too when it lands on a switch boundary with something pending (status,
		// delegation, discrimination switches, delayed penalties): every second such boundary gets no proposal
		st, c := h.ref.n.App.State, h.w.Cons
		boundary := height%uint64(c.StatusSwitchRange) == 0 || height%uint64(c.DelegationSwitchRange) == 0 || height%uint64(c.DiscriminationSwitchRange) == 0
		pending := len(st.StatusSwitchAddresses()) > 0 || len(st.Delegations()) > 0 || len(st.DiscriminationStatusSwitchAddresses()) > 0 || len(st.DelayedOfflinePenalties()) > 0
		if boundary && pending && h.rnd.Intn(2) == 0 {
			empty = true
		}
	}
	if st := h.ref.n.App.State; st.ValidationPeriod() == state.AfterLongSessionPeriod && st.CanCompleteEpoch() {
		// the coming block finishes the validation: the per-identity results (a stand-in for the
		// answers recorded in blocks) are handed to every replica's ceremony before anybody evaluates
		h.fsCatchup("before-epoch")
		h.injectEpoch(height)
		if _, own := h.props[prop.n.Key]; !own || h.props[prop.n.Key] != prop {
			h.pendingEpoch(prop) // a stand-in proposer is not among the replicas the results were handed to
		}
	}
	var fsSigners []int
	fsNeed := 0
	if h.fs != nil {
		fsSigners, fsNeed = h.fsCommittee()
	}
	var subs []tr.M
	var data []byte
	var blk *types.Block
	if empty {
		blk = prop.n.Chain.GenerateEmptyBlock()
		data = sim.Encode(blk)
	} else {
		for _, r := range h.genTxs() {
			var err error
			h.inZone(prop, func() { err = prop.n.Pool.AddExternalTxs(validation.InboundTx, r.tx) })
			// the network gossips a transaction to every node: the other proposer-capable replicas get it too
			for _, o := range h.reps {
				if o != prop && o.n.Chain.Head.Height() == prop.n.Chain.Head.Height() {
					oo := o
					// every node decodes its own copy of a gossiped transaction (flags cached on the object stay node-local)
					cp := new(types.Transaction)
					if raw, err := r.tx.ToBytes(); err != nil || cp.FromBytes(raw) != nil {
						panic("transaction does not survive its own encoding")
					}
					h.inZone(oo, func() { _ = oo.n.Pool.AddExternalTxs(validation.InboundTx, cp) })
				}
			}
			m := tr.M{}
			for k, v := range r.m {
				m[k] = v
			}
			m["pool"] = errClass(err)
			if h.life != nil && err != nil && h.lifeMayInject(r) {
				// lifecycle scenarios: what the honest mempool refused is offered by a proposer whose mempool does not filter,
				// so that the rules a BLOCK has to satisfy are exercised too
				prop.n.Pool.VerifInjectExecutable(r.tx)
				m["injected"] = true
			}
			subs = append(subs, m)
		}
		if h.cfg.replays && h.rnd.Intn(3) == 0 {
			if m := h.injectForbidden(prop); m != nil {
				subs = append(subs, m)
			}
		}
		delay := int64(20 + h.rnd.Intn(100))
		if h.life != nil {
			delay = h.life.delay(h)
		}
		// cross the validation time windows now and then
		if h.cfg.epochs {
			nv := h.ref.n.App.State.NextValidationTime().Unix()
			head := h.ref.n.Chain.Head.Time()
			period := h.ref.n.App.State.ValidationPeriod()
			switch {
			case period == state.NonePeriod && h.cfg.graph != nil && !(h.graphBuilt() || h.blocksInEpoch > 60):
				// keep building the delegation graph
			case period == state.NonePeriod && (h.blocksInEpoch > 24 || h.cfg.heavy && h.blocksInEpoch > 19 || h.cfg.graph != nil) && head < nv-int64(5*60):
				delay = nv - int64(4*60) - head // flip lottery starts
			case period == state.FlipLotteryPeriod:
				delay = maxI(20, nv-head+1)
			case period == state.ShortSessionPeriod:
				delay = maxI(20, nv+int64(2*60)+2-head)
			case period == state.LongSessionPeriod:
				delay = maxI(20, nv+int64(12*60)+2-head)
			}
		}
		if pa := os.Getenv("VERIF_PROBE_PROP"); pa != "" && fmt.Sprint(height) == pa {
			roots := map[string]int{}
			for i := 0; i < 3000; i++ {
				h.w.SetNow(prop.n.Chain.Head.Time() + delay)
				p := prop.n.Chain.ProposeBlock([]byte{})
				k := fmt.Sprintf("%s:%x/%x/txs=%d/flags=%d", prop.name, p.Block.Root().Bytes()[:6], p.Block.IdentityRoot().Bytes()[:6], len(p.Block.Body.Transactions), p.Block.Header.Flags())
				roots[k]++
			}
			fmt.Fprintf(os.Stderr, "PROBE-PROP height=%d %v\n", height, roots)
		}
		if h.life != nil && h.life.craft != nil {
			blk = h.life.craft(prop, delay)
		} else {
			h.inZone(prop, func() { blk = prop.n.Propose(delay) })
		}
		data = sim.Encode(blk)
		if h.life != nil {
			h.lifeSweepPools()
		}
	}
	if h.cfg.replays && !empty && h.rnd.Intn(3) == 0 {
		h.crafted(prop, blk, height)
	}
	if h.cfg.faults && !empty && len(blk.Body.Transactions) > 0 && blk.Header.Flags()&(types.ValidationFinished|types.FlipLotteryStarted|types.ShortSessionStarted|types.LongSessionStarted|types.AfterLongSessionStarted) == 0 && (h.rnd.Intn(4) == 0 || h.changesIdentities(blk)) {
		if h.failedInsert(data, height) {
			// the round is lost (the proposal gets no certificate): the network goes on with the round's empty block; the
			// transactions stay in the pools
			blk = prop.n.Chain.GenerateEmptyBlock()
			data = sim.Encode(blk)
			empty = true
			subs = nil
		}
	}
	// an alternative block for the same height (for the speculative replica)
	var other []byte
	if len(el) > 1 {
		for _, o := range el {
			if o != prop {
				other = sim.Encode(o.n.Chain.GenerateEmptyBlock())
				break
			}
		}
	}
	flags := blk.Header.Flags()
	verdicts := tr.M{}
	obs := tr.M{}
	hists := tr.M{}
	canon := tr.M{}
	for _, r := range h.reps {
		var hs string
		var verr, aerr error
		h.inZone(r, func() {
			hs = h.preHistory(r, other, h.blockNo)
			d0 := sim.DBDigest(r.n.DB)
			root0 := r.n.App.State.Root()
			if hs == "validate-then-insert" || hs == "after-speculation" || h.rnd.Intn(3) == 0 {
				verr = r.n.Validate(data)
				// a read-only query and a speculative proposal must leave the canonical store alone too
				func() {
					defer func() {
						if e := recover(); e != nil {
							h.out.Emit(tr.M{"ev": "ReadonlyPanic", "hid": h.id, "h": height, "replica": r.name, "hist": hs,
								"reorgs": h.nReorgs, "msg": fmt.Sprint(e)[:100]})
						}
					}()
					if ro, err := r.n.App.Readonly(r.n.Chain.Head.Height()); err == nil {
						_ = ro.State.GetBalance(h.w.Addrs[1])
					}
				}()
				canon[r.name] = sim.DBDigest(r.n.DB) == d0 && r.n.App.State.Root() == root0
			}
			aerr = r.n.Add(data)
		})
		v := errClass(aerr)
		if verr != nil {
			v = errClass(verr)
		}
		verdicts[r.name] = v
		hists[r.name] = hs
		obs[r.name] = r.n.Obs()
	}
	if h.ref.n.Chain.Head.Height() != height {
		// diagnosis: is the proposal path itself nondeterministic?  re-propose on the same head many times
		roots := map[string]int{}
		if !blk.IsEmpty() {
			// the refused proposal itself counts: a node whose later proposals on the same head differ from its first one
			// evaluates the same situation differently (node-local state left by the first evaluation)
			roots[fmt.Sprintf("%x/%x/txs=%d/flags=%d", blk.Root().Bytes()[:6], blk.IdentityRoot().Bytes()[:6], len(blk.Body.Transactions), blk.Header.Flags())]++
		}
		for i := 0; i < 60; i++ {
			h.w.SetNow(blk.Header.Time())
			p := prop.n.Chain.ProposeBlock([]byte{})
			p.Block.Header.ProposedHeader.Time = blk.Header.Time()
			k := fmt.Sprintf("%x/%x/txs=%d/flags=%d", p.Block.Root().Bytes()[:6], p.Block.IdentityRoot().Bytes()[:6], len(p.Block.Body.Transactions), p.Block.Header.Flags())
			roots[k]++
		}
		full := tr.M{}
		for _, r := range h.reps {
			err := r.n.Validate(data)
			if err != nil {
				full[r.name] = err.Error()
			}
		}
		var body []tr.M
		for _, tx := range blk.Body.Transactions {
			if rec := h.recs[tx.Hash().Hex()]; rec != nil {
				body = append(body, rec.m)
			}
		}
		// does the VALIDATING path, run by the proposer itself on the very same body, give a block everybody accepts?
		craftedOk := false
		if c, cerr := prop.n.Chain.VerifCraftBlock(blk.Body.Transactions, blk.Header.Time()); cerr == nil {
			craftedOk = true
			cd := sim.Encode(c)
			for _, r := range h.reps {
				if r.n.Chain.Head.Height()+1 == height && r.n.Validate(cd) != nil {
					craftedOk = false
				}
			}
		}
		// what the pool offered beyond the body (transactions the proposer's filter attempted and skipped)
		inBody := map[string]bool{}
		for _, tx := range blk.Body.Transactions {
			inBody[tx.Hash().Hex()] = true
		}
		var skipped []tr.M
		for _, tx := range prop.n.Pool.BuildBlockTransactions() {
			if inBody[tx.Hash().Hex()] {
				continue
			}
			m := tr.M{"type": int(tx.Type), "toHasIdentityRecord": true, "to": ""}
			if tx.To != nil {
				m["to"] = h.w.Name(*tx.To)
				id := h.ref.n.App.State.GetIdentity(*tx.To)
				m["toHasIdentityRecord"] = !(id.State == state.Undefined && common.ZeroOrNil(id.Stake) && len(id.PubKey) == 0 && id.Inviter == nil && len(id.Invitees) == 0)
			}
			skipped = append(skipped, m)
		}
		h.diag = tr.M{"nondet": len(roots) > 1, "sameBodyThroughValidatingPathAccepted": craftedOk, "skipped": skipped}
		h.out.Emit(tr.M{"ev": "Diag", "hid": h.id, "h": height, "reproposals": roots, "errors": full, "body": body, "summary": h.diag,
			"block": fmt.Sprintf("%x/%x/txs=%d", blk.Root().Bytes()[:6], blk.IdentityRoot().Bytes()[:6], len(blk.Body.Transactions))})
	}
	if h.ref.n.Chain.Head.Height() != height {
		// the block was refused by the reference: log it and stop this history
		h.out.Emit(tr.M{"ev": "Block", "hid": h.id, "h": height, "kind": kindOf(blk), "proposer": prop.name, "verdicts": verdicts,
			"hists": hists, "obs": obs, "refused": true, "subs": subs, "canon": canon, "flags": int(flags), "diag": h.diag})
		return false
	}
	h.blocksInEpoch++
	h.blockNo++
	// the ledger after the block: full iteration of the state the node committed (its live state right after the
	// commit, before anything else touches it)
	post := sim.ProjectState(h.w, h.ref.n.App)
	h.ledgers[height] = post
	var txs []tr.M
	for _, tx := range blk.Body.Transactions {
		rec := h.recs[tx.Hash().Hex()]
		if rec == nil {
			panic("included tx that was never submitted")
		}
		txs = append(txs, rec.m)
		h.included = append(h.included, rec)
	}
	epochLen := 0
	if flags.HasFlag(types.ValidationFinished) {
		epochLen = int(height - epochBlockPre)
		h.blocksInEpoch = 0
	}
	line := tr.M{"ev": "Block", "hid": h.id, "h": height, "kind": kindOf(blk), "proposer": h.w.Name(blk.Header.Coinbase()), "flags": int(flags),
		"txs": txs, "subs": subs, "verdicts": verdicts, "hists": hists, "obs": obs, "canon": canon, "refused": false,
		"pre": pre, "post": post, "epochLen": epochLen, "time": blk.Header.Time()}
	h.addViews(line, height)
	if h.life != nil {
		delete(line, "pre") // (nothing that reads lifecycle traces uses it; it is half of a line)
	}
	h.out.Emit(line)
	h.prevLed = post
	h.flagsAt[height] = int(flags)
	var ids []string
	for _, t := range txs {
		ids = append(ids, t["id"].(string))
	}
	h.txsAt[height] = ids
	if h.fs != nil {
		h.fsEnqueue(blk, fsSigners, fsNeed)
		// Replicas.tla schedules the lagging replica too ("lag": stays behind, "sync": catches up now); without a
		// schedule it catches up at random
		k := ""
		if len(h.cfg.sched) > 0 {
			k = h.cfg.sched[(h.blockNo-1)%len(h.cfg.sched)]["fs"]
		}
		if len(h.fs.queue) >= 14 || k == "sync" && h.rnd.Intn(3) == 0 || k == "" && h.rnd.Intn(5) == 0 {
			h.fsCatchup("lag")
		}
	}
	if h.cfg.reorgs && height > 4 && h.rnd.Intn(5) == 0 {
		h.reorg(height)
	}
	return true
}

// changesIdentities: the block carries a transaction that removes an identity (its identity diff is not empty) and was not
// part of a lost round before
func (h *hist) changesIdentities(blk *types.Block) bool {
	if h.lostOnce == nil {
		h.lostOnce = map[common.Hash]bool{}
	}
	hit := false
	for _, tx := range blk.Body.Transactions {
		if (tx.Type == types.KillTx || tx.Type == types.KillInviteeTx || tx.Type == types.KillDelegatorTx) && !h.lostOnce[tx.Hash()] {
			h.lostOnce[tx.Hash()] = true
			hit = true
		}
	}
	return hit
}

// failedInsert: one replica tries to insert the proposal while its content store is failing: the insertion must fail as a
// whole and leave nothing behind (in particular no identity diff that the node would serve for a block it never inserted).
func (h *hist) failedInsert(data []byte, height uint64) bool {
	var cands []*replica
	for _, r := range h.reps {
		if _, ok := r.n.Ipfs.(*sim.FaultIpfs); ok && r.n.Chain.Head.Height()+1 == height {
			cands = append(cands, r)
		}
	}
	if len(cands) == 0 {
		return false
	}
	rf := cands[h.rnd.Intn(len(cands))]
	f := rf.n.Ipfs.(*sim.FaultIpfs)
	f.Arm()
	var err error
	h.inZone(rf, func() { err = rf.n.Chain.AddBlock(sim.Decode(data), nil, collector.NewStatsCollector()) })
	f.Disarm()
	if rf.n.Chain.Head.Height()+1 != height {
		panic(fmt.Sprintf("an insertion with a failing content store moved the head of %s (err=%v)", rf.name, err))
	}
	h.nFailed++
	// AddBlock has committed the state trees of the block before the insertion failed and does not take that back: until it is
	// restarted the node refuses every block of this height (observation outside the listed properties, see DESIGN.md).  The
	// operator restarts the node: start-up drops the tree versions above the head.
	n := rf.n.Restart()
	if n.BootErr != nil {
		panic("restart after a failed insertion: " + n.BootErr.Error())
	}
	rf.n = n
	h.attachCeremony(rf)
	h.props[rf.n.Key] = rf
	h.out.Emit(tr.M{"ev": "FailedInsert", "hid": h.id, "h": height, "replica": rf.name, "err": errClass(err), "restarted": true})
	return true
}

// reorg: the whole network abandons the last k blocks (a fork with a better certificate won); every replica
// switches through the real ResetTo and the history continues with other blocks at those heights.
func (h *hist) reorg(head uint64) {
	k := uint64(1 + h.rnd.Intn(2))
	for x := head - k + 1; x <= head; x++ {
		if h.flagsAt[x]&32 != 0 {
			return // do not cross an epoch boundary (the injected results stand for data of that block)
		}
	}
	to := head - k
	reverted := []string{}
	for x := to + 1; x <= head; x++ {
		reverted = append(reverted, h.txsAt[x]...)
		delete(h.txsAt, x)
		delete(h.flagsAt, x)
		delete(h.ledgers, x)
	}
	h.fsReorg(to)
	status := tr.M{}
	for _, r := range h.reps {
		if r.n.Chain.Head.Height() != head {
			status[r.name] = "behind"
			continue
		}
		_, err := r.n.Chain.ResetTo(to)
		status[r.name] = errClass(err)
	}
	rev := map[string]bool{}
	for _, id := range reverted {
		rev[id] = true
	}
	var keep []*txRec
	for _, rec := range h.included {
		if !rev[rec.id] {
			keep = append(keep, rec)
		}
	}
	h.included = keep
	h.prevLed = h.ledgers[to]
	h.nReorgs++
	h.blocksInEpoch -= int(k)
	obs := tr.M{}
	for _, r := range h.reps {
		obs[r.name] = r.n.Obs()
	}
	h.out.Emit(tr.M{"ev": "Reset", "hid": h.id, "to": to, "from": head, "reverted": reverted, "ledger": h.prevLed, "status": status, "obs": obs})
}

// injectForbidden plays a proposer whose mempool does not filter ("whatever the mempool holds"): a transaction that
// must never be applied - an already included one, one signed for another epoch, one with a non-consecutive nonce -
// is put straight into the executable queue of the proposer's REAL pool.  The block is then built by the real
// BuildBlockTransactions / ProposeBlock; if the node's own application rules let the transaction through, it ends up
// in a block every replica accepts and the ledger clauses (NoDouble / EpochMatch / Consecutive) see it.
func (h *hist) injectForbidden(prop *replica) tr.M {
	var rec *txRec
	what := ""
	switch h.rnd.Intn(4) {
	case 0:
		if len(h.included) == 0 {
			return nil
		}
		old := h.included[h.rnd.Intn(len(h.included))]
		rec, what = &txRec{id: old.id, tx: old.tx, from: old.from, m: old.m}, "replay"
	case 1, 2:
		fs := h.funded()
		if len(fs) == 0 {
			return nil
		}
		from := h.pick(fs)
		to := h.w.Addrs[1+h.rnd.Intn(8)]
		eadj := 1
		if h.ref.n.App.State.Epoch() > 0 && h.rnd.Intn(2) == 0 {
			eadj = -1
		}
		rec, what = h.mkTx(from, types.SendTx, &to, sim.Dna(int64(1+h.rnd.Intn(9)), 1), nil, 0, eadj, map[int]uint32{}), "foreign-epoch"
		if eadj == 1 && h.rnd.Intn(2) == 0 {
			// first transaction of the NEXT epoch (nonce 1)
			rec = h.mkTx(from, types.SendTx, &to, sim.Dna(int64(1+h.rnd.Intn(9)), 1), nil, -int(mustNonce(h, from)), 1, map[int]uint32{})
		}
	default:
		fs := h.funded()
		if len(fs) == 0 {
			return nil
		}
		from := h.pick(fs)
		to := h.w.Addrs[1+h.rnd.Intn(8)]
		if h.rnd.Intn(3) == 0 {
			// one below the next nonce (zero for a sender whose account carries an older epoch)
			rec, what = h.mkTx(from, types.SendTx, &to, sim.Dna(1, 1), nil, -1, 0, map[int]uint32{}), "nonce-low"
		} else {
			rec, what = h.mkTx(from, types.SendTx, &to, sim.Dna(1, 1), nil, 1+h.rnd.Intn(2), 0, map[int]uint32{}), "nonce-gap"
		}
	}
	prop.n.Pool.VerifInjectExecutable(rec.tx)
	m := tr.M{}
	for k, v := range rec.m {
		m[k] = v
	}
	m["pool"] = "injected:" + what
	return m
}

func mustNonce(h *hist, from int) uint32 {
	n, _ := h.nextNonce(from)
	return n
}

// crafted offers every replica a copy of an honest proposal whose body additionally carries a transaction
// that must never be applied: an already included one (replay), one signed for another epoch, one with a
// non-consecutive nonce.  The transaction commitment is recomputed so that only the strict processing of the
// body can refuse it.
func (h *hist) crafted(prop *replica, honest *types.Block, height uint64) {
	s := h.ref.n.App.State
	var extra *types.Transaction
	what := ""
	var id string
	switch h.rnd.Intn(5) {
	case 0:
		if len(h.included) == 0 {
			return
		}
		old := h.included[h.rnd.Intn(len(h.included))]
		extra, what, id = old.tx, "replayed-tx-in-block", old.id
	case 4:
		// a transaction with NEW content (the victim's coins go to the attacker, the victim's next nonce) that carries the
		// signature bytes of a transaction the victim really signed and the network has just processed: the signature does
		// not cover this content, whoever is "recovered" from it is not the victim
		if len(h.included) == 0 {
			return
		}
		old := h.included[len(h.included)-1-h.rnd.Intn(minI(len(h.included), 6))]
		victim := old.from
		bal := h.ref.n.App.State.GetBalance(h.w.Addrs[victim])
		if bal.Cmp(sim.Dna(300, 1)) < 0 {
			return
		}
		n, ep := h.nextNonce(victim)
		thief := h.w.Addrs[8]
		t2 := h.w.Tx(sim.TxSpec{From: victim, To: &thief, Type: types.SendTx, Amount: new(big.Int).Sub(bal, sim.Dna(200, 1)), MaxFee: sim.Dna(100, 1), Nonce: n + 1, Epoch: ep})
		t2.Signature = append([]byte(nil), old.tx.Signature...)
		raw, err := t2.ToBytes()
		forged := new(types.Transaction)
		if err != nil || forged.FromBytes(raw) != nil {
			return
		}
		extra, what, id = forged, "forged-signature-tx-in-block", "craft"
	case 3:
		// a nonce BELOW the next one: the number the sender used last (another transaction with it), or nonce zero - for a
		// sender whose account carries an older epoch (or none) the number "used last" IS zero, and the only guard is the
		// strict check at application.  Senders with a stale account are preferred.
		fs := h.funded()
		if len(fs) == 0 {
			return
		}
		from := h.pick(fs)
		for i := 0; i < 8; i++ {
			c := h.pick(fs)
			if st := h.ref.n.App.State; st.GetEpoch(h.w.Addrs[c]) < st.Epoch() {
				from = c
				break
			}
		}
		to := h.w.Addrs[1]
		n, ep := h.nextNonce(from)
		low := n
		if n > 1 && h.rnd.Intn(3) == 0 {
			low = 0
		}
		amount := sim.Dna(1, 1)
		if h.rnd.Intn(3) == 0 {
			// sweep: everything but the fee (an emptied account is pruned together with its epoch stamp)
			if b := new(big.Int).Sub(h.ref.n.App.State.GetBalance(h.w.Addrs[from]), sim.Dna(100, 1)); b.Sign() > 0 {
				amount = b
			}
		}
		extra = h.w.Tx(sim.TxSpec{From: from, To: &to, Type: types.SendTx, Amount: amount, MaxFee: sim.Dna(100, 1), Nonce: low, Epoch: ep})
		what, id = "nonce-low-tx-in-block", "craft"
		if low == 0 {
			what = "nonce-zero-tx-in-block"
		}
	case 1:
		fs := h.funded()
		if len(fs) == 0 {
			return
		}
		from := h.pick(fs)
		to := h.w.Addrs[1]
		n, ep := h.nextNonce(from)
		wrong := ep + 1
		if ep > 0 && h.rnd.Intn(2) == 0 {
			wrong = ep - 1
		}
		extra = h.w.Tx(sim.TxSpec{From: from, To: &to, Type: types.SendTx, Amount: sim.Dna(1, 1), MaxFee: sim.Dna(100, 1), Nonce: n + 1, Epoch: wrong})
		what, id = "foreign-epoch-tx-in-block", "craft"
	default:
		fs := h.funded()
		if len(fs) == 0 {
			return
		}
		from := h.pick(fs)
		to := h.w.Addrs[1]
		n, ep := h.nextNonce(from)
		extra = h.w.Tx(sim.TxSpec{From: from, To: &to, Type: types.SendTx, Amount: sim.Dna(1, 1), MaxFee: sim.Dna(100, 1), Nonce: n + 2 + uint32(h.rnd.Intn(2)), Epoch: ep})
		what, id = "nonce-gap-tx-in-block", "craft"
	}
	// the sender of the extra tx must not already have txs in the honest body (keeps the case crisp)
	es, _ := types.Sender(extra)
	for _, tx := range honest.Body.Transactions {
		if a, _ := types.Sender(tx); a == es {
			return
		}
	}
	_ = s
	// the block a malicious proposer would offer: honest body + the forbidden transaction, every derived header field
	// computed by the node's own functions (VerifCraftBlock runs the body through the strict processTxs first)
	body := append(append([]*types.Transaction(nil), honest.Body.Transactions...), extra)
	verdicts := tr.M{}
	c, cerr := prop.n.Chain.VerifCraftBlock(body, honest.Header.Time())
	if cerr != nil {
		verdicts["crafting-node"] = errClass(cerr)
	} else {
		data := sim.Encode(c)
		for _, r := range h.reps {
			if r.n.Chain.Head.Height()+1 != height {
				continue
			}
			var err error
			h.inZone(r, func() { err = r.n.Validate(data) })
			verdicts[r.name] = errClass(err)
		}
	}
	h.out.Emit(tr.M{"ev": "Crafted", "hid": h.id, "h": height, "what": what, "tx": id, "verdicts": verdicts})
}

func kindOf(b *types.Block) string {
	if b.IsEmpty() {
		return "empty"
	}
	return "proposed"
}

func minI(a, b int) int {
	if a < b {
		return a
	}
	return b
}

func maxI(a, b int64) int64 {
	if a > b {
		return a
	}
	return b
}

// injectEpoch chooses per-identity validation outcomes (seeded) and hands the SAME values to the
// ceremony of every replica, as data recorded in blocks would be.
func (h *hist) injectEpoch(height uint64) {
	s := h.ref.n.App.State
	var outs []ceremony.VerifOutcome
	s.IterateOverIdentities(func(addr common.Address, id state.Identity) {
		if id.State == state.Undefined || id.State == state.Killed {
			return
		}
		o := ceremony.VerifOutcome{Addr: addr, PrevState: uint8(id.State), Birthday: id.Birthday, Delegatee: id.Delegatee()}
		ns := id.State
		switch id.State {
		case state.Invite:
			ns = state.Killed
		case state.Candidate:
			ns = []state.IdentityState{state.Newbie, state.Killed, state.Newbie}[h.rnd.Intn(3)]
			o.Birthday = s.Epoch() + 1
		case state.Newbie:
			ns = []state.IdentityState{state.Newbie, state.Verified, state.Killed, state.Verified}[h.rnd.Intn(4)]
		case state.Verified:
			ns = []state.IdentityState{state.Verified, state.Human, state.Suspended, state.Verified, state.Killed}[h.rnd.Intn(5)]
		case state.Human:
			ns = []state.IdentityState{state.Human, state.Suspended, state.Human}[h.rnd.Intn(3)]
		case state.Suspended:
			ns = []state.IdentityState{state.Verified, state.Zombie, state.Newbie}[h.rnd.Intn(3)]
		case state.Zombie:
			ns = []state.IdentityState{state.Verified, state.Killed}[h.rnd.Intn(2)]
		}
		if addr == h.w.Addrs[0] && !ns.NewbieOrBetter() {
			ns = state.Verified // keep the god identity able to propose
		}
		if h.cfg.relQuiet && id.State.NewbieOrBetter() {
			ns = id.State
			if id.State == state.Newbie {
				ns = state.Verified
			}
		}
		if h.cfg.graph != nil && id.State == state.Candidate {
			ns = state.Newbie // every member of the delegation graph is validated in the same epoch
			o.Birthday = s.Epoch() + 1
		}
		if h.cfg.big && h.w.Index(addr) >= 24 {
			// the crowd of a big genesis stays validated (network size stays above the small-network branch)
			if h.rnd.Intn(20) != 0 {
				ns = id.State
			}
		}
		o.State = uint8(ns)
		o.Missed = !ns.NewbieOrBetter() && h.rnd.Intn(2) == 0
		o.Participated = !o.Missed
		o.ShortFlipPoint = float32(h.rnd.Intn(7))
		o.ShortQualifiedFlipsCount = 6
		outs = append(outs, o)
	})
	if h.cfg.heavy && !h.cfg.relQuiet && h.cfg.graph == nil {
		// pools at an epoch end: every second time a validated pool OWNER loses its validation while one of its
		// delegators keeps it (the owner's registry entry then becomes {not validated, still online}: the one stored
		// entry that is updated rather than deleted)
		idx := map[common.Address]int{}
		for i, o := range outs {
			idx[o.Addr] = i
		}
		owners := map[common.Address][]int{}
		for i, o := range outs {
			if o.Delegatee != nil && state.IdentityState(o.PrevState).NewbieOrBetter() {
				owners[*o.Delegatee] = append(owners[*o.Delegatee], i)
			}
		}
		var keys []common.Address
		for a := range owners {
			keys = append(keys, a)
		}
		sort.Slice(keys, func(i, j int) bool { return bytes.Compare(keys[i][:], keys[j][:]) < 0 })
		for _, a := range keys {
			oi, ok := idx[a]
			if !ok || a == h.w.Addrs[0] || !state.IdentityState(outs[oi].PrevState).NewbieOrBetter() {
				continue
			}
			// an online owner always, an offline one every second time
			if !h.ref.n.App.ValidatorsCache.IsOnlineIdentity(a) && h.rnd.Intn(2) != 0 {
				continue
			}
			lost := state.Suspended
			if state.IdentityState(outs[oi].PrevState) == state.Newbie {
				lost = state.Killed
			}
			outs[oi].State, outs[oi].Missed, outs[oi].Participated = uint8(lost), true, false
			di := owners[a][h.rnd.Intn(len(owners[a]))]
			outs[di].State, outs[di].Missed, outs[di].Participated = outs[di].PrevState, false, true
			h.out.Emit(tr.M{"ev": "EpochPoolOwnerLoses", "hid": h.id, "h": height, "owner": h.w.Name(a), "online": h.ref.n.App.ValidatorsCache.IsOnlineIdentity(a),
				"delegators": len(owners[a])})
		}
		h.out.Emit(tr.M{"ev": "EpochPools", "hid": h.id, "h": height, "pools": len(keys)})
	}
	epoch, shards := s.Epoch(), int(s.ShardsNum())
	var full map[common.ShardId]*types.ValidationResults
	if h.life != nil && h.life.epoch != nil {
		outs, full = h.life.epoch(h, outs)
	}
	h.pendingEpoch = func(r *replica) {
		cp := make([]ceremony.VerifOutcome, len(outs))
		copy(cp, outs)
		if full != nil {
			r.vc.VerifSetEpochResultFull(height, epoch, cp, lifeCopyResults(full, shards), false)
			return
		}
		r.vc.VerifSetEpochResult(height, epoch, shards, cp, nil, false)
	}
	for _, r := range h.reps {
		h.pendingEpoch(r)
	}
	if h.fs != nil {
		h.pendingEpoch(h.fs.r)
	}
}

func main() {
	out := flag.String("out", "", "trace output")
	nh := flag.Int("histories", 3, "number of histories")
	nb := flag.Int("blocks", 40, "blocks per history")
	big := flag.Bool("big", false, "one history with a genesis of > 300 identities")
	epochs := flag.Bool("epochs", true, "drive validation periods and epoch transitions")
	schedFile := flag.String("sched", "", "history-shape schedules exported by TLC (json lines)")
	replays := flag.Bool("replays", false, "offer crafted blocks that re-include / mis-sign transactions")
	doubleDeleg := flag.Bool("double-delegate", false, "run the minimal double-DelegateTx scenario first (history id 900)")
	only := flag.Int("only", -1, "run only the history with this index (same seeds and schedules as in a full run)")
	relFile := flag.String("rel", "", "relationship attempt paths exported by TLC from Relations.tla (json lines)")
	lifeFile := flag.String("life", "", "identity-lifecycle paths exported by TLC from Lifecycle.tla (json lines)")
	graphFile := flag.String("graphs", "", "delegation graphs exported by TLC from EpochLoop.tla (json lines); one history per graph")
	heavy := flag.Bool("identity-heavy", false, "bias the generator towards identity-changing events")
	filterFile := flag.String("filter", "", "filter scenarios exported by TLC from Filter.tla (json lines)")
	gasFile := flag.String("gas", "", "gas-boundary transaction lists exported by TLC from Gas.tla (json lines)")
	fsync := flag.Bool("fsync", false, "add a replica that falls behind and catches up through the real full-sync code")
	contracts := flag.Bool("contracts", false, "the generator also deploys embedded contracts; one more history (id 800) on a network before its first validation (nobody validated)")
	faults := flag.Bool("faults", false, "now and then a replica's insertion of a proposal fails (content-store fault) and the round is lost")
	reorgs := flag.Bool("reorgs", false, "the network switches forks now and then (real ResetTo on every replica)")
	flag.Parse()
	var scheds []schedule
	if *schedFile != "" {
		tr.ReadLines(*schedFile, func(raw []byte) {
			var x struct {
				Sched [][][2]string `json:"sched"`
			}
			if err := json.Unmarshal(raw, &x); err != nil {
				panic(err)
			}
			var sc schedule
			for _, blk := range x.Sched {
				m := map[string]string{}
				for _, p := range blk {
					m[p[0]] = p[1]
				}
				sc = append(sc, m)
			}
			scheds = append(scheds, sc)
		})
	}
	defer sim.Cleanup()
	w := tr.Create(*out)
	defer w.Close()
	seed := tr.Seed()
	if *relFile != "" {
		paths, blocks := runRelations(*relFile, seed, w)
		fmt.Fprintf(os.Stderr, "histories=%d blocks=%d refused=0 lines=%d\n", paths, blocks, w.N)
		return
	}
	if *filterFile != "" {
		n, blocks, real := runFilter(*filterFile, seed, w)
		fmt.Fprintf(os.Stderr, "histories=%d blocks=%d refused=0 realised=%d lines=%d\n", n, blocks, real, w.N)
		return
	}
	if *lifeFile != "" {
		runLife(*lifeFile, seed, w)
		return
	}
	if *gasFile != "" {
		n, blocks := runGas(*gasFile, seed, w)
		fmt.Fprintf(os.Stderr, "histories=%d blocks=%d refused=0 lines=%d\n", n, blocks, w.N)
		return
	}
	blocks, refused := 0, 0
	if *doubleDeleg {
		// minimal reproduction of the filter side effect: a validated identity submits two DelegateTx with consecutive
		// nonces, the second one to an address that has no identity record; every pool admits both, the proposer's filter
		// includes the first and skips the second
		cfg := &scenCfg{blocks: 12, epochs: false, nProposers: 6, relQuiet: true}
		h := newHist(seed, 900, cfg, w)
		h.start()
		for b := 0; b < 3; b++ {
			h.forced = []*txRec{}
			h.block()
		}
		pend := map[int]uint32{}
		t1, t2 := h.w.Addrs[2], h.w.Addrs[20]
		r1 := h.mkTx(1, types.DelegateTx, &t1, nil, nil, 0, 0, pend)
		pend[1]++
		r2 := h.mkTx(1, types.DelegateTx, &t2, nil, nil, 0, 0, pend)
		h.forced = []*txRec{r1, r2}
		if h.block() {
			blocks++
		} else {
			refused++
		}
		blocks += 3
	}
	var graphs [][][2]int
	if *graphFile != "" {
		tr.ReadLines(*graphFile, func(raw []byte) {
			var x struct {
				Graph [][2]int `json:"graph"`
			}
			if err := json.Unmarshal(raw, &x); err != nil {
				panic(err)
			}
			graphs = append(graphs, x.Graph)
		})
		*nh = len(graphs)
	}
	for i := 0; i < *nh; i++ {
		if *only >= 0 && i != *only {
			continue
		}
		cfg := &scenCfg{blocks: *nb, epochs: *epochs, nProposers: 6, big: *big && i == 0, replays: *replays, heavy: *heavy, reorgs: *reorgs, fsync: *fsync, faults: *faults, contracts: *contracts}
		if len(scheds) > 0 {
			cfg.sched = scheds[i%len(scheds)]
		}
		if len(graphs) > 0 {
			cfg.graph = graphs[i]
			cfg.big = false
		}
		h := newHist(seed, i, cfg, w)
		h.start()
		for b := 0; b < cfg.blocks; b++ {
			if cfg.graph != nil && h.ref.n.App.State.Epoch() > 0 && h.blocksInEpoch > 3 {
				break
			}
			if !h.block() {
				refused++
				break
			}
			blocks++
		}
		h.fsCatchup("end")
		h.finish()
	}
	if *contracts && *only < 0 {
		// a network before its first validation: nobody is validated (network size 0: the size fee of every transaction is
		// zero while contract gas still costs), the god address proposes every block
		cfg := &scenCfg{blocks: 40, epochs: false, nProposers: 6, contracts: true, dawn: true}
		if len(scheds) > 0 {
			cfg.sched = scheds[0]
		}
		h := newHist(seed, 800, cfg, w)
		h.start()
		for b := 0; b < cfg.blocks; b++ {
			if !h.block() {
				refused++
				break
			}
			blocks++
		}
		// (no follower replay: without validated identities the identity state has no version to start from)
	}
	_ = collector.NewStatsCollector
	fmt.Fprintf(os.Stderr, "histories=%d blocks=%d refused=%d lines=%d\n", *nh, blocks, refused, w.N)
}
