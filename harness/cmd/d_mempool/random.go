package main

import (
	"math/rand"

	"github.com/idena-network/idena-go/blockchain/types"

	"verifh/internal/tr"
)

func pick(rnd *rand.Rand, xs ...int) int { return xs[rnd.Intn(len(xs))] }

// sameSlot returns the description of a transaction with the same (sender, epoch, nonce) that is
// waiting in the pending set or in the deferred queue, if any: two different transactions competing
// for one slot of the pending set are promoted in map order, which the prediction cannot follow, so
// the generator re-submits the waiting one instead (a duplicate submission, also worth having).
func (r *rig) sameSlot(d txd) (txd, bool) {
	snap := r.a.Pool.VerifSnapshot()
	match := func(t *types.Transaction) (txd, bool) {
		u := r.byHash[t.Hash()]
		if u != nil && u.d.S == d.S && u.d.E == d.E && u.d.N == d.N {
			return u.d, true
		}
		return txd{}, false
	}
	for _, t := range snap.Pending[r.addr(d.S)] {
		if x, ok := match(t); ok {
			return x, true
		}
	}
	for _, h := range snap.KnownDeferred {
		if x, ok := match(r.byHash[h].tx); ok {
			return x, true
		}
	}
	return txd{}, false
}

// next returns the committed base nonce of a sender and the nonce that would continue its queue.
func (r *rig) next(s int) (int, int) {
	ro := r.ro()
	base := int(ro.State.GetNonce(r.addr(s)))
	if ro.State.GetEpoch(r.addr(s)) < ro.State.Epoch() {
		base = 0
	}
	snap := r.a.Pool.VerifSnapshot()
	q := snap.Executable[r.addr(s)]
	if len(q) > 0 {
		return base, int(q[len(q)-1].AccountNonce) + 1
	}
	return base, base + 1
}

func (r *rig) randomTx(rnd *rand.Rand, s int, busy bool) txd {
	ep, per := r.period()
	base, nx := r.next(s)
	d := txd{S: s, E: ep}
	switch x := rnd.Intn(100); {
	case x < 55:
		d.N = nx
	case x < 75:
		d.N = nx + 1 + rnd.Intn(3)
	case x < 85:
		if nx-base > 0 {
			d.N = base + 1 + rnd.Intn(nx-base)
		} else {
			d.N = base + 1
		}
	case x < 95:
		d.N = 1 + rnd.Intn(base+1)
	default:
		d.N = 1 + rnd.Intn(12)
	}
	switch x := rnd.Intn(100); {
	case x < 6:
		d.E = ep + 1
	case x < 12 && ep > 0:
		d.E = ep - 1
	}
	pri := 8
	if per != 0 {
		pri = 40
	}
	if rnd.Intn(100) < pri {
		d.K = 1 + rnd.Intn(4)
	}
	fat := 15
	if busy {
		fat = 40
	}
	if d.K != 1 && rnd.Intn(100) < fat {
		d.Fat = pick(rnd, 120, 180, 250, 330)
	}
	if rnd.Intn(100) < 12 {
		d.V = 1
	}
	if x, ok := r.sameSlot(d); ok {
		d = x
	}
	return d
}

// foreignFeed chooses what the other proposer's pool holds: for one or two senders the next one or
// two nonces, either the very transactions this pool knows for those nonces or different ones.
func (r *rig) foreignFeed(rnd *rand.Rand) []txd {
	ep, _ := r.period()
	snap := r.a.Pool.VerifSnapshot()
	var f []txd
	for i := 0; i < 1+rnd.Intn(2); i++ {
		s := 1 + rnd.Intn(r.c.Ns)
		base, _ := r.next(s)
		for n := base + 1; n <= base+1+rnd.Intn(2); n++ {
			d := txd{S: s, N: n, E: ep, V: 1}
			if rnd.Intn(2) == 0 {
				known := append(append([]*types.Transaction{}, snap.Executable[r.addr(s)]...), snap.Pending[r.addr(s)]...)
				for _, t := range known {
					if u := r.byHash[t.Hash()]; u != nil && u.d.N == n && u.d.E == ep {
						d = u.d
					}
				}
			}
			f = append(f, d)
		}
	}
	return f
}

func runRandom(seed int64, rnd *rand.Rand, n int, w *tr.W, id int) {
	ns := 3 + rnd.Intn(3)
	// mode 0: general; 1: walks through the ceremony into the next epoch; 2: long queues of heavy
	// transactions without limits (the block gas cap decides)
	mode := pick(rnd, 0, 0, 1, 1, 2)
	c := &cased{Kind: "random", Ns: ns}
	c.Cfg = cfgd{El: pick(rnd, 0, 2, 3, 4, 6), Pl: pick(rnd, 0, 1, 2, 3), Qs: pick(rnd, 0, 0, 1, 2, 3), Es: pick(rnd, 0, 0, 2, 3, 4),
		Cb: pick(rnd, 0, 1+rnd.Intn(ns)), Ric: rnd.Intn(8) == 0}
	if mode == 2 {
		c.Cfg.El, c.Cfg.Es = pick(rnd, 0, 0, 12), 0
	}
	if rnd.Intn(2) == 0 {
		c.Poor = 1 + rnd.Intn(ns)
		if c.Poor == c.Cfg.Cb {
			c.Poor = 0
		}
	}
	r := newRig(seed, c)
	switch rnd.Intn(10) {
	case 0, 1, 2:
		r.do(opd{Op: "Init", Per: 3})
	case 3:
		r.do(opd{Op: "Init", Per: 1})
	case 4:
		r.do(opd{Op: "Init", Per: 2})
	}
	busy := 1 + rnd.Intn(ns)
	sender := func() int {
		if rnd.Intn(3) == 0 {
			return busy
		}
		return 1 + rnd.Intn(ns)
	}
	wAdd, wBurst, wBlock, wBuild := 50, 8, 20, 12 // the rest: sync toggles
	if mode == 2 {
		wAdd, wBurst, wBlock, wBuild = 25, 30, 20, 20
	}
	for i := 0; i < n; i++ {
		_, per := r.period()
		switch x := rnd.Intn(100); {
		case x < wAdd:
			s := sender()
			d := r.randomTx(rnd, s, s == busy || mode == 2)
			r.add(d, s == c.Cfg.Cb && rnd.Intn(2) == 0)
		case x < wAdd+wBurst:
			// a burst of in-order submissions of one sender (long queues: the block gas cap matters)
			s := sender()
			ep, _ := r.period()
			for k := 0; k < 3+rnd.Intn(4); k++ {
				_, nx := r.next(s)
				d := txd{S: s, N: nx, E: ep}
				if rnd.Intn(3) > 0 {
					d.Fat = pick(rnd, 120, 180, 250, 330)
				}
				if k > 0 && per != 0 && rnd.Intn(4) == 0 {
					d.K = pick(rnd, 1, 2, 4) // a ceremony transaction behind a chain of regular ones
				}
				if x, ok := r.sameSlot(d); ok {
					d = x
				}
				r.add(d, false)
			}
		case x < wAdd+wBurst+wBlock:
			advP := 5
			if mode == 1 {
				advP = 25
			}
			if per == 1 || per == 2 {
				advP = 60 // regular transactions are refused in these periods: do not linger
			}
			adv := rnd.Intn(100) < advP
			if ep, per := r.period(); adv && per == 4 && ep >= 2 {
				adv = false
			}
			if r.syncing || rnd.Intn(100) < 30 {
				r.block(adv, true, r.foreignFeed(rnd))
			} else {
				r.block(adv, false, nil)
			}
		case x < wAdd+wBurst+wBlock+wBuild:
			r.build()
		default:
			if r.syncing {
				if rnd.Intn(2) == 0 {
					r.stopSync()
				}
			} else if rnd.Intn(3) == 0 {
				r.startSync()
			}
		}
	}
	if r.syncing {
		r.stopSync()
	}
	r.build()
	r.block(false, false, nil)
	r.build()
	r.flush(w, id)
}
