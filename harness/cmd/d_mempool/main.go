// d_mempool drives the real transaction pool (core/mempool.TxPool attached to a real chain) for C14.
//
// Sequential part (-cases / -random): every scenario is a sequence of operations
//
//	Add(tx, own)     AddExternalTxs(InboundTx, tx) / AddInternalTx(tx)
//	Block(adv, f)    a real block is proposed (by this node from its own pool, or - "foreign" - by a
//	                 second node whose pool was fed with f) and added to the chain of both nodes;
//	                 adv chooses the block time so that the next validation period starts
//	Build            BuildBlockTransactions()
//	StartSync/StopSync   Blockchain.StartSync / StopSync (what the downloader calls)
//
// exported by TLC from spec/MC_Mempool or generated at random (seeded, larger sizes, generated on
// the fly so that nonces stay meaningful).  After every call the driver logs what a user of the pool
// can see (GetTx for every transaction of the scenario, GetPendingByAddress for every sender), the
// queues (verif snapshot shim), the committed ledger (epoch, period, account nonce/epoch) and which
// transactions the ledger's own validation rejects on the new state.  The trace is judged by TLC
// against spec/Trace_MempoolAbs.tla.
//
// Concurrent part (-conc): N goroutines submit, one produces blocks, one builds, one toggles sync,
// one reads; the binary is built with -race.  A race report, a panic or the watchdog firing is the
// finding; at quiescence the pool is observed and judged by the same trace specification.
package main

import (
	"encoding/json"
	"flag"
	"fmt"
	"math/big"
	"math/rand"
	"os"
	"sort"
	"time"

	"github.com/idena-network/idena-go/blockchain/attachments"
	"github.com/idena-network/idena-go/blockchain/fee"
	"github.com/idena-network/idena-go/blockchain/types"
	"github.com/idena-network/idena-go/blockchain/validation"
	"github.com/idena-network/idena-go/common"
	"github.com/idena-network/idena-go/core/appstate"
	"github.com/idena-network/idena-go/core/state"
	"github.com/idena-network/idena-go/stats/collector"
	"github.com/pkg/errors"

	"verifh/internal/sim"
	"verifh/internal/tr"
)

type txd struct {
	S   int `json:"s"`
	N   int `json:"n"`
	E   int `json:"e"`
	K   int `json:"k"`
	V   int `json:"v"`
	Fat int `json:"fat"` // 0 = plain, > 0: gas target in 1/1000 of the block gas cap
}

type opd struct {
	Op      string `json:"op"`
	Tx      *txd   `json:"tx,omitempty"`
	Own     bool   `json:"own,omitempty"`
	Adv     bool   `json:"adv,omitempty"`
	Foreign bool   `json:"foreign,omitempty"`
	F       []txd  `json:"f,omitempty"`
	Ep      int    `json:"ep,omitempty"`
	Per     int    `json:"per,omitempty"`
}

type cfgd struct {
	El  int  `json:"el"`
	Pl  int  `json:"pl"`
	Qs  int  `json:"qs"`
	Es  int  `json:"es"`
	Cb  int  `json:"cb"`
	Ric bool `json:"ric"`
}

type cased struct {
	Kind string `json:"kind"`
	Ns   int    `json:"ns"`
	Gcap int    `json:"gcap"` // > 0: every transaction (except kind 1) weighs 1/gcap of the block gas cap
	Poor int    `json:"poor"` // sender with a small balance (0 = none)
	Cfg  cfgd   `json:"cfg"`
	Ops  []opd  `json:"ops"`
}

type utx struct {
	id  int
	d   txd
	tx  *types.Transaction
	gas int
}

const (
	firstCeremony = 1000000
	interval      = 2000000
	lotteryDur    = 100000
	shortDur      = 100000
	longDur       = 100000
)

type rig struct {
	w         *sim.World
	a, b      *sim.Node
	c         *cased
	txs       []*utx
	byKey     map[txd]*utx
	byHash    map[common.Hash]*utx
	lines     []tr.M
	prevAny   map[int]bool
	realCap   uint64
	minFee    *big.Int
	syncing   bool
	incl      map[int]bool
	recipient common.Address
}

func (r *rig) keyOf(s int) int {
	if s == r.c.Cfg.Cb {
		return 0
	}
	return s + 1
}

func (r *rig) addr(s int) common.Address { return r.w.Addrs[r.keyOf(s)] }

func epochFn(height uint64, app *appstate.AppState, c collector.StatsCollector) types.TotalValidationResult {
	return types.TotalValidationResult{
		IdentitiesCount:    app.ValidatorsCache.NetworkSize(),
		ShardResults:       map[common.ShardId]*types.ValidationResults{},
		Pools:              map[common.Address]struct{}{},
		NonValidatedStakes: map[common.Address]*big.Int{},
		Failed:             true,
	}
}

func newRig(seed int64, c *cased) *rig {
	w := sim.NewWorld(seed, c.Ns+2)
	w.FirstCeremony = firstCeremony
	w.ValCfg.ValidationInterval = interval * time.Second
	w.ValCfg.FlipLotteryDuration = lotteryDur * time.Second
	w.ValCfg.ShortSessionDuration = shortDur * time.Second
	w.ValCfg.LongSessionDuration = longDur * time.Second
	mp := *w.Mempool
	mp.TxPoolAddrExecutableLimit = c.Cfg.El
	mp.TxPoolAddrQueueLimit = c.Cfg.Pl
	mp.TxPoolQueueSlots = c.Cfg.Qs
	mp.TxPoolExecutableSlots = c.Cfg.Es
	mp.ResetInCeremony = c.Cfg.Ric
	w.Mempool = &mp
	r := &rig{w: w, c: c, byKey: map[txd]*utx{}, byHash: map[common.Hash]*utx{}, prevAny: map[int]bool{}, incl: map[int]bool{}}
	rich := sim.Dna(1000000000, 1)
	w.Allocs = []sim.Alloc{{Key: 0, State: state.Verified, Balance: rich, Stake: sim.Dna(1000, 1)}}
	sts := []state.IdentityState{state.Verified, state.Newbie, state.Human, state.Candidate, state.Verified}
	for s := 1; s <= c.Ns; s++ {
		k := r.keyOf(s)
		if k == 0 {
			continue
		}
		bal := rich
		if s == c.Poor {
			bal = sim.Dna(40, 1)
		}
		w.Allocs = append(w.Allocs, sim.Alloc{Key: k, State: sts[(s-1)%len(sts)], Balance: bal, Stake: sim.Dna(10, 1)})
	}
	r.recipient = w.Addrs[1]
	r.a = w.NewNode(0)
	r.b = w.NewNode(0)
	if r.a.BootErr != nil || r.b.BootErr != nil {
		panic(fmt.Sprint("boot: ", r.a.BootErr, r.b.BootErr))
	}
	r.a.Chain.ProvideApplyNewEpochFunc(epochFn)
	r.b.Chain.ProvideApplyNewEpochFunc(epochFn)
	r.realCap = types.MaxBlockSize(w.Cons.EnableUpgrade11)
	r.minFee = fee.GetFeePerGasForNetwork(r.a.App.ValidatorsCache.NetworkSize())
	return r
}

func (r *rig) ro() *appstate.AppState {
	ro, err := r.a.App.Readonly(r.a.Chain.Head.Height())
	if err != nil {
		panic(err)
	}
	return ro
}

// tx returns (creating it on first use) the real signed transaction of a description.
func (r *rig) tx(d txd) *utx {
	if r.c.Gcap > 0 && d.K != 1 && d.Fat == 0 {
		d.Fat = 1000/r.c.Gcap - 8 // gcap of them fit under the cap, gcap+1 do not
	}
	if d.K == 1 {
		d.Fat = 0 // the payload of this type is fixed (a hash)
	}
	if u, ok := r.byKey[d]; ok {
		return u
	}
	spec := sim.TxSpec{From: r.keyOf(d.S), Nonce: uint32(d.N), Epoch: uint16(d.E)}
	pad := 0
	switch d.K {
	case 0:
		spec.Type = types.SendTx
		spec.To = &r.recipient
		amt := sim.Dna(1, 1)
		if d.S == r.c.Poor {
			amt = sim.Dna(8, 1)
		}
		spec.Amount = amt.Add(amt, big.NewInt(int64(d.V)))
	case 1:
		spec.Type = types.SubmitAnswersHashTx
		h := common.Hash{byte(d.V), byte(d.N), 7}
		spec.Payload = h[:]
	case 2:
		spec.Type = types.SubmitLongAnswersTx
		spec.Payload = []byte{byte(d.V), 1, 2, 3}
	case 3:
		spec.Type = types.SubmitShortAnswersTx
		spec.Payload = attachments.CreateShortAnswerAttachment([]byte{1, 2, byte(d.V)}, uint64(100+d.N), 0)
	case 4:
		spec.Type = types.EvidenceTx
		spec.Payload = []byte{byte(d.V), 9}
	default:
		panic("kind")
	}
	base := append([]byte(nil), spec.Payload...)
	build := func() *types.Transaction {
		if pad > 0 {
			p := make([]byte, len(base)+pad)
			copy(p, base)
			spec.Payload = p
		}
		if d.K == 0 {
			probe := r.w.Tx(spec)
			g := int64(fee.CalculateGas(probe)) + 400
			lim := int64(r.realCap)
			if 3*g < lim {
				lim = 3 * g
			}
			spec.MaxFee = new(big.Int).Mul(r.minFee, big.NewInt(lim))
		} else {
			spec.MaxFee = big.NewInt(0)
		}
		return r.w.Tx(spec)
	}
	t := build()
	if d.Fat > 0 && d.K != 1 {
		target := int(r.realCap/1000) * d.Fat
		for i := 0; i < 4; i++ {
			g := fee.CalculateGas(t)
			if g <= target && target-g < 400 {
				break
			}
			pad += (target - g - 100) / 10
			if pad < 0 {
				pad = 0
			}
			t = build()
		}
	}
	if u, ok := r.byHash[t.Hash()]; ok {
		r.byKey[d] = u // two descriptions of the same transaction
		return u
	}
	u := &utx{id: len(r.txs) + 1, d: d, tx: t, gas: fee.CalculateGas(t)}
	r.txs = append(r.txs, u)
	r.byKey[d] = u
	r.byHash[t.Hash()] = u
	return u
}

func copyTx(t *types.Transaction) *types.Transaction {
	b, err := t.ToBytes()
	if err != nil {
		panic(err)
	}
	c := new(types.Transaction)
	if err := c.FromBytes(b); err != nil {
		panic(err)
	}
	return c
}

func (r *rig) ids(txs []*types.Transaction, sorted bool) []int {
	res := []int{}
	for _, t := range txs {
		u := r.byHash[t.Hash()]
		if u == nil {
			panic("transaction outside the scenario's universe: " + t.Hash().Hex())
		}
		res = append(res, u.id)
	}
	if sorted {
		sort.Ints(res)
		res = uniq(res)
	}
	return res
}

func uniq(a []int) []int {
	res := a[:0]
	for i, x := range a {
		if i == 0 || x != a[i-1] {
			res = append(res, x)
		}
	}
	return res
}

func errClass(err error) int {
	if err == nil {
		return 0
	}
	if errors.Cause(err) == validation.InvalidNonce {
		return 1
	}
	return 2
}

// observe projects what can be seen after a call.
func (r *rig) observe() tr.M {
	ro := r.ro()
	acc := [][2]int{}
	for s := 1; s <= r.c.Ns; s++ {
		acc = append(acc, [2]int{int(ro.State.GetNonce(r.addr(s))), int(ro.State.GetEpoch(r.addr(s)))})
	}
	snap := r.a.Pool.VerifSnapshot()
	exec, pend, by := [][]int{}, [][]int{}, [][]int{}
	cur := map[int]bool{}
	for s := 1; s <= r.c.Ns; s++ {
		exec = append(exec, r.ids(snap.Executable[r.addr(s)], false))
		pend = append(pend, r.ids(snap.Pending[r.addr(s)], true))
		l := r.ids(r.a.Pool.GetPendingByAddress(r.addr(s)), true)
		by = append(by, l)
		for _, id := range l {
			cur[id] = true
		}
	}
	all := []int{}
	for _, u := range r.txs {
		if r.a.Pool.GetTx(u.tx.Hash()) != nil {
			all = append(all, u.id)
			cur[u.id] = true
		}
	}
	if len(snap.All) != len(all) {
		// the hash index holds something the scenario never created, or GetTx disagrees with the index
		all = append(all, -len(snap.All))
	}
	inv := [][2]int{}
	for _, u := range r.txs {
		if cur[u.id] || r.prevAny[u.id] {
			if c := errClass(validation.ValidateTx(ro, u.tx, r.minFee, validation.MempoolTx)); c != 0 {
				inv = append(inv, [2]int{u.id, c})
			}
		}
	}
	r.prevAny = cur
	def := []int{}
	for _, h := range snap.KnownDeferred {
		def = append(def, r.byHash[h].id)
	}
	sort.Ints(def)
	return tr.M{"ep": int(ro.State.Epoch()), "per": int(ro.State.ValidationPeriod()), "sync": snap.Syncing, "acc": acc,
		"exec": exec, "pend": pend, "all": all, "by": by, "inv": inv, "def": def}
}

func (r *rig) emit(m tr.M) {
	m["st"] = r.observe()
	r.lines = append(r.lines, m)
}

func (r *rig) add(d txd, own bool) (string, error) {
	u := r.tx(d)
	ro := r.ro()
	valid := validation.ValidateTx(ro, u.tx, r.minFee, validation.InboundTx) == nil
	var err error
	if own {
		err = r.a.Pool.AddInternalTx(u.tx)
	} else {
		err = r.a.Pool.AddExternalTxs(validation.InboundTx, u.tx)
	}
	res, es := "ok", ""
	if err != nil {
		res, es = "err", err.Error()
		if len(es) > 60 {
			es = es[:60]
		}
	}
	r.emit(tr.M{"ev": "Add", "tx": u.id, "own": own, "valid": valid, "res": res, "err": es})
	return res, err
}

func (r *rig) period() (int, int) {
	ro := r.ro()
	return int(ro.State.Epoch()), int(ro.State.ValidationPeriod())
}

// oneBlock proposes and adds a single real block.
func (r *rig) oneBlock(delay int64, foreign bool, f []txd) {
	proposer := r.a
	if foreign || r.syncing {
		proposer = r.b
		for _, d := range f {
			r.b.Pool.AddExternalTxs(validation.InboundTx, copyTx(r.tx(d).tx))
		}
	}
	blk := proposer.Propose(delay)
	data := sim.Encode(blk)
	if err := r.a.Add(data); err != nil {
		panic("node A refused a proposed block: " + err.Error())
	}
	if r.b != r.a {
		if err := r.b.Add(data); err != nil {
			panic("node B refused a proposed block: " + err.Error())
		}
	}
	ids := r.ids(blk.Body.Transactions, false)
	for _, id := range ids {
		r.incl[id] = true
	}
	r.emit(tr.M{"ev": "Block", "txs": ids, "foreign": proposer == r.b, "flags": int(blk.Header.Flags())})
}

func (r *rig) block(adv bool, foreign bool, f []txd) {
	if !adv {
		r.oneBlock(20, foreign, f)
		return
	}
	ro := r.ro()
	_, per := r.period()
	T := ro.State.NextValidationTime().Unix()
	h := r.a.Chain.Head.Time()
	var t int64
	switch per {
	case 0:
		t = T - lotteryDur + 1
	case 1:
		t = T
	case 2:
		t = T + shortDur + 1
	case 3:
		t = T + shortDur + longDur + 1
	case 4:
		// the epoch completes after enough blocks without ceremony transactions
		for i := 0; i < 40; i++ {
			r.oneBlock(20, foreign, f)
			f = nil
			if _, p := r.period(); p == 0 {
				return
			}
		}
		panic("epoch did not complete")
	}
	d := t - h
	if d < 20 {
		d = 20
	}
	r.oneBlock(d, foreign, f)
	if _, p := r.period(); p != (per+1)%5 {
		panic(fmt.Sprintf("period did not advance: %d -> %d", per, p))
	}
}

func (r *rig) build() {
	cand := r.a.Pool.BuildBlockTransactions()
	ro := r.ro()
	nofee := []int{}
	snap := r.a.Pool.VerifSnapshot()
	for _, q := range snap.Executable {
		for _, t := range q {
			if validation.ValidateFee(ro, t, validation.InBlockTx, ro.State.FeePerGas()) != nil {
				nofee = append(nofee, r.byHash[t.Hash()].id)
			}
		}
	}
	sort.Ints(nofee)
	r.emit(tr.M{"ev": "Build", "cand": r.ids(cand, false), "nofee": nofee})
}

func (r *rig) startSync() {
	r.a.Chain.StartSync()
	r.syncing = true
	r.emit(tr.M{"ev": "StartSync"})
}

func (r *rig) stopSync() {
	ro := r.ro()
	snap := r.a.Pool.VerifSnapshot()
	dvalid := []int{}
	for _, h := range snap.KnownDeferred {
		u := r.byHash[h]
		ty := validation.MempoolTx
		if u.tx.LoadHighPriority() {
			ty = validation.InboundTx
		}
		if validation.ValidateTx(ro, u.tx, r.minFee, ty) == nil {
			dvalid = append(dvalid, u.id)
		}
	}
	sort.Ints(dvalid)
	head := r.a.Chain.GetBlock(r.a.Chain.Head.Hash())
	r.a.Chain.StopSync()
	r.syncing = false
	r.emit(tr.M{"ev": "StopSync", "txs": r.ids(head.Body.Transactions, false), "dvalid": dvalid})
}

func (r *rig) do(o opd) {
	switch o.Op {
	case "Init":
		for i := 0; i < 12; i++ {
			ep, per := r.period()
			if ep == o.Ep && per == o.Per {
				return
			}
			r.block(true, false, nil)
		}
		panic("initial ledger not reached")
	case "Add":
		r.add(*o.Tx, o.Own)
	case "Block":
		if o.Adv {
			if ep, per := r.period(); per == 4 && ep >= 3 {
				o.Adv = false
			}
		}
		r.block(o.Adv, o.Foreign, o.F)
	case "Build":
		r.build()
	case "StartSync":
		if !r.syncing {
			r.startSync()
		}
	case "StopSync":
		if r.syncing {
			r.stopSync()
		}
	default:
		panic("unknown op " + o.Op)
	}
}

// flush writes the scenario: a Reset line with the universe and the configuration, then the steps.
func (r *rig) flush(w *tr.W, id int) {
	u := [][]int{}
	for _, x := range r.txs {
		u = append(u, []int{x.d.S, x.d.N, x.d.E, x.d.K, x.gas})
	}
	c := r.c.Cfg
	w.Emit(tr.M{"ev": "Reset", "id": id, "kind": r.c.Kind, "ns": r.c.Ns, "u": u, "cap": r.realCap,
		"cfg": tr.M{"el": c.El, "pl": c.Pl, "qs": c.Qs, "es": c.Es, "cb": c.Cb, "ric": c.Ric}})
	for _, l := range r.lines {
		w.Emit(l)
	}
}

func runCase(seed int64, c *cased, w *tr.W, id int) {
	r := newRig(seed, c)
	for _, o := range c.Ops {
		r.do(o)
	}
	r.flush(w, id)
}

func main() {
	cases := flag.String("cases", "", "scenarios exported by TLC (json lines)")
	out := flag.String("out", "", "trace output")
	nrand := flag.Int("random", 0, "number of random scenarios")
	rlen := flag.Int("len", 60, "operations per random scenario")
	conc := flag.Int("conc", 0, "number of concurrent runs")
	cdur := flag.Int("dur", 1500, "milliseconds per concurrent run")
	first := flag.Int("first", 0, "index of the first random / concurrent scenario (sharding)")
	flag.Parse()
	defer sim.Cleanup()
	seed := tr.Seed()
	w := tr.Create(*out)
	defer w.Close()
	n := 0
	t0 := time.Now()
	if *cases != "" {
		tr.ReadLines(*cases, func(raw []byte) {
			var c cased
			if err := json.Unmarshal(raw, &c); err != nil {
				panic(err)
			}
			runCase(seed, &c, w, n)
			n++
		})
	}
	for i := 0; i < *nrand; i++ {
		rnd := rand.New(rand.NewSource(seed*1000003 + int64(*first+i)))
		runRandom(seed, rnd, *rlen, w, *first+i)
		n++
	}
	for i := 0; i < *conc; i++ {
		rnd := rand.New(rand.NewSource(seed*7000003 + int64(*first+i)))
		runConcurrent(seed, rnd, time.Duration(*cdur)*time.Millisecond, w, *first+i)
		n++
	}
	fmt.Fprintf(os.Stderr, "scenarios=%d lines=%d wall=%.1fs\n", n, w.N, time.Since(t0).Seconds())
}
