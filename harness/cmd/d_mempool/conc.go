package main

import (
	"fmt"
	"math/rand"
	"os"
	"runtime/pprof"
	"sync"
	"sync/atomic"
	"time"

	"github.com/idena-network/idena-go/blockchain/types"
	"github.com/idena-network/idena-go/blockchain/validation"
	"github.com/idena-network/idena-go/common"
	"github.com/idena-network/idena-go/core/mempool"

	"verifh/internal/sim"
	"verifh/internal/tr"
)

// runConcurrent: real concurrency on one pool.  One goroutine per sender submits its transactions
// (shuffled windows: in and out of nonce order, duplicates, two different transactions for one
// nonce), one of them through the AsyncTxPool batcher and the own address through AddInternalTx;
// the producer proposes and adds real blocks and - like the downloader - brackets some of them with
// StartSync/StopSync; a builder calls BuildBlockTransactions; a reader uses every lookup.  The
// binary is built with -race.  What is judged: the race detector's report, a panic, the watchdog
// (a goroutine that does not come back: dead- or livelock; goroutine dump on stderr, exit code 3),
// and - by TLC, through the same trace specification - the pool observed at quiescence and after
// one more block.
func runConcurrent(seed int64, rnd *rand.Rand, dur time.Duration, w *tr.W, id int) {
	ns := 4
	c := &cased{Kind: "concurrent", Ns: ns}
	c.Cfg = cfgd{El: pick(rnd, 0, 8, 16), Pl: pick(rnd, 0, 4, 8), Qs: pick(rnd, 0, 2, 4), Es: pick(rnd, 0, 4), Cb: 1}
	r := newRig(seed, c)
	long := rnd.Intn(2) == 0
	if long {
		r.do(opd{Op: "Init", Per: 3}) // long session: regular and ceremony transactions are both admissible
	}
	// the universe is created up front (ids are stable, creation is not goroutine-safe)
	const perSender = 60
	plan := make([][]*utx, ns+1)
	for s := 1; s <= ns; s++ {
		for n := 1; n <= perSender; n++ {
			d := txd{S: s, N: n, E: 0}
			if rnd.Intn(6) == 0 {
				d.Fat = pick(rnd, 120, 250)
			}
			if long && rnd.Intn(10) == 0 {
				d.K = pick(rnd, 1, 2, 4)
			}
			plan[s] = append(plan[s], r.tx(d))
			if rnd.Intn(8) == 0 {
				d.V = 1
				plan[s] = append(plan[s], r.tx(d))
			}
		}
		// shuffle inside windows of 6: mostly in order, locally out of order
		for i := 0; i+6 <= len(plan[s]); i += 6 {
			rnd.Shuffle(6, func(a, b int) { plan[s][i+a], plan[s][i+b] = plan[s][i+b], plan[s][i+a] })
		}
	}
	pool := r.a.Pool
	async := mempool.NewAsyncTxPool(pool)
	var stop int32
	var wg sync.WaitGroup
	var beats [16]int64
	stopped := func() bool { return atomic.LoadInt32(&stop) != 0 }
	heart := func() []int64 {
		res := make([]int64, ns+4)
		for i := range res {
			res[i] = atomic.LoadInt64(&beats[i])
		}
		return res
	}
	spawn := func(i int, f func()) {
		wg.Add(1)
		go func() {
			defer wg.Done()
			for !stopped() {
				f()
				atomic.AddInt64(&beats[i], 1)
			}
		}()
	}
	// submitters
	for s := 1; s <= ns; s++ {
		s := s
		pos := 0
		spawn(s, func() {
			if pos >= len(plan[s]) {
				// everything submitted once: re-submit (duplicates, consumed nonces)
				pos = 0
				time.Sleep(2 * time.Millisecond)
			}
			u := plan[s][pos]
			pos++
			switch {
			case s == c.Cfg.Cb && pos%2 == 0:
				pool.AddInternalTx(u.tx)
			case s == 2:
				async.AddExternalTxs(validation.InboundTx, u.tx)
			case pos%5 == 0:
				pool.Validate(u.tx)
				pool.AddExternalTxs(validation.InboundTx, u.tx)
			default:
				pool.AddExternalTxs(validation.InboundTx, u.tx)
			}
			time.Sleep(200 * time.Microsecond)
		})
	}
	// builder
	spawn(ns+1, func() {
		pool.BuildBlockTransactions()
		time.Sleep(300 * time.Microsecond)
	})
	// reader
	k := 0
	spawn(ns+2, func() {
		k++
		s := 1 + k%ns
		pool.GetPendingByAddress(r.addr(s))
		u := plan[s][k%len(plan[s])]
		pool.GetTx(u.tx.Hash())
		pool.Has(u.tx.Hash128())
		pool.Get(u.tx.Hash128())
		pool.GetPendingTransaction(k%2 == 0, k%3 == 0, common.MultiShard, k%4 == 0)
		pool.GetPriorityTransaction()
		pool.IsSyncing()
		r.a.App.NonceCache.GetNonce(r.addr(s), 0)
		time.Sleep(200 * time.Microsecond)
	})
	// producer (+ sync brackets, as the downloader does from its own goroutine)
	var blocks []*types.Block
	nb := 0
	prnd := rand.New(rand.NewSource(rnd.Int63()))
	spawn(ns+3, func() {
		nb++
		bracket := prnd.Intn(6) == 0
		if bracket {
			r.a.Chain.StartSync()
		}
		for i := 0; i < 1+prnd.Intn(2); i++ {
			blk := r.a.Propose(20)
			if err := r.a.Add(sim.Encode(blk)); err != nil {
				fmt.Fprintln(os.Stderr, "HARNESS: own proposal refused:", err)
				os.Exit(4)
			}
			blocks = append(blocks, blk)
		}
		if bracket {
			r.a.Chain.StopSync()
		}
		time.Sleep(time.Duration(1+prnd.Intn(4)) * time.Millisecond)
	})

	time.Sleep(dur)
	atomic.StoreInt32(&stop, 1)
	done := make(chan struct{})
	go func() { wg.Wait(); close(done) }()
	select {
	case <-done:
	case <-time.After(15 * time.Second):
		fmt.Fprintln(os.Stderr, "WATCHDOG: goroutines did not come back within 15s after the stop signal; heartbeats:", heart())
		pprof.Lookup("goroutine").WriteTo(os.Stderr, 2)
		os.Exit(3)
	}
	for i := 1; i <= ns+3; i++ {
		if atomic.LoadInt64(&beats[i]) == 0 {
			fmt.Fprintln(os.Stderr, "WATCHDOG: goroutine", i, "made no progress; heartbeats:", heart())
			pprof.Lookup("goroutine").WriteTo(os.Stderr, 2)
			os.Exit(3)
		}
	}
	// let the async batcher drain
	time.Sleep(20 * time.Millisecond)

	incl := []int{}
	for _, b := range blocks {
		for _, id := range r.ids(b.Body.Transactions, false) {
			r.incl[id] = true
			incl = append(incl, id)
		}
	}
	r.syncing = false
	r.prevAny = map[int]bool{}
	m := tr.M{"ev": "Quiesce", "incl": incl, "blocks": len(blocks), "beats": heart()}
	m["st"] = r.observe()
	r.lines = append(r.lines, m)
	// B did not follow the chain in this mode: the closing blocks are proposed by A itself
	// (a submission validated against the head of the moment and inserted after the next block was applied can
	// leave a consumed nonce behind until the following block notification: the first step after quiescence is a
	// block, so that the clauses are judged on a pool that has seen a block notification without interference)
	r.b = r.a
	r.oneBlock(20, false, nil)
	r.build()
	r.oneBlock(20, false, nil)
	r.build()
	r.flush(w, id)
}
