package main

import "math/rand"

// Seeded random scenarios, larger than the bounded models' (the trace specification evaluates the model on whatever
// input a line carries).

var flagSets = [][2]bool{{false, false}, {true, false}, {true, true}}

func randomOne(rnd *rand.Rand) oneT {
	fl := flagSets[rnd.Intn(3)]
	tot := rnd.Intn(14)
	switch rnd.Intn(6) {
	case 0:
		tot = 10 + rnd.Intn(90)
	case 1:
		tot = []int{50, 100, 150, 200, 300}[rnd.Intn(5)]
	}
	// a split next to a threshold, or anything
	var l, r int
	if tot > 0 && rnd.Intn(2) == 0 {
		mark := []int{3 * tot / 4, 66 * tot / 100, 2 * tot / 3, tot / 2}[rnd.Intn(4)] + rnd.Intn(3) - 1
		if mark < 0 {
			mark = 0
		}
		if mark > tot {
			mark = tot
		}
		rest := tot - mark
		other := 0
		if rest > 0 {
			other = rnd.Intn(rest + 1)
		}
		switch rnd.Intn(3) {
		case 0:
			l, r = mark, other
		case 1:
			l, r = other, mark
		default: // the mark is the number of None answers
			l = other
			r = rest - other
		}
	} else if tot > 0 {
		l = rnd.Intn(tot + 1)
		r = rnd.Intn(tot - l + 1)
	}
	c := oneT{L: l, R: r, N: tot - l - r, U10: fl[0], U11: fl[1]}
	maxc := tot
	if maxc > 100 {
		maxc = 100
	}
	if rnd.Intn(3) > 0 && maxc > 12 {
		maxc = 12
	}
	size := 0
	if maxc > 0 {
		size = rnd.Intn(maxc + 1)
	}
	if size > 0 {
		c.Rep = rnd.Intn(size + 1)
		if rnd.Intn(2) == 0 { // next to the report threshold
			c.Rep = size/2 + rnd.Intn(3) - 1
			if size <= 5 {
				c.Rep = size - rnd.Intn(3)
			}
			if c.Rep < 0 {
				c.Rep = 0
			}
			if c.Rep > size {
				c.Rep = size
			}
		}
	}
	c.Ap = size - c.Rep
	c.Rcs = c.Rep + c.Ap
	if fl[1] {
		silent := 0
		if tot-size > 0 {
			silent = rnd.Intn(tot - size + 1)
			if silent > 100 {
				silent = 100
			}
		}
		c.Gcs = size + silent
		c.Tg = silent + 2*(c.Ap+rnd.Intn(3*c.Ap+1))
	} else {
		c.Tg = 2*c.Ap + rnd.Intn(3*c.Ap+1)
	}
	return c
}

func subset(rnd *rand.Rand, n, k int) []int {
	p := rnd.Perm(n)
	if k > n {
		k = n
	}
	return append([]int{}, p[:k]...)
}

var profiles = [][]cell{
	{{1, 0}, {2, 0}, {0, 0}, {1, 0}, {2, 0}},                         // plain solver
	{{1, 2}, {2, 2}, {1, 0}, {1, 3}, {0, 2}, {2, 0}, {2, 2}},         // grader
	{{1, 1}, {2, 1}, {1, 2}, {1, 0}, {2, 0}, {0, 1}, {1, 0}, {2, 2}}, // reporter
	{{1, 5}, {2, 4}, {1, 1}, {3, 2}, {1, 6}, {0, 0}, {2, 7}, {3, 1}}, // odd
	{{0, 0}},                 // silent
	{{1, 1}, {2, 1}, {1, 1}}, // reports everything
}

func randomPop(rnd *rand.Rand) popT {
	fl := flagSets[rnd.Intn(3)]
	nf := 1 + rnd.Intn(10)
	nc := 2 + rnd.Intn(7)
	p := popT{Nf: nf, U10: fl[0], U11: fl[1], Na: subset(rnd, nf, rnd.Intn(3))}
	// a shared profile bias: populations of reporters / of graders happen
	bias := rnd.Intn(len(profiles) + 3)
	for k := 0; k < nc; k++ {
		c := candT{S: 1, Hs: 2, Au: 1}
		switch rnd.Intn(12) {
		case 0:
			c.S = 0
		case 1:
			c.S = 2
		case 2:
			c.Hs = 0
		case 3:
			c.Hs = 1
		case 4:
			c.Au = []int{0, 2, 3}[rnd.Intn(3)]
		case 5:
			c.J = 1
		}
		prof := profiles[rnd.Intn(len(profiles))]
		if bias < len(profiles) && rnd.Intn(3) > 0 {
			prof = profiles[bias]
		}
		nfl := rnd.Intn(nf + 1)
		if rnd.Intn(3) > 0 && nf >= 3 {
			nfl = 3 + rnd.Intn(nf-2)
		}
		c.F = subset(rnd, nf, nfl)
		c.C = make([]cell, len(c.F))
		for i := range c.C {
			c.C[i] = prof[rnd.Intn(len(prof))]
		}
		c.Sf = subset(rnd, nf, rnd.Intn(9))
		c.Sa = make([]cell, len(c.Sf))
		for i := range c.Sa {
			c.Sa[i] = cell{rnd.Intn(4), 0}
			if rnd.Intn(3) == 0 {
				c.Sa[i][0] = 0
			}
		}
		p.Cands = append(p.Cands, c)
	}
	return p
}

func randomCtx(rnd *rand.Rand) ctxT {
	c := ctxT{Short: rnd.Intn(2) == 0, Has: 2, Auth: 1}
	switch rnd.Intn(8) {
	case 0:
		c.Has = 0
	case 1:
		c.Has = 1
	case 2:
		c.Auth = 0
	}
	maxl := 14
	if c.Short {
		maxl = 8
	}
	n := rnd.Intn(maxl + 1)
	if c.Short && rnd.Intn(2) == 0 {
		n = 6 + rnd.Intn(3)
	}
	c.Fts = subset(rnd, 20, n)
	c.Ans = make([]cell, len(c.Fts))
	c.Na = subset(rnd, 20, rnd.Intn(8))
	c.Fq = [][]int{}
	kinds := [][2]int{{1, 1}, {1, 2}, {2, 1}, {2, 2}, {3, 0}, {0, 0}}
	for i, f := range c.Fts {
		c.Ans[i] = cell{rnd.Intn(4), 0}
		if rnd.Intn(3) == 0 {
			c.Ans[i][0] = 0
		}
		if !c.Short {
			c.Ans[i][1] = rnd.Intn(8)
		}
		if rnd.Intn(10) > 0 {
			k := kinds[rnd.Intn(len(kinds))]
			c.Fq = append(c.Fq, []int{f, k[0], k[1], []int{0, 1, 2, 2, 4, 5}[rnd.Intn(6)]})
		}
		// a not approved flip the candidate left unanswered
		if c.Short && i < 6 && rnd.Intn(4) == 0 {
			c.Ans[i][0] = 0
			has := false
			for _, x := range c.Na {
				has = has || x == f
			}
			if !has {
				c.Na = append(c.Na, f)
			}
		}
	}
	return c
}

func randomBook(rnd *rand.Rand) []opT {
	n := 8 + rnd.Intn(24)
	ops := make([]opT, 0, n)
	for i := 0; i < n; i++ {
		o := opT{F: rnd.Intn(4), R: rnd.Intn(4), Af: []int{}}
		switch x := rnd.Intn(10); {
		case x < 5:
			o.Op = "add"
		case x < 6:
			o.Op = "delf"
		case x < 7:
			o.Op = "delr"
		default:
			o.Op = "res"
			o.St = []int{0, 2, 3, 4, 5, 6, 7, 8}[rnd.Intn(8)]
			o.Missed = rnd.Intn(3) == 0
			o.Any = rnd.Intn(2) == 0
			o.Af = subset(rnd, 4, rnd.Intn(3))
		}
		ops = append(ops, o)
	}
	return ops
}
