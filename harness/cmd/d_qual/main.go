// d_qual runs the REAL qualification code of a validation ceremony (core/ceremony/qualification.go, reporters.go,
// reached through the add-only verif shim verif_shim_qualify.go) on scenarios exported by TLC from
// spec/MC_QualOne / MC_QualPop / MC_QualCand / MC_QualBook and on seeded random ones, and records one ndjson line
// per evaluation with the input as READ BACK from the real objects and the projected result (growth module QUAL of C17).
//
//	d_qual -one <cases>   -out <trace>    case table of qualifyOneFlip            -> lines "One"
//	d_qual -pops <file>   -out <trace>    populations: real qualification object filled through addAnswers with real
//	                                      attachment payloads, qualifyFlips + qualifyCandidate (both sessions) on a fresh
//	                                      object, again, on an object filled in another order with duplicates, on one
//	                                      restored from persist(), with the candidates in another order
//	                                                                              -> lines "Flips", "FlipsV", "Cand", "CandV"
//	d_qual -cands <file>  -out <trace>    candidate contexts with free flip qualifications -> lines "Cand", "CandV"
//	d_qual -books <file>  -out <trace>    operation sequences on a real reporters book     -> lines "BookNew", "Book"
//	d_qual -random N      -out <trace>    N seeded random scenarios of every kind, larger than the model's
//
// The driver never judges and re-implements nothing of the code under test: the trace specification
// (Trace_Qualification.tla) evaluates the model and every property clause on every line.
package main

import (
	"crypto/ecdsa"
	"crypto/sha256"
	"encoding/binary"
	"encoding/json"
	"flag"
	"fmt"
	"math"
	"math/big"
	"math/rand"
	"os"
	"sort"
	"time"

	"github.com/idena-network/idena-go/blockchain/attachments"
	"github.com/idena-network/idena-go/blockchain/types"
	"github.com/idena-network/idena-go/common"
	"github.com/idena-network/idena-go/config"
	"github.com/idena-network/idena-go/core/ceremony"
	"github.com/idena-network/idena-go/core/state"
	"github.com/idena-network/idena-go/crypto"
	"github.com/idena-network/idena-go/crypto/ecies"
	"github.com/idena-network/idena-go/crypto/vrf/p256"
	"github.com/idena-network/idena-go/database"
	"github.com/idena-network/idena-go/log"
	"github.com/shopspring/decimal"
	dbm "github.com/tendermint/tm-db"

	"verifh/internal/tr"
)

// ---- configurations: the repository's own consensus versions ------------------------------------------------

func cfgFor(u10, u11 bool) *config.Config {
	var ver config.ConsensusVerson
	switch {
	case u11:
		ver = config.ConsensusV12
	case u10:
		ver = config.ConsensusV10
	default:
		ver = config.ConsensusV9
	}
	c := *config.ConsensusVersions[ver]
	if c.EnableUpgrade10 != u10 || c.EnableUpgrade11 != u11 {
		panic(fmt.Sprintf("harness: no consensus version with upgrade10=%v upgrade11=%v", u10, u11))
	}
	return &config.Config{Consensus: &c}
}

// ---- keys -----------------------------------------------------------------------------------------------------

func detKey(seed int64, sid, i int) *ecdsa.PrivateKey {
	var b [24]byte
	binary.BigEndian.PutUint64(b[:8], uint64(seed))
	binary.BigEndian.PutUint64(b[8:16], uint64(sid))
	binary.BigEndian.PutUint64(b[16:], uint64(i))
	for ctr := 0; ; ctr++ {
		k, err := crypto.ToECDSA(crypto.Keccak256(append(b[:], byte(ctr))))
		if err == nil {
			return k
		}
	}
}

// ---- answer bit vectors -----------------------------------------------------------------------------------------

type cell [2]int // raw <<a, g>>: a bit 0 = Left bit, bit 1 = Right bit; g = the three grade bits

// answerBits builds the bit vector a client would send: the repository's own setters wherever the value is one a
// client can express through them, raw bits for the patterns it cannot (grade patterns 6, 7; a stray bit beyond the
// answers).
func answerBits(cells []cell, junk bool) []byte {
	n := uint(len(cells))
	a := types.NewAnswers(n)
	for i, c := range cells {
		if c[0]&1 != 0 {
			a.Left(uint(i))
		}
		if c[0]&2 != 0 {
			a.Right(uint(i))
		}
		if c[1] >= 0 && c[1] <= int(types.GradeA) {
			a.Grade(uint(i), types.Grade(c[1]))
		} else {
			t := big.NewInt(int64(c[1]))
			a.Bits.Or(a.Bits, t.Lsh(t, uint(i)*3+n*2))
		}
	}
	if junk {
		t := big.NewInt(1)
		a.Bits.Or(a.Bits, t.Lsh(t, 5*n+3))
	}
	return a.Bytes()
}

// readBits projects a stored bit vector back into raw cells (+ whether any bit beyond the 5n answer bits is set).
func readBits(bits []byte, n int) ([]cell, int) {
	b := new(big.Int).SetBytes(bits)
	res := make([]cell, n)
	for i := 0; i < n; i++ {
		res[i][0] = int(b.Bit(i)) | int(b.Bit(i+n))<<1
		res[i][1] = int(b.Bit(i*3+2*n)) | int(b.Bit(i*3+2*n+1))<<1 | int(b.Bit(i*3+2*n+2))<<2
	}
	junk := 0
	if b.BitLen() > 5*n {
		junk = 1
	}
	return res, junk
}

var garbage = []byte{0xff, 0xff, 0xff, 0x07}

// ---- a population ---------------------------------------------------------------------------------------------------

type candT struct {
	S  int    `json:"s"`
	J  int    `json:"j"`
	F  []int  `json:"f"`
	C  []cell `json:"c"`
	Hs int    `json:"hs"`
	Sf []int  `json:"sf"`
	Sa []cell `json:"sa"`
	Au int    `json:"au"`
}

type popT struct {
	Nf    int     `json:"nf"`
	U10   bool    `json:"u10"`
	U11   bool    `json:"u11"`
	Na    []int   `json:"na"`
	Cands []candT `json:"cands"`
}

// what one candidate puts on the chain
type payloads struct {
	addr   common.Address
	short  []byte // nil: none
	long   []byte
	hash   *common.Hash // answer hash on record (nil: none)
	shortD []byte       // a second (different) short payload, submitted later: must be ignored
	longD  []byte
}

func mkPayloads(seed int64, sid, k int, c candT) payloads {
	key := detKey(seed, sid, k)
	p := payloads{addr: crypto.PubkeyToAddress(key.PublicKey)}
	signer, err := p256.NewVRFSigner(key)
	if err != nil {
		panic(err)
	}
	wordsSeed := sha256.Sum256([]byte(fmt.Sprintf("words-seed-%d-%d", seed, sid)))
	vrfHash, proof := signer.Evaluate(wordsSeed[:])
	rnd := ceremony.VerifWordsRnd(vrfHash)
	if c.Au == 3 {
		rnd++
	}
	salt := sha256.Sum256([]byte(fmt.Sprintf("salt-%d-%d-%d", seed, sid, k)))
	shortBits := answerBits(c.Sa, false)
	h := common.Hash(crypto.Hash(append(append([]byte{}, shortBits...), salt[:]...)))
	if c.Au != 2 {
		p.hash = &h
	}
	switch c.Hs {
	case 1:
		p.short = garbage
	case 2:
		p.short = attachments.CreateShortAnswerAttachment(shortBits, rnd, 1)
	}
	longSalt := salt[:]
	if c.Au == 0 {
		x := sha256.Sum256(salt[:])
		longSalt = x[:]
	}
	switch c.S {
	case 1:
		p.long = attachments.CreateLongAnswerAttachment(answerBits(c.C, c.J == 1), proof, longSalt, ecies.ImportECDSA(key))
	case 2:
		p.long = garbage
	}
	// what a second submission of the same sender would carry (every answer Right, every grade A)
	other := make([]cell, len(c.C))
	for i := range other {
		other[i] = cell{2, 5}
	}
	p.longD = attachments.CreateLongAnswerAttachment(answerBits(other, false), proof, salt[:], ecies.ImportECDSA(key))
	others := make([]cell, len(c.Sa))
	for i := range others {
		others[i] = cell{2, 0}
	}
	p.shortD = attachments.CreateShortAnswerAttachment(answerBits(others, false), rnd, 1)
	return p
}

// fill creates a real qualification object over a real epoch db and feeds it the payloads the way processCeremonyTxs
// does (answer hash first seen wins, addAnswers per transaction), in the given order of senders.
func fill(cfg *config.Config, db dbm.DB, ps []payloads, order []int, dups bool) *ceremony.VerifQualification {
	edb := database.NewEpochDb(db, 7)
	q := ceremony.VerifNewQualification(cfg, edb)
	for _, k := range order {
		p := ps[k]
		if p.hash != nil && !edb.HasAnswerHash(p.addr) {
			edb.WriteAnswerHash(p.addr, *p.hash, time.Unix(1000, 0).UTC())
		}
	}
	for _, k := range order {
		if ps[k].short != nil {
			q.AddAnswers(true, ps[k].addr, ps[k].short)
		}
	}
	for _, k := range order {
		if ps[k].long != nil {
			q.AddAnswers(false, ps[k].addr, ps[k].long)
		}
	}
	if dups {
		for _, k := range order {
			if ps[k].short != nil {
				q.AddAnswers(true, ps[k].addr, ps[k].shortD)
			}
			if ps[k].long != nil {
				q.AddAnswers(false, ps[k].addr, ps[k].longD)
			}
		}
	}
	return q
}

func micro(d decimal.Decimal) int64 {
	return d.Mul(decimal.New(1, 6)).Floor().IntPart()
}

func flipObs(q ceremony.VerifFlipQual) []int64 {
	return []int64{int64(q.Status), int64(q.Answer), int64(q.Grade), micro(q.GradeScore)}
}

type flipsObs struct {
	Fq [][]int64 `json:"fq"`
	Rw [][]int   `json:"rw"`
	Wr []int     `json:"wr"`
	Bk int       `json:"bk"` // 1: the book's three indexes agree with each other and hold nothing empty
	Xf int       `json:"xf"` // book entries / reasons for flips or addresses that are not part of the population
}

func bookCoherent(s ceremony.VerifBookSnapshot) int {
	if len(s.EmptyFlips) > 0 {
		return 0
	}
	n := 0
	for _, e := range s.ByFlip {
		if !e.SameObject {
			return 0
		}
		ok := false
		for _, f := range s.ByReporter[e.Reporter] {
			ok = ok || f == e.Flip
		}
		if !ok {
			return 0
		}
		n++
	}
	m := 0
	for a, l := range s.ByReporter {
		if len(l) == 0 {
			return 0
		}
		if _, ok := s.ByAddr[a]; !ok {
			return 0
		}
		m += len(l)
	}
	if n != m || len(s.ByAddr) != len(s.ByReporter) {
		return 0
	}
	return 1
}

// observe projects the result of qualifyFlips; candidates are numbered as in the scenario (idx: address -> 1-based
// number; 0 = an address that is no candidate)
func observe(r *ceremony.VerifFlipsResult, nf int, ps []payloads) flipsObs {
	idx := map[common.Address]int{}
	for k, p := range ps {
		idx[p.addr] = k + 1
	}
	o := flipsObs{Fq: make([][]int64, 0, nf), Rw: make([][]int, nf), Wr: make([]int, len(ps))}
	for _, q := range r.Flips {
		o.Fq = append(o.Fq, flipObs(q))
	}
	for i := range o.Rw {
		o.Rw[i] = []int{}
	}
	snap := r.Book.Snapshot()
	for _, e := range snap.ByFlip {
		if e.Flip >= 0 && e.Flip < nf {
			o.Rw[e.Flip] = append(o.Rw[e.Flip], idx[e.Reporter])
		} else {
			o.Xf++
		}
	}
	for i := range o.Rw {
		sort.Ints(o.Rw[i])
	}
	for k := range o.Wr {
		o.Wr[k] = -1
	}
	for a, reason := range r.Reasons {
		if k, ok := idx[a]; ok {
			o.Wr[k-1] = int(reason)
		} else {
			o.Xf++
		}
	}
	o.Bk = bookCoherent(snap)
	return o
}

type candObs struct {
	P2    int     `json:"p2"`
	Pex   bool    `json:"pex"` // every point is a multiple of one half (p2 and fa are exact)
	Q     uint32  `json:"q"`
	Nq    bool    `json:"nq"`
	Noa   bool    `json:"noa"`
	Fanil bool    `json:"fanil"`
	Fa    [][]int `json:"fa"` // per entry of fts: twice the point, considered
	Fx    [][]int `json:"fx"` // per entry of fts: answer, grade, index, respondent is the candidate (statistics)
}

func halves(p float32) (int, bool) {
	h := int(math.Round(float64(p) * 2))
	return h, float32(h)/2 == p
}

func observeCand(r ceremony.VerifCandResult, fts []int, addr common.Address) candObs {
	o := candObs{Q: r.QualifiedFlips, Nq: r.NoQual, Noa: r.NoAnswer, Fanil: r.FlipAnswers == nil, Fa: [][]int{}, Fx: [][]int{}}
	o.P2, o.Pex = halves(r.Point)
	if r.FlipAnswers != nil {
		for _, f := range fts {
			a, ok := r.FlipAnswers[f]
			if !ok {
				o.Fa = append(o.Fa, []int{-1, -1})
				o.Fx = append(o.Fx, []int{-1, -1, -1, 0})
				continue
			}
			h, ex := halves(a.Point)
			o.Pex = o.Pex && ex
			c, me := 0, 0
			if a.Considered {
				c = 1
			}
			if a.Respondent == addr {
				me = 1
			}
			o.Fa = append(o.Fa, []int{h, c})
			o.Fx = append(o.Fx, []int{int(a.Answer), int(a.Grade), a.Index, me})
		}
		if len(r.FlipAnswers) != len(fts) {
			o.Fx = append(o.Fx, []int{-2, -2, len(r.FlipAnswers), 0})
		}
	}
	return o
}

// readBack projects what the real object holds for a candidate: payload kinds and raw cells
func readBack(q *ceremony.VerifQualification, addr common.Address, c candT) candT {
	out := candT{F: c.F, Sf: c.Sf, Au: c.Au, C: []cell{}, Sa: []cell{}}
	if b, ok := q.Stored(false, addr); ok {
		if at := attachments.ParseLongAnswerBytesAttachment(b); at != nil {
			out.S = 1
			out.C, out.J = readBits(at.Answers, len(c.F))
		} else {
			out.S = 2
		}
	}
	if out.S != 1 {
		out.C = make([]cell, len(c.F))
	}
	if b, ok := q.Stored(true, addr); ok {
		if at := attachments.ParseShortAnswerBytesAttachment(b); at != nil {
			out.Hs = 2
			out.Sa, _ = readBits(at.Answers, len(c.Sf))
		} else {
			out.Hs = 1
		}
	}
	if out.Hs != 2 {
		out.Sa = make([]cell, len(c.Sf))
	}
	return out
}

func fqProj(m map[int]ceremony.VerifFlipQual, fts []int) [][]int {
	res := [][]int{}
	for _, f := range fts {
		if q, ok := m[f]; ok {
			res = append(res, []int{f, int(q.Status), int(q.Answer), int(q.Grade)})
		}
	}
	return res
}

func nn(l []int) []int {
	if l == nil {
		return []int{}
	}
	return l
}

var stats = map[string]int{}

func runPop(w *tr.W, seed int64, sid int, p popT, rnd *rand.Rand, full bool) {
	cfg := cfgFor(p.U10, p.U11)
	n := len(p.Cands)
	ps := make([]payloads, n)
	for k, c := range p.Cands {
		if len(c.C) != len(c.F) || len(c.Sa) != len(c.Sf) {
			panic(fmt.Sprintf("harness: malformed scenario %d", sid))
		}
		ps[k] = mkPayloads(seed, sid, k, c)
	}
	ident := make([]int, n)
	for i := range ident {
		ident[i] = i
	}
	addrs := make([]common.Address, n)
	flips := make([][]int, n)
	for k := range ps {
		addrs[k] = ps[k].addr
		flips[k] = p.Cands[k].F
	}
	db := dbm.NewMemDB()
	base := fill(cfg, db, ps, ident, false)
	// the population as the real object holds it
	echo := popT{Nf: p.Nf, U10: cfg.Consensus.EnableUpgrade10, U11: cfg.Consensus.EnableUpgrade11, Na: nn(p.Na)}
	for k, c := range p.Cands {
		echo.Cands = append(echo.Cands, readBack(base, ps[k].addr, c))
	}
	r0 := base.QualifyFlips(uint(p.Nf), addrs, flips)
	o0 := observe(r0, p.Nf, ps)
	w.Emit(tr.M{"ev": "Flips", "sid": sid, "pop": echo, "o": o0})
	stats["pops"]++
	for _, q := range r0.Flips {
		stats[fmt.Sprintf("st%d", q.Status)]++
		if q.Grade == byte(types.GradeReported) {
			stats["reported"]++
		}
	}
	for _, x := range o0.Wr {
		if x >= 0 {
			stats["wrong"]++
		}
	}
	for _, l := range o0.Rw {
		stats["rewarded"] += len(l)
	}

	// variants: the same evaluation again; another arrival order with later duplicate submissions; an object restored
	// from what persist() wrote; the candidates listed in another order
	type variant struct {
		name string
		q    *ceremony.VerifQualification
	}
	vars := []variant{{"again", base}}
	if full {
		order := rnd.Perm(n)
		vars = append(vars, variant{"reins", fill(cfg, dbm.NewMemDB(), ps, order, true)})
		base.Persist()
		rest := ceremony.VerifNewQualification(cfg, database.NewEpochDb(db, 7))
		rest.Restore()
		vars = append(vars, variant{"restore", rest})
	}
	for _, v := range vars {
		w.Emit(tr.M{"ev": "FlipsV", "sid": sid, "var": v.name, "o": observe(v.q.QualifyFlips(uint(p.Nf), addrs, flips), p.Nf, ps)})
		stats["variants"]++
	}
	if full && n > 1 {
		perm := rnd.Perm(n)
		pa := make([]common.Address, n)
		pf := make([][]int, n)
		for i, k := range perm {
			pa[i] = addrs[k]
			pf[i] = flips[k]
		}
		w.Emit(tr.M{"ev": "FlipsV", "sid": sid, "var": "perm", "o": observe(base.QualifyFlips(uint(p.Nf), pa, pf), p.Nf, ps)})
		stats["variants"]++
	}

	// the candidates, long and short session, over the flip qualifications the real qualifyFlips returned
	fqm := r0.FlipQualMap()
	for k, c := range p.Cands {
		for _, short := range []bool{false, true} {
			fts := c.F
			ans := echo.Cands[k].C
			has := []int{0, 2, 1}[echo.Cands[k].S]
			if short {
				fts = c.Sf
				ans = echo.Cands[k].Sa
				has = echo.Cands[k].Hs
			}
			res := base.QualifyCandidate(ps[k].addr, fqm, fts, short, p.Na)
			w.Emit(tr.M{"ev": "Cand", "sid": sid, "k": k + 1, "short": short, "has": has, "au": c.Au, "hs": echo.Cands[k].Hs,
				"fts": nn(fts), "ans": ans, "na": nn(p.Na), "fq": fqProj(fqm, fts), "o": observeCand(res, fts, ps[k].addr)})
			stats["cands"]++
			if has == 0 {
				stats["nopayload"]++
			}
			if res.NoAnswer {
				stats["noanswer"]++
			}
			for _, v := range vars[1:] {
				w.Emit(tr.M{"ev": "CandV", "sid": sid, "var": v.name, "o": observeCand(v.q.QualifyCandidate(ps[k].addr, fqm, fts, short, p.Na), fts, ps[k].addr)})
				stats["variants"]++
			}
		}
	}
}

// ---- candidate contexts with free flip qualifications -------------------------------------------------------------------

type ctxT struct {
	Short bool    `json:"short"`
	Has   int     `json:"has"`
	Auth  int     `json:"auth"`
	Fts   []int   `json:"fts"`
	Ans   []cell  `json:"ans"`
	Na    []int   `json:"na"`
	Fq    [][]int `json:"fq"`
}

func runCtx(w *tr.W, seed int64, sid int, c ctxT, rnd *rand.Rand) {
	// a representative of the context's class: which payloads the object holds
	cand := candT{Au: 1, Hs: 2, S: 1}
	if c.Short {
		cand.Sf, cand.Sa = c.Fts, c.Ans
		cand.Hs = []int{0, 1, 2}[c.Has]
	} else {
		cand.F, cand.C = c.Fts, c.Ans
		cand.S = []int{0, 2, 1}[c.Has]
		if c.Auth == 0 {
			switch rnd.Intn(5) {
			case 0:
				cand.Au = 0
			case 1:
				cand.Au = 2
			case 2:
				cand.Au = 3
			case 3:
				cand.Hs = 0
			default:
				cand.Hs = 1
			}
		}
	}
	for _, u := range [][2]bool{{false, false}, {true, true}}[:1+rnd.Intn(2)] {
		cfg := cfgFor(u[0], u[1])
		ps := []payloads{mkPayloads(seed, sid, 0, cand)}
		db := dbm.NewMemDB()
		base := fill(cfg, db, ps, []int{0}, false)
		echo := readBack(base, ps[0].addr, cand)
		fqm := map[int]ceremony.VerifFlipQual{}
		for _, e := range c.Fq {
			fqm[e[0]] = ceremony.VerifFlipQual{Status: byte(e[1]), Answer: byte(e[2]), Grade: byte(e[3])}
		}
		has, ans := []int{0, 2, 1}[echo.S], echo.C
		if c.Short {
			has, ans = echo.Hs, echo.Sa
		}
		res := base.QualifyCandidate(ps[0].addr, fqm, c.Fts, c.Short, c.Na)
		w.Emit(tr.M{"ev": "Cand", "sid": sid, "k": 1, "short": c.Short, "has": has, "au": cand.Au, "hs": echo.Hs,
			"fts": nn(c.Fts), "ans": ans, "na": nn(c.Na), "fq": c.Fq, "o": observeCand(res, c.Fts, ps[0].addr)})
		stats["ctxs"]++
		if has == 0 {
			stats["nopayload"]++
		}
		base.Persist()
		rest := ceremony.VerifNewQualification(cfg, database.NewEpochDb(db, 7))
		rest.Restore()
		w.Emit(tr.M{"ev": "CandV", "sid": sid, "var": "restore", "o": observeCand(rest.QualifyCandidate(ps[0].addr, fqm, c.Fts, c.Short, c.Na), c.Fts, ps[0].addr)})
		dup := fill(cfg, dbm.NewMemDB(), ps, []int{0}, true)
		w.Emit(tr.M{"ev": "CandV", "sid": sid, "var": "reins", "o": observeCand(dup.QualifyCandidate(ps[0].addr, fqm, c.Fts, c.Short, c.Na), c.Fts, ps[0].addr)})
		stats["variants"] += 2
	}
}

// ---- the case table of qualifyOneFlip ------------------------------------------------------------------------------------

type oneT struct {
	L   int  `json:"l"`
	R   int  `json:"r"`
	N   int  `json:"n"`
	Rep int  `json:"rep"`
	Ap  int  `json:"ap"`
	Tg  int  `json:"tg"`
	Rcs int  `json:"rcs"`
	Gcs int  `json:"gcs"`
	U10 bool `json:"u10"`
	U11 bool `json:"u11"`
}

func runOne(w *tr.W, id int, c oneT, rnd *rand.Rand) {
	cfg := cfgFor(c.U10, c.U11)
	ans := make([]types.Answer, 0, c.L+c.R+c.N)
	for i := 0; i < c.L; i++ {
		ans = append(ans, types.Left)
	}
	for i := 0; i < c.R; i++ {
		ans = append(ans, types.Right)
	}
	for i := 0; i < c.N; i++ {
		ans = append(ans, types.None)
	}
	rnd.Shuffle(len(ans), func(i, j int) { ans[i], ans[j] = ans[j], ans[i] })
	q := ceremony.VerifQualifyOneFlip(cfg, ans, c.Rep, c.Tg, c.Ap, c.Rcs, c.Gcs)
	w.Emit(tr.M{"ev": "One", "id": id, "l": c.L, "r": c.R, "n": c.N, "rep": c.Rep, "ap": c.Ap, "tg": c.Tg, "rcs": c.Rcs, "gcs": c.Gcs,
		"u10": cfg.Consensus.EnableUpgrade10, "u11": cfg.Consensus.EnableUpgrade11, "o": flipObs(q)})
	stats["ones"]++
}

// ---- the reporters book ------------------------------------------------------------------------------------------------------

type opT struct {
	Op     string `json:"op"`
	F      int    `json:"f"`
	R      int    `json:"r"`
	St     int    `json:"st"`
	Missed bool   `json:"missed"`
	Af     []int  `json:"af"`
	Any    bool   `json:"any"`
}

func runBook(w *tr.W, seed int64, sid int, ops []opT) {
	addr := func(r int) common.Address {
		h := sha256.Sum256([]byte(fmt.Sprintf("reporter-%d-%d-%d", seed, sid, r)))
		return common.BytesToAddress(h[:20])
	}
	num := map[common.Address]int{}
	for r := 0; r < 16; r++ {
		num[addr(r)] = r
	}
	b := ceremony.VerifNewBook()
	w.Emit(tr.M{"ev": "BookNew", "sid": sid})
	for _, o := range ops {
		switch o.Op {
		case "add":
			b.AddReport(o.F, addr(o.R))
		case "delf":
			b.DeleteFlip(o.F)
		case "delr":
			b.DeleteReporter(addr(o.R))
		case "res":
			cc := *config.ConsensusVersions[config.ConsensusV12]
			if !o.Any {
				cc.ReportsRewardPercent = 0
			}
			b.SetValidationResult(addr(o.R), state.IdentityState(o.St), o.Missed, map[common.Address][]int{addr(o.R): o.Af}, &cc)
		default:
			panic("harness: unknown book operation " + o.Op)
		}
		s := b.Snapshot()
		bf, br, ba := [][]int{}, [][]int{}, [][]int{}
		ptr := true
		for _, e := range s.ByFlip {
			bf = append(bf, []int{e.Flip, num[e.Reporter], int(e.NewIdentityState)})
			ptr = ptr && e.SameObject
		}
		for a, l := range s.ByReporter {
			for _, f := range l {
				br = append(br, []int{num[a], f})
			}
			if len(l) == 0 {
				br = append(br, []int{num[a], -1})
			}
		}
		for a, st := range s.ByAddr {
			ba = append(ba, []int{num[a], int(st)})
		}
		less := func(l [][]int) func(i, j int) bool {
			return func(i, j int) bool {
				if l[i][0] != l[j][0] {
					return l[i][0] < l[j][0]
				}
				return l[i][1] < l[j][1]
			}
		}
		sort.Slice(br, less(br))
		sort.Slice(ba, less(ba))
		w.Emit(tr.M{"ev": "Book", "sid": sid, "op": o.Op, "f": o.F, "r": o.R, "st": o.St, "ok": state.IdentityState(o.St).NewbieOrBetter(),
			"missed": o.Missed, "af": nn(o.Af), "any": o.Any, "bf": bf, "br": br, "ba": ba, "ef": nn(s.EmptyFlips), "ptr": ptr,
			"cf": b.FlipReportsCount(o.F), "cr": b.ReportedFlipsCountByReporter(addr(o.R))})
		stats["bookops"]++
		stats["book_"+o.Op]++
	}
}

// ---- main ----------------------------------------------------------------------------------------------------------------------

func main() {
	log.Root().SetHandler(log.DiscardHandler())
	one := flag.String("one", "", "case table of qualifyOneFlip (json lines {id, case})")
	pops := flag.String("pops", "", "populations (json lines {sid, pop})")
	cands := flag.String("cands", "", "candidate contexts (json lines {sid, ctx})")
	books := flag.String("books", "", "book operation sequences (json lines {sid, ops})")
	random := flag.Int("random", 0, "number of seeded random scenarios of every kind")
	first := flag.Int("first", 0, "first scenario id of the random scenarios")
	lean := flag.Int("lean", 1, "run the arrival-order / restore / candidate-order variants for every lean-th population only")
	out := flag.String("out", "", "trace output")
	flag.Parse()
	seed := tr.Seed()
	w := tr.Create(*out)
	defer w.Close()
	rnd := rand.New(rand.NewSource(seed*7919 + int64(*first)))

	if *one != "" {
		tr.ReadLines(*one, func(raw []byte) {
			var e struct {
				Id   int  `json:"id"`
				Case oneT `json:"case"`
			}
			if err := json.Unmarshal(raw, &e); err != nil {
				panic(err)
			}
			runOne(w, e.Id, e.Case, rnd)
		})
	}
	if *pops != "" {
		i := 0
		tr.ReadLines(*pops, func(raw []byte) {
			var e struct {
				Sid int  `json:"sid"`
				Pop popT `json:"pop"`
			}
			if err := json.Unmarshal(raw, &e); err != nil {
				panic(err)
			}
			runPop(w, seed, e.Sid, e.Pop, rnd, i%*lean == 0)
			i++
		})
	}
	if *cands != "" {
		tr.ReadLines(*cands, func(raw []byte) {
			var e struct {
				Sid int  `json:"sid"`
				Ctx ctxT `json:"ctx"`
			}
			if err := json.Unmarshal(raw, &e); err != nil {
				panic(err)
			}
			runCtx(w, seed, e.Sid, e.Ctx, rnd)
		})
	}
	if *books != "" {
		tr.ReadLines(*books, func(raw []byte) {
			var e struct {
				Sid int   `json:"sid"`
				Ops []opT `json:"ops"`
			}
			if err := json.Unmarshal(raw, &e); err != nil {
				panic(err)
			}
			runBook(w, seed, e.Sid, e.Ops)
		})
	}
	for i := 0; i < *random; i++ {
		sid := *first + i
		runOne(w, -1, randomOne(rnd), rnd)
		runOne(w, -1, randomOne(rnd), rnd)
		runPop(w, seed, sid, randomPop(rnd), rnd, true)
		runCtx(w, seed, sid, randomCtx(rnd), rnd)
		if i%4 == 0 {
			runBook(w, seed, sid, randomBook(rnd))
		}
	}
	keys := make([]string, 0, len(stats))
	for k := range stats {
		keys = append(keys, k)
	}
	sort.Strings(keys)
	line := ""
	for _, k := range keys {
		line += fmt.Sprintf("%s=%d ", k, stats[k])
	}
	fmt.Fprintf(os.Stdout, "lines=%d %s\n", w.N, line)
}
