// d_overlaydb replays operation sequences on the real database.BackedMemDb / backedMemBatch over a
// tm-db MemDB and logs, after the last operation of each sequence, the complete observation of the
// overlay (Get, Has, forward and reverse iteration over every border pair) plus whether the
// underlying store is byte-identical to what it was (C13).
//
//	d_overlaydb -cases <file> -out <trace>      sequences exported by TLC (MC_OverlayDb)
//	d_overlaydb -random N -len L -keys K -out <trace>   seeded random sequences, observation after every op
package main

import (
	"bytes"
	"encoding/json"
	"flag"
	"fmt"
	"math/rand"
	"os"

	"github.com/idena-network/idena-go/database"
	dbm "github.com/tendermint/tm-db"

	"verifh/internal/tr"
)

type op struct {
	Ev  string `json:"ev"`
	K   int    `json:"k"`
	V   int    `json:"v"`
	Ops []struct {
		Op string `json:"op"`
		K  int    `json:"k"`
		V  int    `json:"v"`
	} `json:"ops"`
}

type tcase struct {
	Base [][2]int `json:"base"`
	Path []op     `json:"path"`
}

func key(i int) []byte {
	if i == 0 {
		return nil
	}
	return []byte{byte(i)}
}

func val(v int) []byte {
	if v == 3 {
		return []byte{}
	}
	return []byte{byte(v)}
}

func unval(b []byte) int {
	if b == nil {
		return 0
	}
	if len(b) == 0 {
		return 3
	}
	return int(b[0])
}

func digest(d dbm.DB) string {
	var buf bytes.Buffer
	it, err := d.Iterator(nil, nil)
	if err != nil {
		panic(err)
	}
	defer it.Close()
	for ; it.Valid(); it.Next() {
		fmt.Fprintf(&buf, "%x=%x;", it.Key(), it.Value())
	}
	return buf.String()
}

// the batch object of the step-by-step batch operations (one at a time)
var openBatch dbm.Batch

func apply(d *database.BackedMemDb, o op) string {
	switch o.Ev {
	case "BOpen":
		openBatch = d.NewBatch()
	case "BSet":
		if err := openBatch.Set(key(o.K), val(o.V)); err != nil {
			return err.Error()
		}
	case "BDel":
		if err := openBatch.Delete(key(o.K)); err != nil {
			return err.Error()
		}
	case "BWrite":
		if err := openBatch.Write(); err != nil {
			return err.Error()
		}
		openBatch.Close()
		openBatch = nil
	case "BDiscard":
		openBatch.Close()
		openBatch = nil
	case "Set":
		if err := d.Set(key(o.K), val(o.V)); err != nil {
			return err.Error()
		}
	case "Delete":
		if err := d.Delete(key(o.K)); err != nil {
			return err.Error()
		}
	case "Batch":
		b := d.NewBatch()
		for _, x := range o.Ops {
			if x.Op == "set" {
				b.Set(key(x.K), val(x.V))
			} else {
				b.Delete(key(x.K))
			}
		}
		if err := b.Write(); err != nil {
			return err.Error()
		}
		b.Close()
	default:
		panic("unknown op " + o.Ev)
	}
	return ""
}

func iterate(d dbm.DB, s, e int, rev bool) [][2]int {
	var it dbm.Iterator
	var err error
	if rev {
		it, err = d.ReverseIterator(key(s), key(e))
	} else {
		it, err = d.Iterator(key(s), key(e))
	}
	if err != nil {
		panic(err)
	}
	defer it.Close()
	out := [][2]int{}
	for n := 0; it.Valid(); it.Next() {
		out = append(out, [2]int{int(it.Key()[0]), unval(it.Value())})
		if n++; n > 1000 {
			out = append(out, [2]int{-1, -1}) // runaway iterator
			break
		}
	}
	return out
}

func observe(d *database.BackedMemDb, perm dbm.DB, dig0 string, keys []int, borders []int) tr.M {
	get := [][2]int{}
	has := [][2]int{}
	for _, k := range keys {
		v, err := d.Get(key(k))
		if err != nil {
			panic(err)
		}
		get = append(get, [2]int{k, unval(v)})
		h, _ := d.Has(key(k))
		hi := 0
		if h {
			hi = 1
		}
		has = append(has, [2]int{k, hi})
	}
	iters := []tr.M{}
	bs := append([]int{0}, borders...)
	for _, s := range bs {
		for _, e := range bs {
			for _, rev := range []bool{false, true} {
				iters = append(iters, tr.M{"s": s, "e": e, "r": rev, "out": iterate(d, s, e, rev)})
			}
		}
	}
	return tr.M{"ev": "Obs", "get": get, "has": has, "iter": iters, "baseSame": digest(perm) == dig0}
}

func opLine(o op) tr.M {
	switch o.Ev {
	case "Batch":
		return tr.M{"ev": "Batch", "ops": o.Ops}
	case "BOpen", "BWrite", "BDiscard":
		return tr.M{"ev": o.Ev}
	default:
		return tr.M{"ev": o.Ev, "k": o.K, "v": o.V}
	}
}

func main() {
	cases := flag.String("cases", "", "TLC export (json lines)")
	out := flag.String("out", "", "trace output")
	random := flag.Int("random", 0, "number of random sequences")
	rlen := flag.Int("len", 50, "length of random sequences")
	nkeys := flag.Int("keys", 3, "number of keys in random mode")
	nvals := flag.Int("vals", 3, "number of values in random mode")
	flag.Parse()
	w := tr.Create(*out)
	defer w.Close()
	nseq := 0
	if *cases != "" {
		tr.ReadLines(*cases, func(raw []byte) {
			var c tcase
			if err := json.Unmarshal(raw, &c); err != nil {
				panic(err)
			}
			perm := dbm.NewMemDB()
			var keys, borders []int
			for _, kv := range c.Base {
				keys = append(keys, kv[0])
				if kv[1] != 0 {
					perm.Set(key(kv[0]), val(kv[1]))
				}
			}
			for b := 1; b <= keys[len(keys)-1]+1; b++ {
				borders = append(borders, b)
			}
			dig0 := digest(perm)
			d := database.NewBackedMemDb(perm)
			openBatch = nil
			w.Emit(tr.M{"ev": "Reset", "base": c.Base})
			for _, o := range c.Path {
				if e := apply(d, o); e != "" {
					panic("op failed: " + e)
				}
				w.Emit(opLine(o))
			}
			w.Emit(observe(d, perm, dig0, keys, borders))
			nseq++
		})
	}
	if *random > 0 {
		rnd := rand.New(rand.NewSource(tr.Seed()))
		var keys, borders []int
		for i := 1; i <= *nkeys; i++ {
			keys = append(keys, 2*i)
		}
		for b := 1; b <= 2**nkeys+1; b++ {
			borders = append(borders, b)
		}
		for s := 0; s < *random; s++ {
			perm := dbm.NewMemDB()
			base := [][2]int{}
			for _, k := range keys {
				v := 0
				if rnd.Intn(2) == 0 {
					v = 1 + rnd.Intn(*nvals)
					perm.Set(key(k), val(v))
				}
				base = append(base, [2]int{k, v})
			}
			dig0 := digest(perm)
			d := database.NewBackedMemDb(perm)
			openBatch = nil
			w.Emit(tr.M{"ev": "Reset", "base": base})
			for i := 0; i < *rlen; i++ {
				var o op
				c := rnd.Intn(7)
				if openBatch != nil && c >= 4 {
					switch rnd.Intn(5) {
					case 0:
						o = op{Ev: "BWrite"}
					case 1:
						o = op{Ev: "BDiscard"}
					case 2:
						o = op{Ev: "BDel", K: keys[rnd.Intn(len(keys))]}
					default:
						o = op{Ev: "BSet", K: keys[rnd.Intn(len(keys))], V: 1 + rnd.Intn(*nvals)}
					}
					c = -1
				} else if openBatch == nil && c >= 5 {
					o = op{Ev: "BOpen"}
					c = -1
				} else if c >= 4 {
					c = 3
				}
				switch c {
				case -1:
				case 0, 1:
					o = op{Ev: "Set", K: keys[rnd.Intn(len(keys))], V: 1 + rnd.Intn(*nvals)}
				case 2:
					o = op{Ev: "Delete", K: keys[rnd.Intn(len(keys))]}
				default:
					o = op{Ev: "Batch"}
					n := 1 + rnd.Intn(4)
					for j := 0; j < n; j++ {
						x := struct {
							Op string `json:"op"`
							K  int    `json:"k"`
							V  int    `json:"v"`
						}{"set", keys[rnd.Intn(len(keys))], 1 + rnd.Intn(*nvals)}
						if rnd.Intn(3) == 0 {
							x.Op, x.V = "del", 0
						}
						o.Ops = append(o.Ops, x)
					}
				}
				if e := apply(d, o); e != "" {
					panic("op failed: " + e)
				}
				w.Emit(opLine(o))
				// observation with a seeded sample of ranges (full Get/Has)
				ob := observe(d, perm, dig0, keys, borders)
				its := ob["iter"].([]tr.M)
				var pick []tr.M
				for j := 0; j < 6; j++ {
					pick = append(pick, its[rnd.Intn(len(its))])
				}
				ob["iter"] = pick
				w.Emit(ob)
			}
			nseq++
		}
	}
	fmt.Fprintf(os.Stderr, "sequences=%d lines=%d\n", nseq, w.N)
}
