// d_rewards drives real idena-go chains through whole epochs whose validation outcome is a population exported by TLC
// from spec/MC_Rewards.tla (or drawn by the seeded generator) and records what the epoch reward distribution
// (blockchain/rewards.go: rewardValidIdentities inside applyNewEpoch) did, for validation against spec/Trace_Rewards.tla
// (growth module "REW" of C04).
//
// A case is an abstract population: <= 5 identities (+ the god / foundation address, the zero wallet, a pool address),
// each with a previous status, a validation outcome, an age class, a stake class, a delegation, flips by class, reports on
// reported flips of others, and an inviter.  The driver makes it REAL history, nothing of it is written into the state
// by hand:
//
//	genesis allocation (statuses, balances, stakes)  ->  epochs 0 .. E-1: real InviteTx / ActivationTx create the inviter
//	links in the epoch that gives the invitee its age, real validation outcomes (through the ceremony's own result
//	assembly) give every identity its birthday and the status it has when epoch E starts, the real epoch blocks pay
//	their rewards and hand out invitations  ->  epoch E: real DelegateTx (+ the delegation switch block), real
//	ReplenishStakeTx, then the flip qualifications, reports and outcomes of the case go through the ceremony's own
//	assembly code (analyzeAuthors, incSuccessfulInvites, ... - core/ceremony/verif_shim_rewards.go) into the per-height
//	result cache of EVERY replica's ceremony, and the real ApplyNewEpoch / applyNewEpoch / rewardValidIdentities run inside
//	real ProposeBlock (proposer, twice) and AddBlock (every replica, each with its own RECORDING stats collector).
//
// For every epoch block (the set-up epochs too) the trace gets: the population as it REALLY is (statuses, birthdays,
// delegatees, inviter links, stakes read from the committed state before and after the block; outcomes / flips / reports
// as injected), the credits every real step of rewardValidIdentities reported to the stats collector (category, stake
// owner, balance destination, balance part, stake part), the ledger before and after, what each replica did.  The driver
// decides nothing about the property: all clauses are evaluated by TLC on the recorded trace.
package main

import (
	"crypto/sha256"
	"encoding/hex"
	"encoding/json"
	"flag"
	"fmt"
	"math"
	"math/big"
	"math/rand"
	"os"
	"runtime/pprof"
	"sort"
	"strings"
	"time"

	"github.com/idena-network/idena-go/blockchain/types"
	"github.com/idena-network/idena-go/blockchain/validation"
	"github.com/idena-network/idena-go/common"
	"github.com/idena-network/idena-go/config"
	"github.com/idena-network/idena-go/core/appstate"
	"github.com/idena-network/idena-go/core/ceremony"
	"github.com/idena-network/idena-go/core/state"
	"github.com/idena-network/idena-go/crypto"
	"github.com/idena-network/idena-go/stats/collector"
	"github.com/shopspring/decimal"

	"verifh/internal/sim"
	"verifh/internal/tr"
)

// ---------------------------------------------------------------------------------------------
// cases

type idSpec struct {
	Prev    string `json:"prev"`    // C N V H S Z: status when the measured epoch starts
	New     string `json:"new"`     // N V H S Z K: status the validation gives
	Missed  bool   `json:"missed"`  // missed the validation
	Age     int    `json:"age"`     // 0 = first validation now (candidate), 1, 2 = validated first 1 / 2 epochs ago, 3 = older
	Stake   int    `json:"stake"`   // 0 zero, 1 small, 2 large
	Deleg   bool   `json:"deleg"`   // delegates to the case's pool
	Good    int    `json:"good"`    // qualified flips (not reported)
	Rep     int    `json:"rep"`     // flips qualified as REPORTED
	Nq      int    `json:"nq"`      // flips that were not qualified
	Reports []int  `json:"reports"` // identities whose reported flip this identity reported (1-based)
	Inviter int    `json:"inviter"` // -1 none, 0 god, j = identity j
}

type caseSpec struct {
	Id   int      `json:"id"`
	Src  string   `json:"src"`  // which model family exported it (single / pair / walk / random)
	Pat  string   `json:"pat"`  // entitlement pattern as the model computed it (coverage bookkeeping only)
	Upg  int      `json:"upg"`  // consensus version in force: 9 .. 12
	God  string   `json:"god"`  // V = the god address is a validated identity, U = it has no identity
	Pool int      `json:"pool"` // 0 = the pool is an address without identity, j = identity j is the pool
	Ids  []idSpec `json:"ids"`
}

// the measured epoch of a case is the first one in which its age classes exist: epochs 0 .. E-1 build birthdays, inviter
// links and the invitation stock (an identity of age class a < 3 is born in epoch E-a; an inviter that is not the god
// address gets its invitation from the epoch block before that)
func measuredEpoch(cs *caseSpec) int {
	e := 1
	for _, id := range cs.Ids {
		if id.Age < 3 && id.Age+1 > e {
			e = id.Age + 1
		}
		if backFromSuspension(id) && e < 2 {
			e = 2
		}
	}
	return e
}

// an old Verified identity WITHOUT stake: it sat out every earlier epoch suspended (no reward ever reached it) and came
// back at the validation before the measured epoch
func backFromSuspension(id idSpec) bool { return id.Age >= 3 && id.Prev == "V" && id.Stake == 0 }

var stOf = map[string]state.IdentityState{"U": state.Undefined, "C": state.Candidate, "N": state.Newbie, "V": state.Verified, "H": state.Human,
	"S": state.Suspended, "Z": state.Zombie, "K": state.Killed}

// ---------------------------------------------------------------------------------------------
// recording stats collector: the repository's own interface (stats/collector) receives every reward with its category

type credit struct {
	Aux   *big.Int // staking: the staked amount the code weighted
	Cat   string
	Who   common.Address // stake destination = the identity that earned it
	Dest  common.Address // balance destination (the identity or its pool)
	Bal   *big.Int
	Stake *big.Int
}

type recorder struct {
	collector.StatsCollector
	credits  []credit
	totals   map[string]*big.Int // category pool as the code announced it (SetTotal...Reward)
	total    *big.Int
	minted   *big.Int
	burnt    *big.Int
	nonValid map[common.Address]*big.Int
	results  bool
}

func newRecorder() *recorder {
	return &recorder{StatsCollector: collector.NewStatsCollector(), totals: map[string]*big.Int{}, minted: new(big.Int), burnt: new(big.Int),
		nonValid: map[common.Address]*big.Int{}}
}

func cp(x *big.Int) *big.Int {
	if x == nil {
		return new(big.Int)
	}
	return new(big.Int).Set(x)
}

func (r *recorder) add(cat string, dest, who common.Address, bal, stake *big.Int) {
	r.credits = append(r.credits, credit{Cat: cat, Who: who, Dest: dest, Bal: cp(bal), Stake: cp(stake)})
}

func (r *recorder) SetValidationResults(v map[common.ShardId]*types.ValidationResults) {
	r.results = true
}
func (r *recorder) SetTotalReward(a *big.Int)                        { r.total = cp(a) }
func (r *recorder) SetTotalStakingReward(a *big.Int, s *big.Int)     { r.totals["staking"] = cp(a) }
func (r *recorder) SetTotalCandidateReward(a *big.Int, s *big.Int)   { r.totals["candidate"] = cp(a) }
func (r *recorder) SetTotalFlipsBasicReward(a *big.Int, s *big.Int)  { r.totals["flipsBasic"] = cp(a) }
func (r *recorder) SetTotalFlipsExtraReward(a *big.Int, s *big.Int)  { r.totals["flipsExtra"] = cp(a) }
func (r *recorder) SetTotalReportsReward(a *big.Int, s *big.Int)     { r.totals["reports"] = cp(a) }
func (r *recorder) SetTotalInvitationsReward(a *big.Int, s *big.Int) { r.totals["invitations"] = cp(a) }
func (r *recorder) SetTotalFoundationPayouts(a *big.Int)             { r.totals["foundation"] = cp(a) }
func (r *recorder) SetTotalZeroWalletFund(a *big.Int)                { r.totals["zero"] = cp(a) }
func (r *recorder) AddCandidateReward(bd, sd common.Address, b, s *big.Int) {
	r.add("candidate", bd, sd, b, s)
}
func (r *recorder) AddStakingReward(bd, sd common.Address, staked *big.Int, b, s *big.Int) {
	r.add("staking", bd, sd, b, s)
	r.credits[len(r.credits)-1].Aux = cp(staked)
}
func (r *recorder) AddFlipsBasicReward(bd, sd common.Address, b, s *big.Int, f []*types.FlipToReward) {
	r.add("flipsBasic", bd, sd, b, s)
}
func (r *recorder) AddFlipsExtraReward(bd, sd common.Address, b, s *big.Int, f []*types.FlipToReward) {
	r.add("flipsExtra", bd, sd, b, s)
}
func (r *recorder) AddReportedFlipsReward(bd, sd common.Address, shard common.ShardId, flipIdx int, b, s *big.Int) {
	r.add("reports", bd, sd, b, s)
}
func (r *recorder) AddInvitationsReward(bd, sd common.Address, b, s *big.Int, age uint16, txHash *common.Hash, epochHeight uint32, w bool) {
	r.add(fmt.Sprintf("inviter%d", age), bd, sd, b, s)
}
func (r *recorder) AddInviteeReward(addr common.Address, s *big.Int, age uint16, txHash common.Hash, epochHeight uint32) {
	r.add(fmt.Sprintf("invitee%d", age), addr, addr, nil, s)
}
func (r *recorder) AddFoundationPayout(addr common.Address, b *big.Int) {
	r.add("foundation", addr, addr, b, nil)
}
func (r *recorder) AddZeroWalletFund(addr common.Address, b *big.Int) {
	r.add("zero", addr, addr, b, nil)
}
func (r *recorder) AddProposerReward(bd, sd common.Address, b, s *big.Int, w *big.Float) {
	r.add("proposer", bd, sd, b, s)
}
func (r *recorder) AddFinalCommitteeReward(bd, sd common.Address, b, s *big.Int, w *big.Float) {
	r.add("committee", bd, sd, b, s)
}
func (r *recorder) AddMintedCoins(a *big.Int) {
	if a != nil {
		r.minted.Add(r.minted, a)
	}
}
func (r *recorder) AddKilledBurntCoins(addr common.Address, a *big.Int) {
	if a != nil {
		r.burnt.Add(r.burnt, a)
	}
}
func (r *recorder) AddNonValidatedStake(addr common.Address, a *big.Int) { r.nonValid[addr] = cp(a) }

// ---------------------------------------------------------------------------------------------
// world

type replica struct {
	name string
	n    *sim.Node
	vc   *ceremony.ValidationCeremony
}

type world struct {
	w          *sim.World
	rnd        *rand.Rand
	out        *tr.W
	hid        int
	cs         *caseSpec
	E          int // the measured epoch
	anchor     int // key of a bystander identity that is validated in every epoch (0 = none)
	n          int // identities 1..n
	pool       int // key of the pool address (0 = none)
	ext        int // key of the address without identity that may serve as pool
	stran      int // key of the follower node
	reps       []*replica
	prop       *replica
	tl         [][]state.IdentityState // tl[i][e] = status of identity i during epoch e (e = E+1: after the measured validation)
	birth      []int                   // epoch in which identity i becomes a candidate (-1: in the genesis state)
	stats      *runStats
	nonce      map[int]uint32
	nonceEpoch uint16
	dead       string
}

type runStats struct {
	cases, worlds, blocks, epochs, measured, txs, unreal, refused, invites, delegs, full int
	cats                                                                                 map[string]int
}

func consensus(upg int) *config.ConsensusConf {
	base := *config.GetDefaultConsensusConfig()
	for v := config.ConsensusV10; v <= config.ConsensusVerson(upg) && v <= config.ConsensusV12; v++ {
		config.ApplyConsensusVersion(v, &base)
	}
	base.Automine = true
	return &base
}

// timeline of an identity that exists since genesis (age class 3): its status in every epoch, given the status it must
// have when the measured epoch starts and the epochs in which it has to hold an invitation (Verified / Human then)
func oldTimeline(E int, prev state.IdentityState, invEpochs []int) []state.IdentityState {
	tl := make([]state.IdentityState, E+1)
	last := -1
	for _, e := range invEpochs {
		if e > last {
			last = e
		}
	}
	switch prev {
	case state.Verified, state.Human, state.Newbie:
		for e := 0; e <= E; e++ {
			tl[e] = prev
		}
	case state.Suspended:
		for e := 0; e <= E; e++ {
			tl[e] = state.Suspended
		}
		if last >= 0 {
			for e := 0; e < E; e++ {
				tl[e] = state.Verified
			}
		}
	case state.Zombie:
		for e := 0; e <= E; e++ {
			tl[e] = state.Zombie
		}
		if last >= 0 {
			for e := 0; e < E-1; e++ {
				tl[e] = state.Verified
			}
			if E >= 1 {
				tl[E-1] = state.Suspended
			}
		}
	}
	return tl
}

func newWorld(seed int64, hid int, cs *caseSpec, out *tr.W, st *runStats) *world {
	n := len(cs.Ids)
	sw := sim.NewWorld(seed*100003+int64(hid), n+4)
	rnd := rand.New(rand.NewSource(seed*7919 + int64(hid)))
	sw.Cons = consensus(cs.Upg)
	// chain parameters (not rules): quick delegation switches, one invitation per validated inviter and epoch, quick unlock age
	sw.Cons.DelegationSwitchRange = 3
	sw.Cons.StatusSwitchRange = 50
	sw.Cons.InvitesPercent = 2.0
	if rnd.Intn(2) == 0 {
		sw.Cons.UnlockStakeAge = 2
	}
	sw.ValCfg.FlipLotteryDuration = 5 * time.Minute
	sw.ValCfg.ShortSessionDuration = 2 * time.Minute
	sw.ValCfg.LongSessionDuration = 10 * time.Minute
	sw.ValCfg.ValidationInterval = 24 * time.Hour
	sw.FirstCeremony = 1693666800
	E := measuredEpoch(cs)
	w := &world{w: sw, rnd: rnd, out: out, hid: hid, cs: cs, n: n, ext: n + 1, stran: n + 2, stats: st, nonce: map[int]uint32{}, E: E}
	if n == 1 && cs.Id%4 != 0 {
		// a validation in which nobody is validated FAILS (nothing is applied, nothing is paid): three of four one-identity
		// worlds get a bystander that is validated in every epoch, so that the identity's own failure is a failure among others
		w.anchor = n + 3
	}
	if cs.Pool > 0 {
		w.pool = cs.Pool
	} else {
		w.pool = w.ext
	}
	// who needs an invitation in which epoch
	invEpochs := map[int][]int{}
	w.birth = make([]int, n+1)
	for i := 1; i <= n; i++ {
		id := cs.Ids[i-1]
		w.birth[i] = -1
		if id.Age < 3 && id.Inviter >= 0 {
			w.birth[i] = E - id.Age
			invEpochs[id.Inviter] = append(invEpochs[id.Inviter], E-id.Age)
		}
	}
	w.tl = make([][]state.IdentityState, n+1)
	for i := 1; i <= n; i++ {
		id := cs.Ids[i-1]
		prev := stOf[id.Prev]
		switch {
		case backFromSuspension(id):
			tl := make([]state.IdentityState, E+1)
			for e := 0; e < E; e++ {
				tl[e] = state.Suspended
			}
			tl[E] = state.Verified
			w.tl[i] = tl
		case id.Age >= 3:
			w.tl[i] = oldTimeline(E, prev, invEpochs[i])
		default:
			b := E - id.Age
			tl := make([]state.IdentityState, E+1)
			for e := 0; e <= E; e++ {
				switch {
				case e < b && w.birth[i] >= 0:
					tl[e] = state.Undefined
				case e <= b:
					tl[e] = state.Candidate
				default:
					tl[e] = state.Newbie
				}
			}
			tl[E] = prev
			w.tl[i] = tl
		}
	}
	// genesis
	godStake := sim.Dna(int64(1000+rnd.Intn(9000)), 1)
	godState := state.Verified
	if cs.God == "U" {
		godState, godStake = state.Undefined, nil
	}
	sw.Allocs = append(sw.Allocs, sim.Alloc{Key: 0, State: godState, Balance: sim.Dna(10000000, 1), Stake: godStake})
	for i := 1; i <= n; i++ {
		a := sim.Alloc{Key: i, State: w.tl[i][0], Balance: sim.Dna(int64(2000+rnd.Intn(3000)), 1)}
		if w.tl[i][0] != state.Undefined {
			a.Stake = w.stakeOf(cs.Ids[i-1].Stake)
		}
		sw.Allocs = append(sw.Allocs, a)
	}
	if w.anchor > 0 {
		sw.Allocs = append(sw.Allocs, sim.Alloc{Key: w.anchor, State: state.Verified, Balance: sim.Dna(1234, 1), Stake: w.stakeOf(2)})
	}
	sw.Allocs = append(sw.Allocs, sim.Alloc{Key: w.ext, State: state.Undefined, Balance: sim.Dna(777, 1)})
	sw.Allocs = append(sw.Allocs, sim.Alloc{Key: w.stran, State: state.Undefined, Balance: sim.Dna(555, 1)})
	for _, k := range []int{0, w.stran} {
		nd := sw.NewNode(k)
		if nd.BootErr != nil {
			panic(nd.BootErr)
		}
		r := &replica{name: fmt.Sprintf("r%d", k), n: nd}
		r.vc = ceremony.VerifNewCeremony(nd.App, nd.Bus, nd.Sec, nd.DB, nd.Pool, nd.Chain, nd.Cfg)
		nd.Chain.ProvideApplyNewEpochFunc(r.vc.ApplyNewEpoch)
		w.reps = append(w.reps, r)
	}
	w.prop = w.reps[0]
	st.worlds++
	return w
}

func (w *world) close() {
	for _, r := range w.reps {
		r.n.Close()
	}
}

// a stake of the class: 0 none, 1 small (below 100 DNA, odd fractions), 2 large (thousands)
func (w *world) stakeOf(class int) *big.Int {
	switch class {
	case 1:
		return new(big.Int).Add(sim.Dna(int64(1+w.rnd.Intn(90)), 1), sim.Dna(int64(w.rnd.Intn(1000000)), 1000003))
	case 2:
		return new(big.Int).Add(sim.Dna(int64(1000+w.rnd.Intn(90000)), 1), sim.Dna(int64(w.rnd.Intn(1000000)), 999983))
	}
	return nil
}

func (w *world) ro() *appstate.AppState {
	s, err := w.prop.n.App.ForCheck(w.prop.n.Chain.Head.Height())
	if err != nil {
		panic(err)
	}
	return s
}

func (w *world) name(a common.Address) int {
	if a == (common.Address{}) {
		return 9
	}
	if i := w.w.Index(a); i >= 0 && i < 9 {
		return i
	}
	panic("an address outside the world's keys holds coins: " + a.Hex())
}

// ---------------------------------------------------------------------------------------------
// blocks

func (w *world) mkTx(from int, typ types.TxType, to *common.Address, amount *big.Int, payload []byte) *types.Transaction {
	s := w.prop.n.App.State
	a := w.w.Addrs[from]
	ep := s.Epoch()
	nn := s.GetNonce(a)
	if s.GetEpoch(a) < ep {
		nn = 0
	}
	if w.nonceEpoch != ep {
		w.nonce, w.nonceEpoch = map[int]uint32{}, ep
	}
	if p, ok := w.nonce[from]; ok && p > nn {
		nn = p
	}
	nn++
	w.nonce[from] = nn
	w.stats.txs++
	return w.w.Tx(sim.TxSpec{From: from, To: to, Type: typ, Amount: amount, MaxFee: sim.Dna(100, 1), Nonce: nn, Epoch: ep, Payload: payload})
}

// block proposes one block on the proposer's head with the given submissions and inserts it on every replica; an epoch
// block is recorded.  Returns false when the world cannot go on.
func (w *world) block(delay int64, txs []*types.Transaction, inject func(height uint64) *epochIn) bool {
	prop := w.prop
	for _, tx := range txs {
		for _, r := range w.reps {
			cpy := new(types.Transaction)
			raw, err := tx.ToBytes()
			if err != nil || cpy.FromBytes(raw) != nil {
				panic("transaction does not survive its own encoding")
			}
			if err := r.n.Pool.AddExternalTxs(validation.InboundTx, cpy); err != nil && r == prop {
				w.dead = fmt.Sprintf("tx type %d refused by the pool: %v", tx.Type, err)
				return false
			}
		}
	}
	height := prop.n.Chain.Head.Height() + 1
	var in *epochIn
	st := prop.n.App.State
	if st.ValidationPeriod() == state.AfterLongSessionPeriod && st.CanCompleteEpoch() {
		in = inject(height)
	}
	var pre *sim.Ledger
	var preSt *appstate.AppState
	if in != nil {
		preSt = w.ro()
		pre = sim.ProjectState(w.w, preSt)
	}
	blk := prop.n.Propose(delay)
	data := sim.Encode(blk)
	if in != nil && !blk.Header.Flags().HasFlag(types.ValidationFinished) {
		panic("the block after a completed long session does not finish the validation")
	}
	root2 := ""
	if in != nil {
		// the proposal path evaluates the epoch on its own: a second proposal on the same head must give the same state
		w.w.SetNow(blk.Header.Time())
		p2 := prop.n.Chain.ProposeBlock([]byte{})
		root2 = hex.EncodeToString(p2.Block.Root().Bytes()[:8])
	}
	type repRes struct {
		name   string
		err    error
		rec    *recorder
		root   string
		digest string
	}
	var rr []repRes
	for _, r := range w.reps {
		b := sim.Decode(data)
		if now := b.Header.Time() + 1; w.w.Clock.Ticks() < now {
			w.w.SetNow(now)
		}
		rec := newRecorder()
		err := r.n.Chain.AddBlock(b, nil, rec)
		res := repRes{name: r.name, err: err, rec: rec}
		if err == nil {
			res.root = hex.EncodeToString(r.n.Chain.Head.Root().Bytes()[:8])
		}
		res.digest = w.digest(rec)
		rr = append(rr, res)
	}
	if rr[0].err != nil {
		if in == nil {
			w.dead = fmt.Sprintf("own proposal refused at height %d: %v", height, rr[0].err)
			return false
		}
	}
	w.stats.blocks++
	for _, tx := range txs {
		found := false
		for _, b := range blk.Body.Transactions {
			if b.Hash() == tx.Hash() {
				found = true
			}
		}
		if !found {
			w.dead = fmt.Sprintf("tx type %d was not included in block %d", tx.Type, height)
			return false
		}
	}
	if in == nil {
		return true
	}
	w.stats.epochs++
	w.record(in, height, blk, pre, preSt, rr[0].rec, root2, func() []tr.M {
		var res []tr.M
		for _, x := range rr {
			e := ""
			if x.err != nil {
				e = x.err.Error()
				if len(e) > 80 {
					e = e[:80]
				}
			}
			res = append(res, tr.M{"name": x.name, "ok": x.err == nil, "err": e, "root": x.root, "digest": x.digest})
		}
		return res
	}())
	for _, x := range rr {
		if x.err != nil {
			w.dead = "epoch block refused by " + x.name
			w.stats.refused++
			return false
		}
	}
	return true
}

// digest of what a replica's collector was told (order-free: the code walks Go maps in places where the order cannot matter)
func (w *world) digest(rec *recorder) string {
	var ls []string
	for _, c := range rec.credits {
		ls = append(ls, fmt.Sprintf("%s/%d/%d/%s/%s", c.Cat, w.name(c.Who), w.name(c.Dest), c.Bal, c.Stake))
	}
	sort.Strings(ls)
	ls = append(ls, "minted="+rec.minted.String())
	h := sha256.Sum256([]byte(strings.Join(ls, ";")))
	return hex.EncodeToString(h[:6])
}

// ---------------------------------------------------------------------------------------------
// epochs

// flipIn is one injected flip qualification
type flipIn struct {
	author int
	class  string // good | rep | nq
	coef   int    // reward coefficient of the published table the chosen grade / grade score stands for (1 2 4 8)
	by     []int  // reporters
}

// epochIn is what the driver handed to the ceremonies for one epoch block
type epochIn struct {
	epoch   uint16
	cands   map[int]ceremony.VerifCandidateResult
	flips   []flipIn
	results map[common.ShardId]*types.ValidationResults
	measure bool
	failed  bool // nobody is validated: the validation fails, nothing is applied and nothing is paid
}

var gradeOfCoef = map[int]types.Grade{1: types.GradeD, 2: types.GradeC, 4: types.GradeB, 8: types.GradeA}

// a grade score (average of the graders' scores) that the published table maps to the coefficient
func (w *world) scoreOfCoef(c int) decimal.Decimal {
	pick := func(xs ...string) decimal.Decimal {
		d, _ := decimal.NewFromString(xs[w.rnd.Intn(len(xs))])
		return d
	}
	switch c {
	case 1:
		return pick("2", "1.5", "2.25", "2.3333333333333333", "1")
	case 2:
		return pick("2.5", "3", "3.3333333333333333", "2.6666666666666667")
	case 4:
		return pick("3.5", "4", "4.4", "3.6666666666666667")
	}
	return pick("4.5", "6", "8", "5.3333333333333333", "7.5")
}

func (w *world) inject(height uint64, epoch int) *epochIn {
	in := &epochIn{epoch: uint16(epoch), cands: map[int]ceremony.VerifCandidateResult{}, measure: epoch == w.E}
	cs := w.cs
	for i := 1; i <= w.n; i++ {
		cur := w.tl[i][epoch]
		if cur == state.Undefined || cur == state.Killed {
			continue
		}
		id := cs.Ids[i-1]
		c := ceremony.VerifCandidateResult{Addr: w.w.Addrs[i], ShortFlipPoint: 6, ShortQualifiedFlipsCount: 6, Participated: true}
		if epoch == w.E {
			c.State, c.Missed = uint8(stOf[id.New]), id.Missed
		} else {
			if cur == state.Candidate && w.E-id.Age != epoch {
				continue // a candidate of the genesis state waits for the epoch that gives it its age
			}
			next := w.tl[i][epoch+1]
			if cur == next && (cur == state.Suspended || cur == state.Zombie) {
				continue // sits the epoch out (the scenario keeps its status)
			}
			c.State = uint8(next)
			c.Missed = (cur == state.Verified || cur == state.Human) && next == state.Suspended || cur == state.Suspended && next == state.Zombie
		}
		if c.Missed {
			c.Participated, c.ShortFlipPoint, c.ShortQualifiedFlipsCount = false, 0, 0
		}
		in.cands[i] = c
	}
	if w.anchor > 0 {
		in.cands[w.anchor] = ceremony.VerifCandidateResult{Addr: w.w.Addrs[w.anchor], State: uint8(state.Verified), ShortFlipPoint: 5, ShortQualifiedFlipsCount: 6, Participated: true}
	}
	if epoch == w.E {
		for i := 1; i <= w.n; i++ {
			id := cs.Ids[i-1]
			for k := 0; k < id.Good; k++ {
				in.flips = append(in.flips, flipIn{author: i, class: "good", coef: []int{1, 2, 4, 8}[w.rnd.Intn(4)]})
			}
			for k := 0; k < id.Nq; k++ {
				in.flips = append(in.flips, flipIn{author: i, class: "nq"})
			}
			for k := 0; k < id.Rep; k++ {
				f := flipIn{author: i, class: "rep"}
				for j := 1; j <= w.n; j++ {
					for _, t := range cs.Ids[j-1].Reports {
						if t == i && k == 0 {
							f.by = append(f.by, j)
						}
					}
				}
				in.flips = append(in.flips, f)
			}
		}
		w.rnd.Shuffle(len(in.flips), func(a, b int) { in.flips[a], in.flips[b] = in.flips[b], in.flips[a] })
	}
	in.failed = true
	for _, c := range in.cands {
		if state.IdentityState(c.State).NewbieOrBetter() {
			in.failed = false
		}
	}
	var cands []ceremony.VerifCandidateResult
	var order []int
	for i := range in.cands {
		order = append(order, i)
	}
	sort.Ints(order)
	w.rnd.Shuffle(len(order), func(a, b int) { order[a], order[b] = order[b], order[a] })
	for _, i := range order {
		cands = append(cands, in.cands[i])
	}
	var flips []ceremony.VerifFlipResult
	for _, f := range in.flips {
		v := ceremony.VerifFlipResult{Author: w.w.Addrs[f.author]}
		switch f.class {
		case "good":
			v.Status = 1 + byte(w.rnd.Intn(2)) // Qualified / WeaklyQualified
			if w.cs.Upg >= 11 {
				v.GradeScore = w.scoreOfCoef(f.coef)
			} else {
				v.Grade = byte(gradeOfCoef[f.coef])
			}
		case "rep":
			v.Status, v.Grade = 1, byte(types.GradeReported)
			for _, j := range f.by {
				v.Reporters = append(v.Reporters, w.w.Addrs[j])
			}
		case "nq":
			v.Status = 0
			if w.cs.Upg >= 11 {
				v.GradeScore = w.scoreOfCoef(1)
			} else {
				v.Grade = byte(types.GradeD)
			}
		}
		flips = append(flips, v)
	}
	for _, r := range w.reps {
		s, err := r.n.App.ForCheck(r.n.Chain.Head.Height())
		if err != nil {
			panic(err)
		}
		res := r.vc.VerifAssembleEpochResult(height, s, cands, flips)
		if r == w.prop {
			in.results = res
		}
	}
	return in
}

// runEpoch drives one whole epoch: its transactions, the ceremony periods, the epoch block
func (w *world) runEpoch(epoch int) bool {
	cs := w.cs
	// built lazily, block by block (nonces depend on what was included before)
	type job struct {
		at int
		mk func() *types.Transaction
	}
	var jobs []job
	first := 1 + w.rnd.Intn(3)
	for i := 1; i <= w.n; i++ {
		id := cs.Ids[i-1]
		i := i
		if w.birth[i] == epoch {
			inv := id.Inviter
			at := first + w.rnd.Intn(4)
			if epoch == w.E {
				at = first + w.rnd.Intn(10) // early or late in the epoch: the age of the invitation inside the epoch weighs the reward
			}
			jobs = append(jobs, job{at, func() *types.Transaction {
				to := w.w.Addrs[i]
				w.stats.invites++
				return w.mkTx(inv, types.InviteTx, &to, sim.Dna(int64(600+w.rnd.Intn(300)), 1), nil)
			}})
			jobs = append(jobs, job{at + 1, func() *types.Transaction {
				to := w.w.Addrs[i]
				return w.mkTx(i, types.ActivationTx, &to, nil, crypto.FromECDSAPub(&w.w.Keys[i].PublicKey))
			}})
			if id.Stake > 0 {
				jobs = append(jobs, job{at + 2, func() *types.Transaction {
					to := w.w.Addrs[i]
					return w.mkTx(0, types.ReplenishStakeTx, &to, w.stakeOf(id.Stake), nil)
				}})
			}
		}
		if epoch == w.E && id.Deleg && i != w.pool {
			at := first + w.rnd.Intn(3)
			if w.birth[i] == epoch {
				at = first + 12
			}
			jobs = append(jobs, job{at, func() *types.Transaction {
				to := w.w.Addrs[w.pool]
				w.stats.delegs++
				return w.mkTx(i, types.DelegateTx, &to, nil, nil)
			}})
		}
	}
	nWork := first + 7
	if epoch == w.E {
		nWork = first + 17 + w.rnd.Intn(14)
	}
	for b := 0; ; b++ {
		st := w.prop.n.App.State
		nv := st.NextValidationTime().Unix()
		head := w.prop.n.Chain.Head.Time()
		delay := int64(20 + w.rnd.Intn(40))
		var txs []*types.Transaction
		switch st.ValidationPeriod() {
		case state.NonePeriod:
			if b >= nWork {
				delay = maxI(20, nv-int64(4*60)-head)
			} else {
				for _, j := range jobs {
					if j.at == b {
						txs = append(txs, j.mk())
					}
				}
			}
		case state.FlipLotteryPeriod:
			delay = maxI(20, nv-head+1)
		case state.ShortSessionPeriod:
			delay = maxI(20, nv+int64(2*60)+2-head)
		case state.LongSessionPeriod:
			delay = maxI(20, nv+int64(12*60)+2-head)
		}
		wasEpoch := st.Epoch()
		if !w.block(delay, txs, func(height uint64) *epochIn { return w.inject(height, epoch) }) {
			return false
		}
		if w.prop.n.App.State.Epoch() != wasEpoch {
			return true
		}
		if b > 200 {
			w.dead = "epoch does not end"
			return false
		}
	}
}

func maxI(a, b int64) int64 {
	if a > b {
		return a
	}
	return b
}

// ---------------------------------------------------------------------------------------------
// recording

func (w *world) record(in *epochIn, height uint64, blk *types.Block, pre *sim.Ledger, preSt *appstate.AppState, rec *recorder, root2 string, reps []tr.M) {
	cons := w.prop.n.Cfg.Consensus
	postSt := w.ro()
	post := sim.ProjectState(w.w, postSt)
	epoch := preSt.State.Epoch()
	god := w.w.Addrs[0]
	var pop []tr.M
	exact := true
	keys := []int{0}
	for i := 1; i <= w.n; i++ {
		keys = append(keys, i)
	}
	keys = append(keys, w.ext, w.stran)
	if w.anchor > 0 {
		keys = append(keys, w.anchor)
	}
	flipsOf := func(i int, class string) int {
		c := 0
		for _, f := range in.flips {
			if f.author == i && f.class == class {
				c++
			}
		}
		return c
	}
	for _, k := range keys {
		a := w.w.Addrs[k]
		p0 := preSt.State.GetIdentity(a)
		p1 := postSt.State.GetIdentity(a)
		m := tr.M{"k": k, "prev": int(p0.State), "now": int(p1.State), "cand": false, "new": int(p0.State), "missed": false,
			"stk": p0.Stake != nil && p0.Stake.Sign() > 0, "del": -1, "inviter": -1, "bday": int(p0.Birthday), "bdayPost": int(p1.Birthday),
			"good": 0, "rep": 0, "nq": 0, "reports": []int{}, "bad": false, "coefs": []int{}, "lockedPre": sim.Limbs(p0.LockedStake()), "lockedPost": sim.Limbs(p1.LockedStake())}
		if d := p0.Delegatee(); d != nil {
			m["del"] = w.name(*d)
		}
		if p0.Inviter != nil {
			m["inviter"] = w.name(p0.Inviter.Address)
		}
		if c, ok := in.cands[k]; ok {
			m["cand"], m["new"], m["missed"] = true, int(c.State), c.Missed
			m["good"], m["rep"], m["nq"] = flipsOf(k, "good"), flipsOf(k, "rep"), flipsOf(k, "nq")
			var coefs []int
			for _, f := range in.flips {
				if f.author == k && f.class == "good" {
					coefs = append(coefs, f.coef)
				}
			}
			m["coefs"] = coefs
			var rp []int
			for _, f := range in.flips {
				for _, j := range f.by {
					if j == k {
						rp = append(rp, f.author)
					}
				}
			}
			m["reports"] = rp
		}
		if r := in.results[1]; r != nil {
			_, m["bad"] = r.BadAuthors[a]
		}
		pop = append(pop, m)
		if in.measure && k >= 1 && k <= w.n {
			id := w.cs.Ids[k-1]
			ageOk := true
			switch {
			case id.Age == 0:
				ageOk = p0.State == state.Candidate
			case id.Age < 3:
				ageOk = int(p0.Birthday) == w.E-id.Age
			default:
				ageOk = int(p0.Birthday) == 0
			}
			wantInv := -1
			if id.Age < 3 {
				wantInv = id.Inviter
			}
			wantDel := -1
			if id.Deleg && k != w.pool {
				wantDel = w.pool
			}
			if p0.State != stOf[id.Prev] || !ageOk || m["inviter"].(int) != wantInv || m["del"].(int) != wantDel || (id.Stake > 0) != m["stk"].(bool) {
				exact = false
			}
		}
	}
	if !exact {
		w.stats.unreal++
	}
	epochBlock := preSt.State.EpochBlock()
	rate := func(f float32) int { return int(math.Round(float64(f) * 1000)) }
	line := tr.M{"ev": "Epoch", "hid": w.hid, "case": w.cs.Id, "src": w.cs.Src, "e": int(epoch), "h": height, "len": int(height - epochBlock), "measure": in.measure, "exact": exact,
		"upg": w.cs.Upg, "god": 0, "godcand": false, "pop": pop,
		"reward": sim.Limbs(new(big.Int).Add(cons.BlockReward, cons.FinalCommitteeReward)),
		"pm": tr.M{"staking": rate(cons.StakingRewardPercent), "candidate": rate(cons.CandidateRewardPercent), "flips": rate(cons.FlipRewardPercent),
			"flipsBasic": rate(cons.FlipRewardBasicPercent), "flipsExtra": rate(cons.FlipRewardExtraPercent), "invitations": rate(cons.ValidInvitationRewardPercent),
			"reports": rate(cons.ReportsRewardPercent), "foundation": rate(cons.FoundationPayoutsPercent), "zero": rate(cons.ZeroWalletPercent)},
		"rate": []int{rate(cons.StakeRewardRate), rate(cons.StakeRewardRateForNewbie)}, "unlockAge": int(cons.UnlockStakeAge),
		"failed": in.failed}
	w.out.Emit(line)
	// one line per real step of rewardValidIdentities, in the code's order
	steps := []struct {
		name string
		cats []string
	}{{"validation", []string{"staking", "candidate"}}, {"flips", []string{"flipsBasic", "flipsExtra"}}, {"reports", []string{"reports"}},
		{"invitations", []string{"inviter1", "inviter2", "inviter3", "invitee1", "invitee2", "invitee3"}}, {"foundation", []string{"foundation"}}, {"zero", []string{"zero"}}}
	for _, s := range steps {
		var cr [][]interface{}
		for _, c := range rec.credits {
			for _, cat := range s.cats {
				if c.Cat == cat {
					cr = append(cr, []interface{}{c.Cat, w.name(c.Who), w.name(c.Dest), sim.Limbs(c.Bal), sim.Limbs(c.Stake), sim.Limbs(c.Aux)})
					w.stats.cats[cat]++
				}
			}
		}
		tot := tr.M{}
		for _, cat := range []string{"staking", "candidate", "flipsBasic", "flipsExtra", "reports", "invitations", "foundation", "zero"} {
			if v, ok := rec.totals[cat]; ok {
				tot[cat] = sim.Limbs(v)
			}
		}
		w.out.Emit(tr.M{"ev": "Pay", "hid": w.hid, "step": s.name, "credits": cr, "announced": tot})
	}
	var blockCr [][]interface{}
	for _, c := range rec.credits {
		if c.Cat == "proposer" || c.Cat == "committee" {
			blockCr = append(blockCr, []interface{}{c.Cat, w.name(c.Who), w.name(c.Dest), sim.Limbs(c.Bal), sim.Limbs(c.Stake), sim.Limbs(c.Aux)})
		}
	}
	acc := func(l *sim.Ledger) []tr.M {
		var res []tr.M
		for _, a := range l.Accts {
			k := -1
			if strings.EqualFold(a.A, common.Address{}.Hex()) {
				k = 9
			} else if strings.HasPrefix(a.A, "k") {
				fmt.Sscanf(a.A, "k%d", &k)
			}
			if k < 0 || k > 9 {
				panic("an address outside the world's keys holds coins: " + a.A)
			}
			res = append(res, tr.M{"k": k, "bal": a.Bal, "stake": a.Stake, "locked": a.Locked, "repl": a.Replenished, "status": a.Status})
		}
		return res
	}
	_ = god
	full := 0
	seen := map[string]bool{}
	for _, c := range rec.credits {
		seen[strings.TrimRight(c.Cat, "123")] = true
	}
	for _, c := range []string{"staking", "candidate", "flipsBasic", "flipsExtra", "reports", "inviter", "invitee", "foundation", "zero"} {
		if seen[c] {
			full++
		}
	}
	if full == 9 {
		w.stats.full++
	}
	w.out.Emit(tr.M{"ev": "Block", "hid": w.hid, "h": height, "proposer": w.name(blk.Header.Coinbase()), "blockCredits": blockCr,
		"minted": sim.Limbs(rec.minted), "total": sim.Limbs(rec.total), "pre": acc(pre), "post": acc(post), "reps": reps, "root2": root2,
		"root": hex.EncodeToString(blk.Root().Bytes()[:8]), "ncats": full})
	if in.measure {
		w.stats.measured++
	}
}

// ---------------------------------------------------------------------------------------------

func runCase(seed int64, hid int, cs *caseSpec, out *tr.W, st *runStats) {
	w := newWorld(seed, hid, cs, out, st)
	defer w.close()
	out.Emit(tr.M{"ev": "World", "hid": hid, "case": cs.Id, "src": cs.Src, "upg": cs.Upg, "n": w.n, "pool": w.pool, "spec": cs})
	st.cases++
	for e := 0; e <= w.E; e++ {
		if !w.runEpoch(e) {
			out.Emit(tr.M{"ev": "Dead", "hid": hid, "case": cs.Id, "e": e, "why": w.dead})
			fmt.Fprintf(os.Stderr, "case %d (world %d) stopped in epoch %d: %s\n", cs.Id, hid, e, w.dead)
			return
		}
	}
}

func main() {
	casesPath := flag.String("cases", "", "file with one case (JSON) per line")
	outPath := flag.String("out", "rewards.ndjson", "trace file")
	first := flag.Int("first", 0, "id of the first world")
	flag.Parse()
	if pf := os.Getenv("VERIF_CPUPROFILE"); pf != "" {
		f, _ := os.Create(pf)
		pprof.StartCPUProfile(f)
		defer pprof.StopCPUProfile()
	}
	seed := tr.Seed()
	out := tr.Create(*outPath)
	defer out.Close()
	st := &runStats{cats: map[string]int{}}
	hid := *first
	t0 := time.Now()
	if *casesPath != "" {
		tr.ReadLines(*casesPath, func(raw []byte) {
			cs := new(caseSpec)
			if err := json.Unmarshal(raw, cs); err != nil {
				panic(err)
			}
			hid++
			runCase(seed, hid, cs, out, st)
			sim.Cleanup()
		})
	}
	out.Flush()
	var cats []string
	for k, v := range st.cats {
		cats = append(cats, fmt.Sprintf("cat_%s=%d", k, v))
	}
	sort.Strings(cats)
	fmt.Fprintf(os.Stderr, "d_rewards: %d cases in %.1fs\n", st.cases, time.Since(t0).Seconds())
	fmt.Printf("cases=%d worlds=%d blocks=%d epochs=%d measured=%d txs=%d unreal=%d refused=%d invites=%d delegs=%d full=%d %s\n",
		st.cases, st.worlds, st.blocks, st.epochs, st.measured, st.txs, st.unreal, st.refused, st.invites, st.delegs, st.full, strings.Join(cats, " "))
}
