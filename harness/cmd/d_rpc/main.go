// d_rpc sends JSON-RPC messages to REAL rpc.Server instances and records, per message, what really
// happened: the response class / error code of every element and what the registered probe service
// saw (method invocations, subscription creations, subscription cancellations), attributed to the
// elements through tags (C19).
//
// Servers (each with its own probe):
//
//	http : rpc.StartHTTPEndpoint with rpc.GetDefaultRPCConfig (module white-list, CORS, vhosts) and the
//	       key installed by config.Config.SetApiKey - the way node/node.go starts the endpoint
//	ws   : rpc.NewServer(key).WebsocketHandler behind an httptest server, golang.org/x/net/websocket client
//	ipc  : rpc.NewServer(key).ServeListener on a unix socket in a scratch directory
//
// each once with the key configured and once without.
//
//	d_rpc -cases <file> -out <trace>                 the case table exported by TLC (MC_Rpc)
//	d_rpc -random N -maxn 8 -out <trace>             seeded random larger batches with random concretisations
package main

import (
	"bytes"
	"context"
	"encoding/json"
	"flag"
	"fmt"
	"io"
	"math/rand"
	"net"
	"net/http"
	"net/http/httptest"
	"os"
	"path/filepath"
	"strings"
	"sync"
	"time"
	"unicode"

	"github.com/idena-network/idena-go/config"
	"github.com/idena-network/idena-go/rpc"
	"golang.org/x/net/websocket"

	"verifh/internal/tr"
)

// ------------------------------------------------------------------------------------------------
// probe service

type Probe struct {
	mu      sync.Mutex
	echo    map[string]int
	att     map[string]int
	created map[string]int
	subs    map[string]*rpc.Subscription
	total   int
}

func newProbe() *Probe {
	return &Probe{echo: map[string]int{}, att: map[string]int{}, created: map[string]int{}, subs: map[string]*rpc.Subscription{}}
}

// Echo is the counting method: dna_echo [tag].
func (p *Probe) Echo(tag string) string {
	p.mu.Lock()
	p.echo[tag]++
	p.total++
	p.mu.Unlock()
	return tag
}

// Events is the subscription: dna_subscribe ["events", tag].
func (p *Probe) Events(ctx context.Context, tag string) (*rpc.Subscription, error) {
	p.mu.Lock()
	p.att[tag]++
	p.total++
	p.mu.Unlock()
	n, ok := rpc.NotifierFromContext(ctx)
	if !ok {
		return nil, rpc.ErrNotificationsUnsupported
	}
	sub := n.CreateSubscription()
	p.mu.Lock()
	p.created[tag]++
	p.subs[tag] = sub
	p.mu.Unlock()
	if strings.HasPrefix(tag, "s") {
		// set-up subscription of the driver: buffered until the server activates the subscription,
		// so its arrival tells the driver that an unsubscribe can now find it
		n.Notify(sub.ID, "ready")
	}
	return sub, nil
}

type seen struct {
	echo, att, created map[string]int
	total              int
}

func (p *Probe) take() seen {
	p.mu.Lock()
	defer p.mu.Unlock()
	s := seen{p.echo, p.att, p.created, p.total}
	p.echo, p.att, p.created, p.total = map[string]int{}, map[string]int{}, map[string]int{}, 0
	return s
}

func (p *Probe) cancelled(tag string, forget bool) int {
	p.mu.Lock()
	sub := p.subs[tag]
	if forget {
		delete(p.subs, tag)
	}
	p.mu.Unlock()
	if sub == nil {
		return 0
	}
	select {
	case <-sub.Err():
		return 1
	default:
		return 0
	}
}

func (p *Probe) forget(tag string) {
	p.mu.Lock()
	delete(p.subs, tag)
	p.mu.Unlock()
}

// ------------------------------------------------------------------------------------------------
// cases

type tcase struct {
	El    [][2]string     `json:"el"`
	Batch int             `json:"batch"`
	Ks    int             `json:"ks"`
	Ps    int             `json:"ps"`
	Whole int             `json:"whole"`
	Exp   [][]interface{} `json:"exp"`
	Vseed string          `json:"vseed"` // replayed random case: seed of its concretisation
	vseed int64           // 0: canonical concretisation; otherwise seed of the random concretisation
	any   bool            // random case: run on every transport (ps follows the transport)
}

const ns = "dna" // a namespace of the default HTTP module white-list

func swapCase(s string) string {
	r := []rune(s)
	for i, c := range r {
		if unicode.IsUpper(c) {
			r[i] = unicode.ToLower(c)
		} else if unicode.IsLower(c) {
			r[i] = unicode.ToUpper(c)
		}
	}
	return string(r)
}

func q(s string) string {
	b, _ := json.Marshal(s)
	return string(b)
}

func escapeAll(s string) string {
	var b strings.Builder
	b.WriteByte('"')
	for _, c := range s {
		fmt.Fprintf(&b, "\\u%04x", c)
	}
	b.WriteByte('"')
	return b.String()
}

func pick(r *rand.Rand, xs ...string) string {
	if r == nil {
		return xs[0]
	}
	return xs[r.Intn(len(xs))]
}

// keyMembers returns the "key" member(s) of an element of the given class ("" = none).
func keyMembers(class, K string, r *rand.Rand) []string {
	wrong := func() string {
		b := []byte(K)
		i := 0
		if r != nil {
			i = r.Intn(len(b))
		}
		if b[i] == 'x' {
			b[i] = 'y'
		} else {
			b[i] = 'x'
		}
		if r != nil && r.Intn(3) == 0 {
			return "not-the-key"
		}
		return string(b)
	}
	m := func(v string) []string { return []string{`"key":` + v} }
	switch class {
	case "right":
		if r != nil && r.Intn(3) == 0 {
			return m(escapeAll(K))
		}
		return m(q(K))
	case "wrong":
		return m(q(wrong()))
	case "missing":
		return nil
	case "null":
		return m("null")
	case "empty":
		return m(`""`)
	case "prefix":
		n := len(K) - 1
		if r != nil {
			n = 1 + r.Intn(len(K)-1)
		}
		return m(q(K[:n]))
	case "longer":
		return m(q(K + pick(r, "x", "0", K, "\u0000")))
	case "casevar":
		if r != nil && r.Intn(2) == 0 {
			// flip the case of a single letter
			b := []rune(K)
			for tries := 0; tries < 100; tries++ {
				i := r.Intn(len(b))
				if unicode.IsLetter(b[i]) {
					b[i] = []rune(swapCase(string(b[i])))[0]
					return m(q(string(b)))
				}
			}
		}
		return m(q(swapCase(K)))
	case "padded":
		return m(q(pick(r, " "+K, K+" ", "\t"+K, K+"\n", " "+K+" ", K+"\r\n")))
	case "num":
		return m(pick(r, "12345", "0", "-1", "1.5", "1e3"))
	case "bool":
		return m(pick(r, "true", "false"))
	case "obj":
		return m(pick(r, `{"key":`+q(K)+`}`, `{}`, `{"value":`+q(K)+`}`))
	case "arr":
		return m(pick(r, `[`+q(K)+`]`, `[]`, `[[`+q(K)+`]]`))
	case "dupRL":
		return []string{`"key":` + q(wrong()), `"key":` + q(K)}
	case "dupWL":
		return []string{`"key":` + q(K), `"key":` + q(wrong())}
	}
	panic("unknown key class " + class)
}

// elemJSON renders one element.  id is the raw JSON id ("" for none), tag attributes effects to it,
// subID is the subscription an unsub element points at.
func elemJSON(class, kind, K, id, tag, subID string, r *rand.Rand) string {
	method, params := "", ""
	switch kind {
	case "call", "notif":
		method, params = ns+"_echo", "["+q(tag)+"]"
	case "meta":
		method, params = "rpc_modules", pick(r, "", "[]")
	case "badparams":
		method, params = ns+"_echo", pick(r, "["+q(tag)+",7]", "[7]", `{"tag":`+q(tag)+`}`, "[]", "["+q(tag)+","+q(tag)+"]")
	case "unknown":
		method, params = pick(r, ns+"_nosuch", ns+"_Echo", ns+"_events"), "["+q(tag)+"]"
	case "unknownSvc":
		method, params = pick(r, "nosuch_echo", "bcn_echo", "DNA_echo", "_echo"), "["+q(tag)+"]"
	case "malformed":
		method, params = pick(r, ns+"echo", ns+"_echo_x", "", "_", ns), "["+q(tag)+"]"
		if method == "_" { // splits into two empty parts: a well-formed name of an unknown service
			method = "__"
		}
	case "sub":
		method, params = ns+"_subscribe", `["events",`+q(tag)+`]`
	case "subUnknown":
		method, params = pick(r, ns+"_subscribe", "nosuch_subscribe"), `["nosuch",`+q(tag)+`]`
		if method == "nosuch_subscribe" {
			params = `["events",` + q(tag) + `]`
		}
	case "subBare":
		method, params = ns+"_subscribe", ""
	case "unsub":
		method, params = pick(r, ns+"_unsubscribe", "x_unsubscribe"), "["+q(subID)+"]"
	case "unsubBad":
		method, params = ns+"_unsubscribe", pick(r, "[]", "[5]", "[[]]")
	default:
		panic("unknown kind " + kind)
	}
	mem := []string{}
	if r == nil || r.Intn(4) != 0 {
		mem = append(mem, `"jsonrpc":"2.0"`)
	}
	if kind != "notif" && id != "" {
		mem = append(mem, `"id":`+id)
	}
	mem = append(mem, `"method":`+q(method))
	if params != "" {
		mem = append(mem, `"params":`+params)
	}
	km := keyMembers(class, K, r)
	switch {
	case r == nil || len(km) == 0:
		mem = append(mem, km...)
	case len(km) == 1:
		// key member at a random position
		i := r.Intn(len(mem) + 1)
		mem = append(mem[:i], append([]string{km[0]}, mem[i:]...)...)
	default:
		// duplicated member: keep the relative order, spread them
		i := r.Intn(len(mem) + 1)
		mem = append(mem[:i], append([]string{km[0]}, mem[i:]...)...)
		j := i + 1 + r.Intn(len(mem)-i)
		mem = append(mem[:j], append([]string{km[1]}, mem[j:]...)...)
	}
	if r != nil && r.Intn(5) == 0 {
		mem = append(mem, `"extra":{"key":`+q(K)+`}`) // the right key in a place where it does not count
	}
	sep := pick(r, ",", ", ", " ,\n")
	return "{" + strings.Join(mem, sep) + "}"
}

// ------------------------------------------------------------------------------------------------
// endpoints

type endpoint struct {
	name   string // http | ws | ipc
	ks     int
	key    string // configured key ("" = none)
	probe  *Probe
	url    string
	client *http.Client
	ws     *websocket.Conn
	ipc    net.Conn
	dec    *json.Decoder
	stop   func()

	silences int
}

const respTimeout = 10 * time.Second

// timeout for one response; shrinks after repeated silences so that a server that stopped
// answering a whole class of messages does not stall the run
func (e *endpoint) timeout() time.Duration {
	if e.silences > 8 {
		return 150 * time.Millisecond
	}
	return respTimeout
}

func (e *endpoint) closeConn() {
	if e.ws != nil {
		e.ws.Close()
		e.ws = nil
	}
	if e.ipc != nil {
		e.ipc.Close()
		e.ipc = nil
		e.dec = nil
	}
}

func (e *endpoint) dial() error {
	switch e.name {
	case "ws":
		if e.ws == nil {
			c, err := websocket.Dial(e.url, "", "http://localhost")
			if err != nil {
				return err
			}
			e.ws = c
		}
	case "ipc":
		if e.ipc == nil {
			c, err := net.Dial("unix", e.url)
			if err != nil {
				return err
			}
			e.ipc = c
			e.dec = json.NewDecoder(c)
		}
	}
	return nil
}

// recv reads the next JSON value from a stream endpoint.
func (e *endpoint) recv() ([]byte, error) {
	switch e.name {
	case "ws":
		e.ws.SetReadDeadline(time.Now().Add(e.timeout()))
		var s string
		if err := websocket.Message.Receive(e.ws, &s); err != nil {
			return nil, err
		}
		return []byte(s), nil
	case "ipc":
		e.ipc.SetReadDeadline(time.Now().Add(e.timeout()))
		var raw json.RawMessage
		if err := e.dec.Decode(&raw); err != nil {
			return nil, err
		}
		return raw, nil
	}
	panic("recv on " + e.name)
}

func (e *endpoint) send(msg []byte) error {
	switch e.name {
	case "ws":
		e.ws.SetWriteDeadline(time.Now().Add(respTimeout))
		return websocket.Message.Send(e.ws, string(msg))
	case "ipc":
		e.ipc.SetWriteDeadline(time.Now().Add(respTimeout))
		_, err := e.ipc.Write(append(append([]byte{}, msg...), '\n'))
		return err
	}
	panic("send on " + e.name)
}

func isNotification(raw []byte) bool {
	var x struct {
		Method string          `json:"method"`
		Id     json.RawMessage `json:"id"`
	}
	if json.Unmarshal(raw, &x) != nil {
		return false
	}
	return x.Method != "" && len(x.Id) == 0
}

// roundTrip sends one message and returns the raw response (nil: no response).
func (e *endpoint) roundTrip(msg []byte) []byte {
	if e.name == "http" {
		req, _ := http.NewRequest(http.MethodPost, e.url, bytes.NewReader(msg))
		req.Header.Set("Content-Type", "application/json")
		resp, err := e.client.Do(req)
		if err != nil {
			return nil
		}
		defer resp.Body.Close()
		b, _ := io.ReadAll(resp.Body)
		if len(bytes.TrimSpace(b)) == 0 {
			return nil
		}
		return b
	}
	for attempt := 0; attempt < 2; attempt++ {
		if err := e.dial(); err != nil {
			fmt.Fprintln(os.Stderr, "dial", e.name, err)
			os.Exit(3)
		}
		if err := e.send(msg); err != nil {
			e.closeConn()
			continue
		}
		for {
			raw, err := e.recv()
			if err != nil {
				e.closeConn()
				if ne, ok := err.(net.Error); ok && ne.Timeout() {
					e.silences++
					return nil // the server kept the connection but did not answer
				}
				break // connection was closed under us: once more on a fresh one
			}
			if isNotification(raw) {
				continue
			}
			return raw
		}
	}
	return nil
}

// setupSub creates a live (activated) subscription on the endpoint's current connection.
func (e *endpoint) setupSub(tag, K string) (string, bool) {
	km := ""
	if e.ks == 1 {
		km = `,"key":` + q(K)
	}
	msg := []byte(`{"jsonrpc":"2.0","id":"setup","method":"` + ns + `_subscribe","params":["events",` + q(tag) + `]` + km + `}`)
	for attempt := 0; attempt < 2; attempt++ {
		if err := e.dial(); err != nil {
			return "", false
		}
		if err := e.send(msg); err != nil {
			e.closeConn()
			continue
		}
		id := ""
		for {
			raw, err := e.recv()
			if err != nil {
				e.closeConn()
				break
			}
			if isNotification(raw) {
				if id != "" && bytes.Contains(raw, []byte(`"ready"`)) && bytes.Contains(raw, []byte(id)) {
					return id, true
				}
				continue
			}
			var x struct {
				Result string `json:"result"`
			}
			if json.Unmarshal(raw, &x) != nil || x.Result == "" {
				return "", false
			}
			id = x.Result
		}
	}
	return "", false
}

func startEndpoint(name string, ks int, K, dir string) *endpoint {
	e := &endpoint{name: name, ks: ks, probe: newProbe()}
	if ks == 1 {
		e.key = K
	}
	switch name {
	case "http":
		rc := rpc.GetDefaultRPCConfig("127.0.0.1", 0)
		key := ""
		if ks == 1 {
			// the key travels the way node/node.go gets it: config.Config.SetApiKey -> RPC.APIKey
			dd := filepath.Join(dir, "datadir")
			os.MkdirAll(dd, 0700)
			rc.APIKey = K
			c := &config.Config{DataDir: dd, RPC: rc}
			if err := c.SetApiKey(); err != nil {
				panic(err)
			}
			key = c.RPC.APIKey
			if b, _ := os.ReadFile(filepath.Join(dd, "api.key")); string(b) != K || key != K {
				panic("SetApiKey did not install the key")
			}
		}
		apis := []rpc.API{{Namespace: ns, Version: "1.0", Service: e.probe, Public: true}}
		l, _, hs, err := rpc.StartHTTPEndpoint(rc.HTTPEndpoint(), apis, rc.HTTPModules, rc.HTTPCors, rc.HTTPVirtualHosts, rc.HTTPTimeouts, key)
		if err != nil {
			panic(err)
		}
		e.url = "http://" + l.Addr().String()
		e.client = &http.Client{Timeout: respTimeout, Transport: &http.Transport{MaxIdleConnsPerHost: 4}}
		e.stop = func() { hs.Close(); l.Close() }
	case "ws":
		srv := rpc.NewServer(e.key)
		if err := srv.RegisterName(ns, e.probe); err != nil {
			panic(err)
		}
		ts := httptest.NewServer(srv.WebsocketHandler([]string{"*"}))
		e.url = "ws" + strings.TrimPrefix(ts.URL, "http")
		e.stop = func() { e.closeConn(); srv.Stop(); ts.Close() }
	case "ipc":
		srv := rpc.NewServer(e.key)
		if err := srv.RegisterName(ns, e.probe); err != nil {
			panic(err)
		}
		sock := filepath.Join(dir, fmt.Sprintf("ipc%d.sock", ks))
		l, err := net.Listen("unix", sock)
		if err != nil {
			panic(err)
		}
		go srv.ServeListener(l)
		e.url = sock
		e.stop = func() { e.closeConn(); srv.Stop(); l.Close() }
	}
	return e
}

// ------------------------------------------------------------------------------------------------
// one case on one endpoint

type rresp struct {
	Id     json.RawMessage `json:"id"`
	Result json.RawMessage `json:"result"`
	Error  *struct {
		Code    int    `json:"code"`
		Message string `json:"message"`
	} `json:"error"`
}

func classify(r *rresp) (string, int) {
	switch {
	case r == nil:
		return "none", 0
	case r.Error != nil:
		return "error", r.Error.Code
	case r.Result != nil:
		return "result", 0
	}
	return "other", 0
}

func compact(b []byte) string {
	var buf bytes.Buffer
	if json.Compact(&buf, b) != nil {
		return string(b)
	}
	return buf.String()
}

func runCase(e *endpoint, ci int, c *tcase, K string) tr.M {
	var r *rand.Rand
	if c.vseed != 0 {
		r = rand.New(rand.NewSource(c.vseed))
	}
	n := len(c.El)
	ps := 0
	if e.name != "http" {
		ps = 1
	}
	// set-up: a live subscription for every unsub element
	subIDs := make([]string, n)
	setupFailed := 0
	for i, el := range c.El {
		if el[1] != "unsub" {
			continue
		}
		subIDs[i] = "0x1234abcd"
		if ps == 1 {
			if id, ok := e.setupSub(fmt.Sprintf("s%de%d", ci, i), K); ok {
				subIDs[i] = id
			} else {
				setupFailed++
			}
		}
	}
	e.probe.take()

	ids := make([]string, n)
	parts := make([]string, n)
	for i, el := range c.El {
		ids[i] = fmt.Sprintf("%d", i+1)
		if r != nil {
			switch r.Intn(4) {
			case 0:
				ids[i] = q(fmt.Sprintf("id-%d", i))
			case 1:
				ids[i] = fmt.Sprintf("%d.5", i+1)
			case 2:
				ids[i] = fmt.Sprintf("%d", 1000000007*(i+1))
			case 3:
				if c.Batch == 0 && r.Intn(2) == 0 {
					ids[i] = "null" // a valid id for checkReqId
				}
			}
		}
		parts[i] = elemJSON(el[0], el[1], K, ids[i], fmt.Sprintf("c%de%d", ci, i), subIDs[i], r)
	}
	var msg string
	if c.Batch == 1 {
		msg = pick(r, "[", " [", "\n[ ") + strings.Join(parts, ",") + "]"
	} else {
		msg = parts[0]
	}
	raw := e.roundTrip([]byte(msg))

	// classify
	whole := 0
	per := make([]*rresp, n)
	if raw != nil {
		t := bytes.TrimSpace(raw)
		if len(t) > 0 && t[0] == '[' {
			var arr []rresp
			if json.Unmarshal(t, &arr) == nil {
				for k := range arr {
					for i := range ids {
						if per[i] == nil && compact(arr[k].Id) == ids[i] && c.El[i][1] != "notif" {
							per[i] = &arr[k]
							break
						}
					}
				}
			}
		} else {
			var one rresp
			if json.Unmarshal(t, &one) == nil {
				if c.Batch == 1 {
					// a batch answered with a single object: the message was refused as a whole
					if one.Error != nil {
						whole = 1
					}
					for i := range per {
						per[i] = &one
					}
				} else {
					per[0] = &one
				}
			}
		}
	}
	s := e.probe.take()
	ob := make([][]interface{}, n)
	attributed := 0
	for i := range c.El {
		tag := fmt.Sprintf("c%de%d", ci, i)
		cls, code := classify(per[i])
		canc := 0
		if c.El[i][1] == "unsub" && ps == 1 {
			canc = e.probe.cancelled(fmt.Sprintf("s%de%d", ci, i), true)
		}
		ob[i] = []interface{}{cls, code, s.echo[tag], s.att[tag], s.created[tag], canc}
		attributed += s.echo[tag] + s.att[tag]
		e.probe.forget(tag)
	}
	// a response without id (or to a refused message) makes the stream servers hang up: start afresh
	if e.name != "http" {
		fresh := raw == nil || whole == 1
		for i := range per {
			if per[i] != nil && (len(per[i].Id) == 0 || string(per[i].Id) == "null") {
				fresh = true
			}
		}
		if fresh {
			e.closeConn()
		}
	}
	line := tr.M{"ev": "Msg", "id": ci, "tr": e.name, "el": c.El, "batch": c.Batch, "ks": e.ks, "ps": ps,
		"whole": whole, "ob": ob, "extra": s.total - attributed}
	if setupFailed > 0 {
		line["setupFailed"] = setupFailed
	}
	if c.vseed != 0 {
		line["vseed"] = fmt.Sprintf("%d", c.vseed) // a string: TLC integers are 32 bit
	}
	same := c.Exp != nil && c.Whole == whole && len(c.Exp) == n && s.total == attributed
	if same {
		for i := range ob {
			for k := 0; k < 6; k++ {
				var want interface{} = c.Exp[i][k]
				if f, ok := want.(float64); ok {
					want = int(f)
				}
				if want != ob[i][k] {
					same = false
				}
			}
		}
	}
	if !same {
		line["req"] = msg
		if raw != nil {
			line["resp"] = strings.TrimSpace(string(raw))
		} else {
			line["resp"] = ""
		}
	}
	return line
}

// ------------------------------------------------------------------------------------------------

var allKeys = []string{"right", "wrong", "missing", "null", "empty", "prefix", "longer", "casevar", "padded", "num", "bool", "obj", "arr", "dupRL", "dupWL"}
var allKinds = []string{"call", "meta", "badparams", "unknown", "unknownSvc", "malformed", "sub", "subUnknown", "subBare", "unsub", "unsubBad", "notif"}

func randomCases(n, maxn int, seed int64) []*tcase {
	r := rand.New(rand.NewSource(seed))
	res := make([]*tcase, 0, n)
	for len(res) < n {
		c := &tcase{Batch: 1, Ks: 1, any: true, vseed: 1 + r.Int63()}
		m := 1 + r.Intn(maxn)
		if r.Intn(8) == 0 {
			m, c.Batch = 1, 0
		}
		if r.Intn(10) == 0 {
			c.Ks = 0
		}
		// most messages decodable (so that the gate is what decides), some not
		envBad := r.Intn(6) == 0
		rightBias := r.Intn(3)
		for i := 0; i < m; i++ {
			k := allKeys[r.Intn(len(allKeys))]
			kd := allKinds[r.Intn(len(allKinds))]
			if rightBias == 0 && r.Intn(2) == 0 {
				k = "right"
			}
			if !envBad {
				for k == "num" || k == "bool" || k == "obj" || k == "arr" {
					k = allKeys[r.Intn(len(allKeys))]
				}
				for kd == "notif" || kd == "subBare" {
					kd = allKinds[r.Intn(len(allKinds))]
				}
			}
			c.El = append(c.El, [2]string{k, kd})
		}
		res = append(res, c)
	}
	return res
}

func main() {
	casesPath := flag.String("cases", "", "case table exported by TLC")
	out := flag.String("out", "", "trace file")
	nrand := flag.Int("random", 0, "number of random cases")
	maxn := flag.Int("maxn", 8, "largest random batch")
	transports := flag.String("transports", "http,ws,ipc", "transports to drive")
	flag.Parse()
	seed := tr.Seed()

	// the configured key: mixed case, digits, punctuation; differs per seed
	K := fmt.Sprintf("Vk%d-aB3x/Qz+%02dyZ", seed, seed%89)

	dir, err := os.MkdirTemp("", "c19-")
	if err != nil {
		panic(err)
	}
	defer os.RemoveAll(dir)

	var cases []*tcase
	if *casesPath != "" {
		tr.ReadLines(*casesPath, func(raw []byte) {
			c := &tcase{}
			if err := json.Unmarshal(raw, c); err != nil {
				panic(err)
			}
			if c.Vseed != "" {
				fmt.Sscanf(c.Vseed, "%d", &c.vseed)
			}
			cases = append(cases, c)
		})
	}
	cases = append(cases, randomCases(*nrand, *maxn, seed)...)

	type job struct {
		e     *endpoint
		lines []tr.M
	}
	var jobs []*job
	for _, name := range strings.Split(*transports, ",") {
		for ks := 0; ks <= 1; ks++ {
			jobs = append(jobs, &job{e: startEndpoint(name, ks, K, dir)})
		}
	}
	var wg sync.WaitGroup
	for _, j := range jobs {
		wg.Add(1)
		go func(j *job) {
			defer wg.Done()
			j.lines = make([]tr.M, len(cases))
			ps := 1
			if j.e.name == "http" {
				ps = 0
			}
			for ci, c := range cases {
				if c.Ks != j.e.ks || (!c.any && c.Ps != ps) {
					continue
				}
				j.lines[ci] = runCase(j.e, ci, c, K)
			}
			j.e.stop()
		}(j)
	}
	wg.Wait()

	w := tr.Create(*out)
	count := map[string]int{}
	for ci := range cases {
		for _, j := range jobs {
			if l := j.lines[ci]; l != nil {
				w.Emit(l)
				count[j.e.name]++
			}
		}
	}
	w.Close()
	fmt.Printf("d_rpc: %d cases, %d messages answered by real servers (http %d, ws %d, ipc %d)\n",
		len(cases), w.N, count["http"], count["ws"], count["ipc"])
}
