// d_ceremony evaluates the REAL status decision table (core/ceremony determineNewIdentityState, reached
// through the verif shim) on concrete inputs and logs every call with its result (C17 part a).
//
//	d_ceremony -params <file> -cases <file> -reps R -out <trace>
//	    abstract cases exported by TLC (MC_Ceremony); every case is concretised R times at boundary
//	    representatives of its classes (thresholds = the specification's, from -params)
//	d_ceremony -params <file> -calls <file> -out <trace>
//	    re-evaluate recorded concrete calls (lines of an earlier trace / a replay artefact)
//	d_ceremony -params <file> -random N -out <trace>
//	    N seeded random concrete inputs (scores produced by the same float32 arithmetic as the ceremony,
//	    and values a few ulps around the thresholds)
//
// The driver never judges: scores are logged as float32 bit patterns, counters as integers, and the
// trace specification (Trace_Ceremony.tla) re-abstracts every line, compares the abstraction with the
// case the line was generated for (field id) and decides.
package main

import (
	"encoding/json"
	"flag"
	"fmt"
	"math"
	"math/rand"
	"os"

	"github.com/idena-network/idena-go/core/ceremony"
	"github.com/idena-network/idena-go/core/state"

	"verifh/internal/tr"
)

type acase struct {
	Id   int `json:"id"`
	Case struct {
		Prev      string `json:"prev"`
		FlipsDone bool   `json:"flipsDone"`
		Missed    bool   `json:"missed"`
		NqShort   bool   `json:"nqShort"`
		NqLong    bool   `json:"nqLong"`
		ShortCnt  string `json:"shortCnt"`
		ShortCls  string `json:"shortCls"`
		LongOk    bool   `json:"longOk"`
		Total     string `json:"total"`
		Flips     string `json:"flips"`
		Fix93     bool   `json:"fix93"`
		Up10      bool   `json:"up10"`
		Up12      bool   `json:"up12"`
	} `json:"case"`
}

var statusByName = map[string]state.IdentityState{
	"Undefined": state.Undefined, "Invite": state.Invite, "Candidate": state.Candidate, "Verified": state.Verified,
	"Suspended": state.Suspended, "Killed": state.Killed, "Zombie": state.Zombie, "Newbie": state.Newbie, "Human": state.Human,
}

func statusName(s state.IdentityState) string {
	for n, v := range statusByName {
		if v == s {
			return n
		}
	}
	return fmt.Sprintf("Unknown(%d)", uint8(s))
}

// ---- representatives ------------------------------------------------------------------------------------

// The published thresholds come from the SPECIFICATION (exported by TLC next to the cases), not from
// the code under test: a change of a constant in the code must not move the representatives with it.
type params struct {
	MinShort      uint32 `json:"minShort"` // float32 bit patterns
	MinLong       uint32 `json:"minLong"`
	MinTotal      uint32 `json:"minTotal"`
	MinHuman      uint32 `json:"minHuman"`
	FlipsVerified uint32 `json:"flipsVerified"`
	FlipsHuman    uint32 `json:"flipsHuman"`
}

var (
	tShort, tLong, tTotal, tHuman float32
	fVer, fHum                    uint32
)

func below(x float32) float32 { return math.Nextafter32(x, 0) }
func above(x float32) float32 { return math.Nextafter32(x, 2) }
func ratio(p float32, n uint32) float32 {
	return p / float32(n) // the ceremony's own arithmetic: points / float32(count)
}

var nan = float32(math.NaN())
var inf = float32(math.Inf(1))
var tiny = math.Float32frombits(1) // smallest positive float32

// scores the ceremony can produce: (multiple of 0.5) / float32(n), n <= maxN; the largest one below t
// and the smallest one not below t
type arithKey struct {
	t float32
	n uint32
}

var arithMemo = map[arithKey][2]float32{}

func arith(t float32, maxN uint32) (lo, hi float32) {
	if v, ok := arithMemo[arithKey{t, maxN}]; ok {
		return v[0], v[1]
	}
	defer func() { arithMemo[arithKey{t, maxN}] = [2]float32{lo, hi} }()
	lo, hi = 0, 1
	for n := uint32(1); n <= maxN; n++ {
		for h := uint32(0); h <= 2*n; h++ {
			x := ratio(float32(h)/2, n)
			if x < t && x > lo {
				lo = x
			}
			if x >= t && x < hi {
				hi = x
			}
		}
	}
	return
}

// Each list: [0] = member on the border to the lower neighbour class (or the smallest member), [1] =
// member on the border to the upper neighbour class (or a far member), rest = further members incl.
// values produced by the ceremony's arithmetic next to the thresholds.
func shortReps(cls string) []float32 {
	lo, hi := arith(tShort, 7)
	switch cls {
	case "zero":
		return []float32{0}
	case "low":
		return []float32{tiny, below(tShort), lo, ratio(0.5, 6), ratio(1, 2), below(below(tShort))}
	case "ok":
		return []float32{tShort, above(tShort), hi, 1, ratio(2, 3), above(above(tShort)), inf}
	}
	panic("short class " + cls)
}

func longReps(ok bool) []float32 {
	lo, hi := arith(tLong, 30)
	if ok {
		return []float32{tLong, above(tLong), hi, 1, ratio(19, 25), above(above(tLong))}
	}
	return []float32{below(tLong), 0, lo, tiny, ratio(1, 2), below(below(tLong))}
}

func totalReps(cls string) []float32 {
	lo1, hi1 := arith(tTotal, 40)
	lo2, hi2 := arith(tHuman, 40)
	switch cls {
	case "low":
		return []float32{below(tTotal), 0, lo1, nan, ratio(1, 2), below(below(tTotal))}
	case "verified":
		return []float32{tTotal, below(tHuman), hi1, lo2, above(tTotal), below(below(tHuman)), (tTotal + tHuman) / 2}
	case "human":
		return []float32{tHuman, above(tHuman), hi2, 1, above(above(tHuman)), inf}
	}
	panic("total class " + cls)
}

func flipsReps(cls string) []uint32 {
	switch cls {
	case "few":
		return []uint32{fVer - 1, 0, 1, fVer - 2, fVer / 2}
	case "verified":
		return []uint32{fVer, fHum - 1, fVer + 1, fHum - 2, (fVer + fHum) / 2}
	case "human":
		return []uint32{fHum, fHum + 1, 100, 1 << 20, math.MaxInt32}
	}
	panic("flips class " + cls)
}

func cntReps(cls string) []uint32 {
	switch cls {
	case "one":
		return []uint32{1}
	case "two":
		return []uint32{2}
	case "other":
		return []uint32{3, 0, 6, 4, 5, 7, 257, 258}
	}
	panic("count class " + cls)
}

// (required, made); both fit the code's uint8 counters
func flipReps(done bool) [][2]int {
	if done {
		return [][2]int{{3, 3}, {0, 0}, {3, 4}, {1, 1}, {5, 5}, {0, 2}, {255, 255}}
	}
	return [][2]int{{3, 2}, {1, 0}, {5, 4}, {3, 0}, {4, 3}, {255, 254}, {255, 0}}
}

func pickF(l []float32, r int, rnd *rand.Rand) float32 {
	if r < 2 {
		return l[r%len(l)]
	}
	return l[rnd.Intn(len(l))]
}
func pickU(l []uint32, r int, rnd *rand.Rand) uint32 {
	if r < 2 {
		return l[r%len(l)]
	}
	return l[rnd.Intn(len(l))]
}

// ---- one real call ----------------------------------------------------------------------------------------

type call struct {
	id   int
	prev string
	in   ceremony.VerifDecideInput
}

func bits(f float32) uint32 { return math.Float32bits(f) }

func eval(w *tr.W, c call) string {
	c.in.Prev = statusByName[c.prev]
	res := statusName(ceremony.VerifDetermineNewIdentityState(c.in))
	w.Emit(tr.M{"ev": "Decide", "id": c.id, "prev": c.prev, "req": c.in.RequiredFlips, "made": c.in.MadeFlips,
		"missed": c.in.Missed, "nqs": c.in.NoQualShort, "nql": c.in.NoQualLong,
		"sb": bits(c.in.ShortScore), "sc": c.in.ShortQualifiedFlips, "lb": bits(c.in.LongScore), "tb": bits(c.in.TotalScore),
		"tf": c.in.TotalQualifiedFlips, "fix": c.in.CandidateToNewbieFix, "u10": c.in.Upgrade10, "u12": c.in.Upgrade12,
		"out": res})
	return res
}

func concretise(a acase, r int, rnd *rand.Rand) call {
	c := call{id: a.Id, prev: a.Case.Prev}
	fr := flipReps(a.Case.FlipsDone)
	var f [2]int
	if r < 2 {
		f = fr[r]
	} else {
		f = fr[rnd.Intn(len(fr))]
	}
	c.in = ceremony.VerifDecideInput{
		RequiredFlips:        uint8(f[0]),
		MadeFlips:            f[1],
		ShortScore:           pickF(shortReps(a.Case.ShortCls), r, rnd),
		LongScore:            pickF(longReps(a.Case.LongOk), r, rnd),
		TotalScore:           pickF(totalReps(a.Case.Total), r, rnd),
		TotalQualifiedFlips:  pickU(flipsReps(a.Case.Flips), r, rnd),
		Missed:               a.Case.Missed,
		NoQualShort:          a.Case.NqShort,
		NoQualLong:           a.Case.NqLong,
		CandidateToNewbieFix: a.Case.Fix93,
		Upgrade10:            a.Case.Up10,
		ShortQualifiedFlips:  pickU(cntReps(a.Case.ShortCnt), r, rnd),
		Upgrade12:            a.Case.Up12,
	}
	return c
}

// ---- random concrete inputs -------------------------------------------------------------------------------

func around(rnd *rand.Rand, t float32) float32 {
	k := rnd.Intn(7) - 3
	x := t
	for ; k < 0; k++ {
		x = below(x)
	}
	for ; k > 0; k-- {
		x = above(x)
	}
	return x
}

// a score as the ceremony produces it: (multiple of 0.5) / float32(count), or around a threshold, or anything
// (0/0 = NaN only where the ceremony divides unguarded: the total score)
func randScore(rnd *rand.Rand, n uint32, ts []float32, unguarded bool) float32 {
	switch rnd.Intn(10) {
	case 0, 1, 2, 3, 4:
		if n == 0 {
			if unguarded {
				return nan // 0/0: identity without any qualified flip
			}
			return 0
		}
		half := rnd.Intn(int(2*n) + 1)
		return ratio(float32(half)/2, n)
	case 5, 6, 7:
		return around(rnd, ts[rnd.Intn(len(ts))])
	case 8:
		return rnd.Float32()
	default:
		return float32(rnd.Intn(2))
	}
}

func randFlips(rnd *rand.Rand) uint32 {
	switch rnd.Intn(4) {
	case 0:
		return uint32(int(fVer) + rnd.Intn(5) - 2)
	case 1:
		return uint32(int(fHum) + rnd.Intn(5) - 2)
	default:
		return uint32(rnd.Intn(60))
	}
}

func randomCall(rnd *rand.Rand) call {
	names := []string{"Undefined", "Invite", "Candidate", "Verified", "Suspended", "Killed", "Zombie", "Newbie", "Human"}
	// the statuses with a real table are drawn more often
	prev := names[rnd.Intn(len(names))]
	if rnd.Intn(3) != 0 {
		prev = []string{"Candidate", "Newbie", "Verified", "Suspended", "Zombie", "Human"}[rnd.Intn(6)]
	}
	req := rnd.Intn(6)
	made := req + rnd.Intn(3)
	if rnd.Intn(8) == 0 && req > 0 {
		made = rnd.Intn(req)
	}
	sc := uint32(rnd.Intn(8))
	tf := randFlips(rnd)
	tn := tf
	if rnd.Intn(3) == 0 {
		tn = uint32(rnd.Intn(60))
	}
	return call{id: -1, prev: prev, in: ceremony.VerifDecideInput{
		RequiredFlips:        uint8(req),
		MadeFlips:            made,
		ShortScore:           randScore(rnd, sc, []float32{tShort, 0}, false),
		LongScore:            randScore(rnd, uint32(rnd.Intn(31)), []float32{tLong}, false),
		TotalScore:           randScore(rnd, tn, []float32{tTotal, tHuman}, true),
		TotalQualifiedFlips:  tf,
		Missed:               rnd.Intn(6) == 0,
		NoQualShort:          rnd.Intn(5) == 0,
		NoQualLong:           rnd.Intn(4) == 0,
		CandidateToNewbieFix: rnd.Intn(2) == 0,
		Upgrade10:            rnd.Intn(2) == 0,
		ShortQualifiedFlips:  sc,
		Upgrade12:            rnd.Intn(2) == 0,
	}}
}

func main() {
	cases := flag.String("cases", "", "TLC export (json lines)")
	out := flag.String("out", "", "trace output")
	reps := flag.Int("reps", 2, "concrete representatives per abstract case (0,1 = the two borders of every class, >= 2 seeded picks)")
	random := flag.Int("random", 0, "number of seeded random concrete inputs")
	calls := flag.String("calls", "", "recorded concrete calls to re-evaluate (ndjson, trace line format)")
	pfile := flag.String("params", "", "published thresholds exported from the specification (json)")
	flag.Parse()
	w := tr.Create(*out)
	defer w.Close()
	rnd := rand.New(rand.NewSource(tr.Seed()))
	hist := map[string]int{}
	var pr params
	raw, err := os.ReadFile(*pfile)
	if err != nil {
		panic(err)
	}
	if err := json.Unmarshal(raw, &pr); err != nil {
		panic(err)
	}
	if pr.MinShort == 0 || pr.MinLong == 0 || pr.MinTotal == 0 || pr.MinHuman == 0 || pr.FlipsVerified < 2 || pr.FlipsHuman < pr.FlipsVerified+2 {
		panic("bad params " + string(raw))
	}
	tShort, tLong, tTotal, tHuman = math.Float32frombits(pr.MinShort), math.Float32frombits(pr.MinLong), math.Float32frombits(pr.MinTotal), math.Float32frombits(pr.MinHuman)
	fVer, fHum = pr.FlipsVerified, pr.FlipsHuman
	ncase := 0
	if *cases != "" {
		tr.ReadLines(*cases, func(raw []byte) {
			var a acase
			if err := json.Unmarshal(raw, &a); err != nil {
				panic(err)
			}
			if _, ok := statusByName[a.Case.Prev]; !ok {
				panic("unknown status in case: " + a.Case.Prev)
			}
			for r := 0; r < *reps; r++ {
				hist[eval(w, concretise(a, r, rnd))]++
			}
			ncase++
		})
	}
	if *calls != "" {
		tr.ReadLines(*calls, func(raw []byte) {
			var e struct {
				Id                 int
				Prev               string
				Req, Made          int
				Missed, Nqs, Nql   bool
				Sb, Sc, Lb, Tb, Tf uint32
				Fix, U10, U12      bool
			}
			if err := json.Unmarshal(raw, &e); err != nil {
				panic(err)
			}
			if _, ok := statusByName[e.Prev]; !ok {
				panic("unknown status in call: " + e.Prev)
			}
			hist[eval(w, call{id: e.Id, prev: e.Prev, in: ceremony.VerifDecideInput{
				RequiredFlips: uint8(e.Req), MadeFlips: e.Made,
				ShortScore: math.Float32frombits(e.Sb), LongScore: math.Float32frombits(e.Lb), TotalScore: math.Float32frombits(e.Tb),
				TotalQualifiedFlips: e.Tf, Missed: e.Missed, NoQualShort: e.Nqs, NoQualLong: e.Nql,
				CandidateToNewbieFix: e.Fix, Upgrade10: e.U10, ShortQualifiedFlips: e.Sc, Upgrade12: e.U12,
			}})]++
			ncase++
		})
	}
	for i := 0; i < *random; i++ {
		hist[eval(w, randomCall(rnd))]++
	}
	fmt.Fprintf(os.Stderr, "cases=%d lines=%d results=%v\n", ncase, w.N, hist)
}
