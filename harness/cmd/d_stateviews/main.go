// d_stateviews performs action sequences exported by TLC from spec/StateViews.tla on the REAL
// core/state.StateDB + IdentityStateDB and core/appstate.AppState over tm-db MemDBs and logs, after
// every call, what every object shows (C13, layer between the overlay store and the chain).
//
//	canonical object `c`  : the object the views are taken from (database cdb)
//	control object  `t`   : performs the canonical calls only, in a database of its own (tdb); no view is
//	                        ever taken from it; instead of Reset()/after ResetTo() it is re-opened from tdb
//	views v[1..3]         : ForCheck / ForCheckWithOverwrite / Readonly of `c`
//	historian             : after every canonical commit a freshly booted reader of tdb records what was
//	                        committed at that height (NewLazy + Load, no view constructor involved)
//
// Levels: "app" drives AppState (ForCheck, ForCheckWithOverwrite, Readonly + its cache, Precommit, Commit,
// CommitTrees, CommitAt, Reset, ResetTo, NonceCache, ValidatorsCache); "sdb" drives StateDB and
// IdentityStateDB directly (ForCheck..., Precommit, Commit, CommitTree, SaveForcedVersion, AddDiff, Reset,
// ResetTo, NewNonceCache).
//
// A write step [s, v] is bound by the case to one entry of the explicit method table below (every
// mutating method of StateDB / IdentityStateDB that block processing can reach, each mapped to the KIND of
// in-memory buffer it lands in).  The driver decides nothing: the trace is judged by Trace_StateViews.tla.
//
//	d_stateviews -list                       print the method table (json)
//	d_stateviews -cases <file> -out <trace>  run cases {id, lvl, deep, bind:{slot:method}, path:[...]}
package main

import (
	"crypto/sha256"
	"encoding/binary"
	"encoding/hex"
	"encoding/json"
	"flag"
	"fmt"
	"math/big"
	"os"
	"runtime"
	"runtime/debug"
	"runtime/pprof"
	"sort"
	"strings"
	"sync"
	"sync/atomic"
	"time"

	"github.com/idena-network/idena-go/blockchain/types"
	"github.com/idena-network/idena-go/common"
	"github.com/idena-network/idena-go/common/eventbus"
	"github.com/idena-network/idena-go/core/appstate"
	"github.com/idena-network/idena-go/core/state"
	dbm "github.com/tendermint/tm-db"

	"verifh/internal/tr"
)

const NV = 3 // view slots in a trace line

func addr(b byte) common.Address {
	var a common.Address
	for i := range a {
		a[i] = b
	}
	return a
}

var (
	A1 = addr(0x11)
	A2 = addr(0x22)
	A3 = addr(0x33)
	A4 = addr(0x44)
	A5 = addr(0x55) // not in the genesis state
	C1 = addr(0xc1) // deployed contract with code and values
	C2 = addr(0xc2) // free contract address

	k1 = []byte("key-1")
	k2 = []byte("key-2")
	k3 = []byte("key-3")

	cidA = []byte("flip-cid-a")
	cidB = []byte("flip-cid-b")
)

func bi(n int) *big.Int { return big.NewInt(int64(n)) }

func code(v int) []byte { return []byte(fmt.Sprintf("\x00asm-code-%d-%s", v, strings.Repeat("x", 40))) }

func pick(v int, as ...common.Address) common.Address { return as[(v-1)%len(as)] }

type target struct {
	S *state.StateDB
	I *state.IdentityStateDB
	A *appstate.AppState // nil at level sdb
}

type method struct {
	Name string `json:"name"`
	Kind string `json:"kind"`
	fn   func(t *target, v int)
}

// Kinds (one per in-memory buffer of the state objects):
//
//	acc   stateAccounts / stateAccountsDirty          idn  stateIdentities / stateIdentitiesDirty
//	glb   stateGlobal                                  ssw  stateStatusSwitch
//	dsw   stateDelegationSwitch                        dpn  stateDelayedOfflinePenalties
//	brn   stateBurntCoins / stateBurntCoinsDirty       dis  discriminationStatusSwitch
//	cval  contractStoreCache                           ccode contractCodeCache (+ the account's code hash)
//	ist   IdentityStateDB.stateIdentities / Dirty
var methods = []method{
	// ---- accounts
	{"ClearAccount", "acc", func(t *target, v int) { t.S.ClearAccount(A2) }},
	{"AddBalance", "acc", func(t *target, v int) { t.S.AddBalance(A1, bi(7*v)) }},
	{"AddBalance/new", "acc", func(t *target, v int) { t.S.AddBalance(A5, bi(9*v)) }},
	{"SubBalance", "acc", func(t *target, v int) { t.S.SubBalance(A1, bi(3*v)) }},
	{"SetBalance", "acc", func(t *target, v int) { t.S.SetBalance(A2, bi(1000+v)) }},
	{"SetNonce", "acc", func(t *target, v int) { t.S.SetNonce(A1, uint32(10+v)) }},
	{"SetEpoch", "acc", func(t *target, v int) { t.S.SetEpoch(A1, uint16(20+v)) }},
	{"DeployContract", "acc", func(t *target, v int) { t.S.DeployContract(C2, common.Hash{byte(v), 0xee}, bi(5*v)) }},
	{"DropContract", "acc", func(t *target, v int) { t.S.DropContract(C1) }},
	{"SetContractStake", "acc", func(t *target, v int) { t.S.SetContractStake(C1, bi(90+v)) }},
	// ---- identities
	{"AddStake", "idn", func(t *target, v int) { t.S.AddStake(A1, bi(3*v)) }},
	{"AddReplenishedStake", "idn", func(t *target, v int) { t.S.AddReplenishedStake(A1, bi(2*v)) }},
	{"AddLockedStake", "idn", func(t *target, v int) { t.S.AddLockedStake(A1, bi(4*v)) }},
	{"SubStake", "idn", func(t *target, v int) { t.S.SubStake(A1, bi(v)) }},
	{"SubReplenishedStake", "idn", func(t *target, v int) { t.S.SubReplenishedStake(A1, bi(v)) }},
	{"SubLockedStake", "idn", func(t *target, v int) { t.S.SubLockedStake(A1, bi(v)) }},
	{"SetState", "idn", func(t *target, v int) {
		t.S.SetState(A3, []state.IdentityState{state.Suspended, state.Zombie, state.Human}[(v-1)%3])
	}},
	{"SetState/kill", "idn", func(t *target, v int) { t.S.SetMetadata(A4, "keep"); t.S.SetState(A4, state.Killed) }},
	{"SetMetadata", "idn", func(t *target, v int) { t.S.SetMetadata(A1, "keep") }},
	{"SetGeneticCode", "idn", func(t *target, v int) { t.S.SetGeneticCode(A1, uint32(2+v), []byte{1, 2, byte(v)}) }},
	{"AddInvite", "idn", func(t *target, v int) { t.S.AddInvite(A1, uint8(v)) }},
	{"SetInvites", "idn", func(t *target, v int) { t.S.SetInvites(A1, uint8(5+v)) }},
	{"SubInvite", "idn", func(t *target, v int) { t.S.SubInvite(A1, 1) }},
	{"SetPubKey", "idn", func(t *target, v int) { t.S.SetPubKey(A2, []byte{4, 5, 6, byte(v)}) }},
	{"SetRequiredFlips", "idn", func(t *target, v int) { t.S.SetRequiredFlips(A1, uint8(4+v)) }},
	{"AddFlip", "idn", func(t *target, v int) { t.S.AddFlip(A1, []byte(fmt.Sprintf("flip-cid-n%d", v)), uint8(v)) }},
	{"DeleteFlip", "idn", func(t *target, v int) { t.S.DeleteFlip(A1, cidA) }},
	{"ClearFlips", "idn", func(t *target, v int) { t.S.ClearFlips(A1) }},
	{"AddNewScore", "idn", func(t *target, v int) { t.S.AddNewScore(A1, common.EncodeScore(float32(v), uint32(5+v))) }},
	{"SetInviter", "idn", func(t *target, v int) { t.S.SetInviter(A3, A1, common.Hash{byte(v), 1}, uint32(7+v)) }},
	{"ResetInviter", "idn", func(t *target, v int) { t.S.ResetInviter(A1) }},
	{"AddInvitee", "idn", func(t *target, v int) { t.S.AddInvitee(A1, A2, common.Hash{byte(v), 2}) }},
	{"RemoveInvitee", "idn", func(t *target, v int) { t.S.RemoveInvitee(A1, A3) }},
	{"SetBirthday", "idn", func(t *target, v int) { t.S.SetBirthday(A1, uint16(3+v)) }},
	{"SetPenaltySeconds", "idn", func(t *target, v int) { t.S.SetPenaltySeconds(A1, uint16(100+v)) }},
	{"SubPenalty", "idn", func(t *target, v int) { t.S.SubPenalty(A1, bi(v)) }},
	{"ClearPenalty", "idn", func(t *target, v int) { t.S.ClearPenalty(A1) }},
	{"SubPenaltySeconds", "idn", func(t *target, v int) { t.S.SubPenaltySeconds(A2, uint16(v)) }},
	{"SetPenaltyTimestamp", "idn", func(t *target, v int) { t.S.SetPenaltyTimestamp(A1, int64(1000+v)) }},
	{"SetProfileHash", "idn", func(t *target, v int) { t.S.SetProfileHash(A1, []byte{9, 9, byte(v)}) }},
	{"SetValidationTxBit", "idn", func(t *target, v int) {
		t.S.SetValidationTxBit(A1, []types.TxType{types.SubmitShortAnswersTx, types.EvidenceTx, types.SubmitLongAnswersTx}[(v-1)%3])
	}},
	{"ResetValidationTxBits", "idn", func(t *target, v int) { t.S.ResetValidationTxBits(A1) }},
	{"SetValidationStatus", "idn", func(t *target, v int) { t.S.SetValidationStatus(A1, state.ValidationStatusFlag(1<<uint(v%3))) }},
	{"SetDelegatee", "idn", func(t *target, v int) { t.S.SetDelegatee(A3, pick(v, A1, A2, A4)) }},
	{"RemoveDelegatee", "idn", func(t *target, v int) { t.S.RemoveDelegatee(A1) }},
	{"SetDelegationNonce", "idn", func(t *target, v int) { t.S.SetDelegationNonce(A1, uint32(5+v)) }},
	{"SetDelegationEpoch", "idn", func(t *target, v int) { t.S.SetDelegationEpoch(A1, uint16(6+v)) }},
	{"SetPendingUndelegation", "idn", func(t *target, v int) { t.S.SetPendingUndelegation(A1) }},
	{"SetUndelegationEpoch", "idn", func(t *target, v int) { t.S.SetUndelegationEpoch(A1, uint16(8+v)) }},
	{"RemovePendingUndelegation", "idn", func(t *target, v int) { t.S.RemovePendingUndelegation(A1) }},
	{"SetShardId", "idn", func(t *target, v int) { t.S.SetShardId(A1, common.ShardId(1+v)) }},
	// getters that create (and dirty) an identity record as a side effect
	{"Delegatee/get-or-new", "idn", func(t *target, v int) { t.S.Delegatee(A5) }},
	{"DelegationEpoch/get-or-new", "idn", func(t *target, v int) { t.S.DelegationEpoch(A5) }},
	{"ShardId/get-or-new", "idn", func(t *target, v int) { t.S.ShardId(A5) }},
	{"GetPenalty/get-or-new", "idn", func(t *target, v int) { t.S.GetPenalty(A5) }},
	// ---- global
	{"SetLastSnapshot", "glb", func(t *target, v int) { t.S.SetLastSnapshot(uint64(100 + v)) }},
	{"SetDiscriminationStakeThreshold", "glb", func(t *target, v int) { t.S.SetDiscriminationStakeThreshold(bi(40 + v)) }},
	{"SetNextValidationTime", "glb", func(t *target, v int) { t.S.SetNextValidationTime(time.Unix(int64(5000+v), 0)) }},
	{"SetValidationPeriod", "glb", func(t *target, v int) { t.S.SetValidationPeriod(state.ValidationPeriod(1 + v%4)) }},
	{"SetGodAddress", "glb", func(t *target, v int) { t.S.SetGodAddress(pick(v, A2, A3, A4)) }},
	{"IncEpoch", "glb", func(t *target, v int) { t.S.IncEpoch() }},
	{"SetGlobalEpoch", "glb", func(t *target, v int) { t.S.SetGlobalEpoch(uint16(9 + v)) }},
	{"SetVrfProposerThreshold", "glb", func(t *target, v int) { t.S.SetVrfProposerThreshold(0.5 + float64(v)/10) }},
	{"AddBlockBit", "glb", func(t *target, v int) { t.S.AddBlockBit(v%2 == 0) }},
	{"SetEpochBlock", "glb", func(t *target, v int) { t.S.SetEpochBlock(uint64(50 + v)) }},
	{"AddPrevEpochBlock", "glb", func(t *target, v int) { t.S.AddPrevEpochBlock(uint64(60 + v)) }},
	{"SetFlipWordsSeed", "glb", func(t *target, v int) { t.S.SetFlipWordsSeed(types.Seed{byte(v), 7}) }},
	{"SetFeePerGas", "glb", func(t *target, v int) { t.S.SetFeePerGas(bi(300 + v)) }},
	{"SubGodAddressInvite", "glb", func(t *target, v int) { t.S.SubGodAddressInvite() }},
	{"SetGodAddressInvites", "glb", func(t *target, v int) { t.S.SetGodAddressInvites(uint16(20 + v)) }},
	{"IncBlocksCntWithoutCeremonialTxs", "glb", func(t *target, v int) { t.S.IncBlocksCntWithoutCeremonialTxs() }},
	{"ResetBlocksCntWithoutCeremonialTxs", "glb", func(t *target, v int) { t.S.ResetBlocksCntWithoutCeremonialTxs() }},
	{"AddEmptyBlockByShard", "glb", func(t *target, v int) { t.S.AddEmptyBlockByShard(10, common.ShardId(2), pick(v, A2, A3, A4)) }},
	{"ResetEmptyBlockByShard", "glb", func(t *target, v int) { t.S.ResetEmptyBlockByShard(common.ShardId(1)) }},
	{"ClearEmptyBlocksByShard", "glb", func(t *target, v int) { t.S.ClearEmptyBlocksByShard() }},
	{"SetShardsNum", "glb", func(t *target, v int) { t.S.SetShardsNum(uint32(3 + v)) }},
	{"IncreaseShardSize", "glb", func(t *target, v int) { t.S.IncreaseShardSize(common.ShardId(1)) }},
	{"DecreaseShardSize", "glb", func(t *target, v int) { t.S.DecreaseShardSize(common.ShardId(1)) }},
	{"SetShardSize", "glb", func(t *target, v int) { t.S.SetShardSize(common.ShardId(2), uint32(7+v)) }},
	// ---- status switch / delegation switch / discrimination switch / delayed penalties
	{"ToggleStatusSwitchAddress/add", "ssw", func(t *target, v int) { t.S.ToggleStatusSwitchAddress(pick(v, A3, A4, A1)) }},
	{"ToggleStatusSwitchAddress/remove", "ssw", func(t *target, v int) { t.S.ToggleStatusSwitchAddress(A2) }},
	{"ClearStatusSwitchAddresses", "ssw", func(t *target, v int) { t.S.ClearStatusSwitchAddresses() }},
	{"ToggleDelegationAddress", "dsw", func(t *target, v int) { t.S.ToggleDelegationAddress(A4, pick(v, A1, A2, A3)) }},
	{"ToggleDelegationAddress/change", "dsw", func(t *target, v int) { t.S.ToggleDelegationAddress(A3, pick(v, A1, A4, A5)) }},
	{"ClearDelegations", "dsw", func(t *target, v int) { t.S.ClearDelegations() }},
	{"AddDiscriminationStatusSwitch", "dis", func(t *target, v int) { t.S.AddDiscriminationStatusSwitch(pick(v, A3, A1, A2)) }},
	{"ClearDiscriminationStatusSwitchAddresses", "dis", func(t *target, v int) { t.S.ClearDiscriminationStatusSwitchAddresses() }},
	{"AddDelayedPenalty", "dpn", func(t *target, v int) { t.S.AddDelayedPenalty(pick(v, A4, A1, A2)) }},
	{"ClearDelayedOfflinePenalties", "dpn", func(t *target, v int) { t.S.ClearDelayedOfflinePenalties() }},
	{"RemoveDelayedOfflinePenalty", "dpn", func(t *target, v int) { t.S.RemoveDelayedOfflinePenalty(A3) }},
	// ---- burnt coins
	{"AddBurntCoins", "brn", func(t *target, v int) { t.S.AddBurntCoins(3, A1, "burn-key", bi(11*v)) }},
	{"AddBurntCoins/existing", "brn", func(t *target, v int) { t.S.AddBurntCoins(2, A2, "burn-key-2", bi(13*v)) }},
	{"ClearOutdatedBurntCoins", "brn", func(t *target, v int) { t.S.ClearOutdatedBurntCoins(1) }},
	// ---- contract store values / contract code
	{"SetContractValue", "cval", func(t *target, v int) { t.S.SetContractValue(C1, k1, []byte(fmt.Sprintf("value-%d", v))) }},
	{"SetContractValue/new", "cval", func(t *target, v int) { t.S.SetContractValue(C1, k3, []byte(fmt.Sprintf("fresh-%d", v))) }},
	{"RemoveContractValue", "cval", func(t *target, v int) { t.S.RemoveContractValue(C1, k2) }},
	{"DeployWasmContract", "ccode", func(t *target, v int) { t.S.DeployWasmContract(C2, code(v)) }},
	{"DeployWasmContract/redeploy", "ccode", func(t *target, v int) { t.S.DeployWasmContract(C1, code(10+v)) }},
	// ---- identity state (IdentityStateDB)
	{"IdentityState.SetValidated", "ist", func(t *target, v int) { t.I.SetValidated(pick(v, A4, A5), true) }},
	{"IdentityState.SetValidated/off", "ist", func(t *target, v int) { t.I.SetValidated(A2, false) }},
	{"IdentityState.Remove", "ist", func(t *target, v int) { t.I.Remove(pick(v, A1, A3)) }},
	{"IdentityState.SetDiscriminated", "ist", func(t *target, v int) { t.I.SetDiscriminated(pick(v, A1, A2), true) }},
	{"IdentityState.SetOnline", "ist", func(t *target, v int) { t.I.SetOnline(pick(v, A2, A3), true) }},
	{"IdentityState.SetOnline/off", "ist", func(t *target, v int) { t.I.SetOnline(A1, false) }},
	{"IdentityState.SetDelegatee", "ist", func(t *target, v int) { t.I.SetDelegatee(A4, pick(v, A2, A1)) }},
	{"IdentityState.RemoveDelegatee", "ist", func(t *target, v int) { t.I.RemoveDelegatee(A3) }},
}

var methodByName = map[string]*method{}

// the identity hook of blockchain.go in miniature: pure, applied by Precommit on every dirty identity
func hook(id *state.Identity) {
	if id.State != state.Killed || id.Metadata() == nil {
		return
	}
	if id.ProfileHash != nil {
		*id = state.Identity{ProfileHash: id.ProfileHash}
	}
}

// ------------------------------------------------------------------------------------------------
// genesis: two rich versions, so that Remove*/Clear*/Sub*/Drop* have something to bite on

func genesis1(t *target) {
	s := t.S
	s.SetBalance(A1, bi(100000))
	s.SetNonce(A1, 3)
	s.SetEpoch(A1, 1)
	s.SetBalance(A2, bi(500))
	s.SetBalance(A3, bi(70))
	s.SetBalance(C1, bi(10)) // keeps the account alive when its contract is dropped
	s.DeployWasmContract(C1, code(0))
	s.SetContractStake(C1, bi(77))
	s.SetContractValue(C1, k1, []byte("v1"))
	s.SetContractValue(C1, k2, []byte("v2"))

	s.SetState(A1, state.Verified)
	s.AddStake(A1, bi(1000))
	s.AddReplenishedStake(A1, bi(100))
	s.AddLockedStake(A1, bi(50))
	s.SetInvites(A1, 4)
	s.SetPubKey(A1, []byte{1, 2, 3})
	s.SetBirthday(A1, 2)
	s.SetRequiredFlips(A1, 3)
	s.AddFlip(A1, cidA, 1)
	s.AddFlip(A1, cidB, 2)
	s.AddNewScore(A1, common.EncodeScore(5, 6))
	s.SetInviter(A1, A2, common.Hash{0xaa}, 12)
	s.AddInvitee(A1, A3, common.Hash{0xbb})
	s.AddInvitee(A1, A4, common.Hash{0xcc})
	s.SetProfileHash(A1, []byte{7, 7, 7})
	s.SetValidationTxBit(A1, types.SubmitAnswersHashTx)
	s.SetValidationStatus(A1, state.AtLeastOneFlipReported)
	s.SetDelegatee(A1, A2)
	s.SetDelegationNonce(A1, 2)
	s.SetDelegationEpoch(A1, 3)
	s.SetShardId(A1, 1)
	s.SetGeneticCode(A1, 1, []byte{9})
	s.SetPenaltyTimestamp(A1, 900)
	s.GetOrNewIdentityObject(A1).SetPenalty(bi(500))

	s.SetState(A2, state.Human)
	s.AddStake(A2, bi(300))
	s.SetPenaltySeconds(A2, 600)
	s.SetState(A3, state.Newbie)
	s.AddStake(A3, bi(30))
	s.SetState(A4, state.Candidate)
	s.SetProfileHash(A4, []byte{4, 4})

	s.SetGlobalEpoch(5)
	s.SetNextValidationTime(time.Unix(4000, 0))
	s.SetGodAddress(A1)
	s.SetFeePerGas(bi(200))
	s.SetVrfProposerThreshold(0.4)
	s.SetEpochBlock(1)
	s.AddPrevEpochBlock(1)
	s.SetFlipWordsSeed(types.Seed{1, 2, 3})
	s.SetGodAddressInvites(10)
	s.SetShardsNum(2)
	s.SetShardSize(1, 3)
	s.SetShardSize(2, 2)
	s.AddEmptyBlockByShard(10, 1, A1)
	s.IncBlocksCntWithoutCeremonialTxs()
	s.SetLastSnapshot(1)
	s.SetDiscriminationStakeThreshold(bi(40))
	s.AddBlockBit(false)
	s.AddBlockBit(true)

	s.ToggleStatusSwitchAddress(A2)
	s.ToggleDelegationAddress(A3, A2)
	s.AddDelayedPenalty(A3)
	s.AddDiscriminationStatusSwitch(A4)
	s.AddBurntCoins(1, A1, "burn-1", bi(5))

	t.I.SetValidated(A1, true)
	t.I.SetOnline(A1, true)
	t.I.SetValidated(A2, true)
	t.I.SetValidated(A3, true)
	t.I.SetDelegatee(A3, A2)
}

func genesis2(t *target) {
	s := t.S
	s.AddBalance(A2, bi(25))
	s.SetNonce(A2, 1)
	s.AddBurntCoins(2, A1, "burn-2", bi(6))
	s.IncEpoch()
	s.AddStake(A3, bi(1))
	s.SetContractValue(C1, k1, []byte("v1b"))
	s.ToggleStatusSwitchAddress(A4)
	s.AddDelayedPenalty(A2)
	t.I.SetOnline(A2, true)
}

func block(h uint64) *types.Block {
	return &types.Block{Header: &types.Header{ProposedHeader: &types.ProposedHeader{Height: h, Flags: types.IdentityUpdate}}, Body: &types.Body{}}
}

func must(err error) {
	if err != nil {
		panic(err)
	}
}

// open boots an object from a database at a version (0 = whatever is there), the way the node boots
func open(lvl string, db dbm.DB, h uint64) *target {
	if lvl == "app" {
		a, err := appstate.NewAppState(db, eventbus.New())
		must(err)
		must(a.Initialize(h))
		a.ProvideIdentityUpdateHook(hook)
		return &target{S: a.State, I: a.IdentityState, A: a}
	}
	s, err := state.NewLazy(db)
	must(err)
	must(s.Load(h))
	i, err := state.NewLazyIdentityState(db)
	must(err)
	must(i.Load(h))
	s.ProvideIdentityUpdateHook(hook)
	return &target{S: s, I: i}
}

// reopen boots the control object anew from its database.  AppState.Initialize leaves the global object in the
// StateDB's cache (it asks for the god address); the canonical object has just dropped its caches (Reset /
// ResetTo), so the control drops that one too: both then read the trees.  (AddDiff writes the trees behind the
// object caches: until CommitTrees a cached object is deliberately stale, and the two must be stale alike.)
func reopen(lvl string, db dbm.DB, h uint64) *target {
	t := open(lvl, db, h)
	t.S.Clear()
	return t
}

func commit(t *target, h uint64) error {
	if t.A != nil {
		return t.A.Commit(block(h))
	}
	if _, _, _, err := t.S.Commit(true); err != nil {
		return err
	}
	_, _, _, err := t.I.Commit(true)
	return err
}

func copyDb(src dbm.DB) dbm.DB {
	dst := dbm.NewMemDB()
	it, err := src.Iterator(nil, nil)
	must(err)
	defer it.Close()
	for ; it.Valid(); it.Next() {
		k := append([]byte{}, it.Key()...)
		v := append([]byte{}, it.Value()...)
		must(dst.Set(k, v))
	}
	return dst
}

// ------------------------------------------------------------------------------------------------
// observation

func dig(s string) string {
	h := sha256.Sum256([]byte(s))
	return hex.EncodeToString(h[:4])
}

func dbDigest(db dbm.DB) string {
	h := sha256.New()
	it, err := db.Iterator(nil, nil)
	must(err)
	defer it.Close()
	var n [8]byte
	for ; it.Valid(); it.Next() {
		k, v := it.Key(), it.Value()
		binary.LittleEndian.PutUint32(n[:4], uint32(len(k)))
		binary.LittleEndian.PutUint32(n[4:], uint32(len(v)))
		h.Write(n[:])
		h.Write(k)
		h.Write(v)
	}
	return hex.EncodeToString(h.Sum(nil)[:6])
}

var kinds = []string{"acc", "idn", "glb", "ssw", "dsw", "dpn", "dis", "brn", "cval", "ccode", "ist"}

func addrs(as []common.Address) string {
	var b strings.Builder
	for _, a := range as {
		b.WriteString(hex.EncodeToString(a[:2]))
		b.WriteByte(',')
	}
	return b.String()
}

// readBack performs the getter read-backs: one digest per kind of buffer, joined in the order of `kinds`
func readBack(t *target, raw map[string]string) string {
	s := t.S
	m := map[string]string{}
	var b strings.Builder
	for _, a := range []common.Address{A1, A2, A5, C1, C2} {
		fmt.Fprintf(&b, "%x:%v|%d|%d|", a[:1], s.GetBalance(a), s.GetNonce(a), s.GetEpoch(a))
		if h := s.GetCodeHash(a); h != nil {
			fmt.Fprintf(&b, "%x", h[:4])
		}
		fmt.Fprintf(&b, "|%v;", s.GetContractStake(a))
	}
	m["acc"] = b.String()
	b.Reset()
	for _, a := range []common.Address{A1, A2, A3, A4, A5} {
		fmt.Fprintf(&b, "%x:%x;", a[:1], s.RawIdentity(a))
	}
	m["idn"] = b.String()
	m["glb"] = hex.EncodeToString(s.RawGlobal())
	m["ssw"] = addrs(s.StatusSwitchAddresses())
	b.Reset()
	for _, d := range s.Delegations() {
		fmt.Fprintf(&b, "%x>%x,", d.Delegator[:1], d.Delegatee[:1])
	}
	m["dsw"] = b.String()
	m["dpn"] = addrs(s.DelayedOfflinePenalties())
	m["dis"] = addrs(s.DiscriminationStatusSwitchAddresses())
	b.Reset()
	s.IterateBurntCoins(func(height uint64, value state.BurntCoins) {
		fmt.Fprintf(&b, "%d:", height)
		for _, it := range value.Items {
			fmt.Fprintf(&b, "%x/%s/%v,", it.Address[:1], it.Key, it.Amount)
		}
		b.WriteByte(';')
	})
	m["brn"] = b.String()
	b.Reset()
	for _, c := range []common.Address{C1, C2} {
		for _, k := range [][]byte{k1, k2, k3} {
			fmt.Fprintf(&b, "%x.%s=%s;", c[:1], k, s.GetContractValue(c, k))
		}
	}
	// (explicit borders: the default upper border is a 32 KiB key that is rebuilt for every buffered entry)
	var kv []string
	s.IterateContractStore(C1, []byte("key-"), []byte("key-9"), func(key []byte, value []byte) bool {
		kv = append(kv, fmt.Sprintf("%s=%s", key, value))
		return false
	})
	sort.Strings(kv)
	fmt.Fprintf(&b, "[%s]", strings.Join(kv, ","))
	m["cval"] = b.String()
	m["ccode"] = fmt.Sprintf("%s|%s", s.GetContractCode(C1), s.GetContractCode(C2))
	b.Reset()
	for _, a := range []common.Address{A1, A2, A3, A4, A5} {
		fmt.Fprintf(&b, "%x:%v,%v,", a[:1], t.I.IsValidated(a), t.I.IsOnline(a))
		if d := t.I.Delegatee(a); d != nil {
			fmt.Fprintf(&b, "%x", d[:1])
		}
		b.WriteByte(';')
	}
	t.I.IterateIdentities(func(key []byte, value []byte) bool {
		fmt.Fprintf(&b, "%x=%x,", key[:2], value)
		return false
	})
	m["ist"] = b.String()
	ds := make([]string, len(kinds))
	for i, k := range kinds {
		if raw != nil {
			raw[k] = m[k]
		}
		ds[i] = dig(m[k])
	}
	return strings.Join(ds, ".")
}

func vcDigest(t *target) string {
	if t.A == nil || t.A.ValidatorsCache == nil {
		return ""
	}
	vc := t.A.ValidatorsCache
	var b strings.Builder
	fmt.Fprintf(&b, "%d|%d|%d|%d|", vc.NetworkSize(), vc.OnlineSize(), vc.ValidatorsSize(), vc.Height())
	for _, a := range []common.Address{A1, A2, A3, A4, A5} {
		fmt.Fprintf(&b, "%v%v%v%v%d;", vc.IsValidated(a), vc.IsOnlineIdentity(a), vc.IsDiscriminated(a), vc.IsPool(a), vc.PoolSize(a))
	}
	return dig(b.String())
}

var verbose bool

func observe(t *target, deep bool) tr.M {
	r, ir := t.S.Root(), t.I.Root()
	o := tr.M{"live": true, "root": hex.EncodeToString(r[:8]), "iroot": hex.EncodeToString(ir[:8]), "ver": t.S.Version(),
		"vc": vcDigest(t), "d": deep, "rb": ""}
	if deep {
		var raw map[string]string
		if verbose {
			raw = map[string]string{}
			o["raw"] = raw
		}
		o["rb"] = readBack(t, raw)
	}
	return o
}

var deadObs = tr.M{"live": false, "root": "", "iroot": "", "ver": 0, "vc": "", "d": false, "rb": ""}

func versions(t *target, top int) string {
	var b strings.Builder
	for h := 1; h <= top+2; h++ {
		if t.S.HasVersion(uint64(h)) {
			fmt.Fprintf(&b, "%d,", h)
		}
	}
	b.WriteByte('|')
	for h := 1; h <= top+2; h++ {
		if t.I.HasVersion(uint64(h)) {
			fmt.Fprintf(&b, "%d,", h)
		}
	}
	return b.String()
}

// ------------------------------------------------------------------------------------------------
// worlds

type diffPair struct {
	sd  []*state.StateTreeDiff
	idd *state.IdentityStateDiff
}

type view struct {
	t     *target
	ctor  string
	base  int
	diffs []diffPair
}

type world struct {
	lvl      string
	deep     bool
	cdb, tdb dbm.DB
	c, t     *target
	views    [NV + 1]*view
	top      int
	mid      bool
	midDiff  *state.IdentityStateDiff
	bind     map[string]string
}

type genesisT struct {
	db  dbm.DB
	gen []tr.M
}

var genesisByLvl = map[string]*genesisT{}

func historian(db dbm.DB, h int) tr.M {
	return observe(open("sdb", db, uint64(h)), true)
}

func genesisFor(lvl string) *genesisT {
	if g := genesisByLvl[lvl]; g != nil {
		return g
	}
	db := dbm.NewMemDB()
	t := open(lvl, db, 0)
	genesis1(t)
	must(commit(t, 1))
	g := &genesisT{db: db}
	g.gen = append(g.gen, historian(db, 1))
	genesis2(t)
	must(commit(t, 2))
	g.gen = append(g.gen, historian(db, 2))
	genesisByLvl[lvl] = g
	return g
}

func newWorld(lvl string, deep bool, bind map[string]string) (*world, []tr.M) {
	g := genesisFor(lvl)
	w := &world{lvl: lvl, deep: deep, cdb: copyDb(g.db), tdb: copyDb(g.db), top: 2, bind: bind}
	w.c = open(lvl, w.cdb, 2)
	w.t = open(lvl, w.tdb, 2)
	return w, g.gen
}

func (w *world) obs(deep bool) tr.M {
	vs := make([]tr.M, NV)
	for x := 1; x <= NV; x++ {
		if v := w.views[x]; v != nil {
			vs[x-1] = observe(v.t, deep)
		} else {
			vs[x-1] = deadObs
		}
	}
	return tr.M{
		"c":  observe(w.c, deep),
		"t":  observe(w.t, deep),
		"cx": tr.M{"vers": versions(w.c, w.top), "dbd": dbDigest(w.cdb)},
		"tx": tr.M{"vers": versions(w.t, w.top)},
		"v":  vs,
	}
}

type step struct {
	Ev   string `json:"ev"`
	X    int    `json:"x"`
	Ctor string `json:"ctor"`
	H    int    `json:"h"`
	S    int    `json:"s"`
	V    int    `json:"v"`
}

type tcase struct {
	Id   int               `json:"id"`
	Lvl  string            `json:"lvl"`
	Deep bool              `json:"deep"`
	Bind map[string]string `json:"bind"`
	Path []step            `json:"path"`
}

func errStr(err error) string {
	if err == nil {
		return ""
	}
	return err.Error()
}

func precommit(t *target) diffPair {
	if t.A != nil {
		sd, idd := t.A.Precommit()
		return diffPair{sd, idd}
	}
	return diffPair{t.S.Precommit(true), t.I.Precommit(true)}
}

func reset(t *target) {
	if t.A != nil {
		t.A.Reset()
		return
	}
	t.S.Reset()
	t.I.Reset()
}

func resetTo(t *target, h uint64) error {
	if t.A != nil {
		return t.A.ResetTo(h)
	}
	if err := t.S.ResetTo(h); err != nil {
		return err
	}
	return t.I.ResetTo(h)
}

func (w *world) makeView(ctor string, h uint64) (*target, error) {
	c := w.c
	if c.A != nil {
		var a *appstate.AppState
		var err error
		switch ctor {
		case "check":
			a, err = c.A.ForCheck(h)
		case "overwrite":
			a, err = c.A.ForCheckWithOverwrite(h)
		case "readonly":
			a, err = c.A.Readonly(h)
		}
		if err != nil {
			return nil, err
		}
		return &target{S: a.State, I: a.IdentityState, A: a}, nil
	}
	var s *state.StateDB
	var i *state.IdentityStateDB
	var err error
	switch ctor {
	case "check":
		if s, err = c.S.ForCheck(h); err == nil {
			i, err = c.I.ForCheck(h)
		}
	case "overwrite":
		if s, err = c.S.ForCheckWithOverwrite(h); err == nil {
			i, err = c.I.ForCheckWithOverwrite(h)
		}
	case "readonly":
		if s, err = c.S.Readonly(int64(h)); err == nil {
			i, err = c.I.Readonly(h)
		}
	}
	if err != nil {
		return nil, err
	}
	return &target{S: s, I: i}, nil
}

func mergeDiff(into *state.IdentityStateDiff, d *state.IdentityStateDiff) {
	if d != nil {
		into.Values = append(into.Values, d.Values...)
	}
}

// nonceTouch uses the nonce cache: the AppState's own (shared with its views on purpose) or, at the StateDB
// level, a new one over the canonical StateDB (NewNonceCache takes a Readonly(-1) view of it)
func (w *world) nonceTouch(t *target) error {
	nc := (*state.NonceCache)(nil)
	if t.A != nil {
		nc = t.A.NonceCache
	} else {
		var err error
		if nc, err = state.NewNonceCache(w.c.S); err != nil {
			return err
		}
	}
	nc.GetNonce(A5, 1)
	nc.SetNonce(A1, 6, 77)
	nc.GetNonce(A1, 6)
	return nil
}

// do performs one real call (on the control object too when it is a canonical call)
func (w *world) do(e step, line tr.M) (err error) {
	write := func(t *target) {
		name := w.bind[fmt.Sprint(e.S)]
		m := methodByName[name]
		if m == nil {
			panic("unbound slot " + fmt.Sprint(e.S))
		}
		line["m"], line["k"] = m.Name, m.Kind
		m.fn(t, e.V)
	}
	switch e.Ev {
	case "CanonWrite":
		write(w.c)
		write(w.t)
	case "CanonPrecommit":
		precommit(w.c)
		precommit(w.t)
	case "CanonCommit":
		line["hist"] = deadObs
		if err = commit(w.c, uint64(w.top+1)); err != nil {
			return
		}
		must(commit(w.t, uint64(w.top+1)))
		w.top++
		line["hist"] = historian(w.tdb, w.top)
	case "CanonAddDiff":
		v := w.views[e.X]
		w.midDiff = &state.IdentityStateDiff{}
		for _, t := range []*target{w.c, w.t} {
			for _, d := range v.diffs {
				t.S.AddDiff(d.sd)
				t.I.AddDiff(uint64(w.top+1), d.idd)
			}
		}
		for _, d := range v.diffs {
			mergeDiff(w.midDiff, d.idd)
		}
		w.mid = true
	case "CanonCommitTree":
		line["hist"] = deadObs
		h := uint64(w.top + 1)
		for i, t := range []*target{w.c, w.t} {
			var e2 error
			switch {
			case t.A != nil && w.mid:
				e2 = t.A.CommitTrees(block(h), w.midDiff)
			case t.A != nil:
				e2 = t.A.CommitAt(h)
			case w.mid:
				if _, _, e2 = t.S.CommitTree(int64(h)); e2 == nil {
					_, _, e2 = t.I.CommitTree(int64(h))
				}
			default:
				if _, _, e2 = t.S.SaveForcedVersion(h); e2 == nil {
					e2 = t.I.SaveForcedVersion(h)
				}
			}
			if e2 != nil {
				if i == 0 {
					return e2
				}
				panic(e2)
			}
		}
		w.mid = false
		w.top++
		line["hist"] = historian(w.tdb, w.top)
	case "CanonReset":
		reset(w.c)
		w.t = reopen(w.lvl, w.tdb, uint64(w.top)) // the control never trusts Reset: it is re-opened from its database
		w.mid = false
	case "CanonResetTo":
		if err = resetTo(w.c, uint64(e.H)); err != nil {
			return
		}
		must(resetTo(w.t, uint64(e.H)))
		w.t = reopen(w.lvl, w.tdb, uint64(e.H))
		w.top = e.H
		for x := 1; x <= NV; x++ {
			if v := w.views[x]; v != nil && v.base > e.H {
				w.views[x] = nil // its version was deleted from the canonical database
			}
		}
	case "MakeView":
		var t *target
		if t, err = w.makeView(e.Ctor, uint64(e.H)); err != nil {
			return
		}
		w.views[e.X] = &view{t: t, ctor: e.Ctor, base: e.H}
	case "ViewWrite":
		write(w.views[e.X].t)
	case "ViewPrecommit":
		v := w.views[e.X]
		v.diffs = append(v.diffs, precommit(v.t))
	case "ViewCommit":
		v := w.views[e.X]
		err = commit(v.t, uint64(v.t.S.Version()+1))
		v.diffs = nil
	case "ViewReset":
		v := w.views[e.X]
		reset(v.t)
		v.diffs = nil
	case "DropView":
		w.views[e.X] = nil
	case "NonceTouch":
		if e.X == 0 {
			err = w.nonceTouch(w.c)
		} else {
			err = w.nonceTouch(w.views[e.X].t)
		}
	case "ReadAll":
	default:
		panic("unknown step " + e.Ev)
	}
	return
}

// runCase returns the trace lines of one case (cases are independent worlds and run in parallel)
func runCase(c tcase) (lines [][]byte, stats map[string]int) {
	stats = map[string]int{}
	emit := func(m tr.M) { lines = append(lines, tr.Marshal(m)) }
	w, gen := newWorld(c.Lvl, c.Deep, c.Bind)
	emit(tr.M{"ev": "Reset", "id": c.Id, "lvl": c.Lvl, "deep": c.Deep, "bind": c.Bind, "gen": gen, "obs": w.obs(c.Deep)})
	path := append(append([]step{}, c.Path...), step{Ev: "ReadAll"})
	for i, e := range path {
		line := tr.M{"ev": e.Ev, "x": e.X, "ctor": e.Ctor, "h": e.H, "s": e.S, "v": e.V, "m": "", "k": "", "i": i + 1}
		var perr interface{}
		func() {
			defer func() { perr = recover() }()
			line["err"] = errStr(w.do(e, line))
			line["obs"] = w.obs(c.Deep || e.Ev == "ReadAll")
		}()
		if perr != nil {
			emit(tr.M{"ev": "Panic", "at": e, "m": line["m"], "k": line["k"], "msg": fmt.Sprint(perr)})
			stats["panics"]++
			return
		}
		emit(line)
		if e.Ev == "ViewWrite" {
			stats["vw:"+fmt.Sprint(line["m"])]++
		}
		stats["ev:"+e.Ev]++
	}
	return
}

func main() {
	cases := flag.String("cases", "", "case file (json lines)")
	outp := flag.String("out", "", "trace output")
	list := flag.Bool("list", false, "print the method table")
	par := flag.Int("par", runtime.NumCPU(), "parallel workers")
	flag.BoolVar(&verbose, "verbose", false, "log the raw read-backs too (debugging; not for TLC)")
	prof := flag.String("cpuprofile", "", "write a cpu profile")
	flag.Parse()
	debug.SetGCPercent(400)
	if *prof != "" {
		f, _ := os.Create(*prof)
		pprof.StartCPUProfile(f)
		defer pprof.StopCPUProfile()
	}
	for i := range methods {
		if methodByName[methods[i].Name] != nil {
			panic("duplicate method " + methods[i].Name)
		}
		methodByName[methods[i].Name] = &methods[i]
	}
	if *list {
		b, _ := json.Marshal(methods)
		fmt.Println(string(b))
		return
	}
	var all []tcase
	tr.ReadLines(*cases, func(raw []byte) {
		var c tcase
		if err := json.Unmarshal(raw, &c); err != nil {
			panic(err)
		}
		all = append(all, c)
	})
	genesisFor("app")
	genesisFor("sdb")
	type res struct {
		lines [][]byte
		stats map[string]int
	}
	results := make([]res, len(all))
	var wg sync.WaitGroup
	next := int64(-1)
	for p := 0; p < *par; p++ {
		wg.Add(1)
		go func() {
			defer wg.Done()
			for {
				i := int(atomic.AddInt64(&next, 1))
				if i >= len(all) {
					return
				}
				l, s := runCase(all[i])
				results[i] = res{l, s}
			}
		}()
	}
	wg.Wait()
	out := tr.Create(*outp)
	defer out.Close()
	stats := map[string]int{}
	for _, r := range results {
		for _, l := range r.lines {
			out.EmitRaw(l)
		}
		for k, v := range r.stats {
			stats[k] += v
		}
	}
	out.Flush()
	b, _ := json.Marshal(stats)
	fmt.Fprintf(os.Stderr, "cases=%d lines=%d\n", len(all), out.N)
	fmt.Printf("STATS %s\n", b)
}
