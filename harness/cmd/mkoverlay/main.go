// mkoverlay generates a `go build -overlay` file from /repo's CURRENT working tree:
//
//  1. ipfs/ipfs.go -> a stub generated from the current file: the const/var blocks, init, the
//     Proxy interface, the in-memory proxy and its helpers are copied verbatim, the kubo-backed
//     proxy (which pulls quic-go, unbuildable on this toolchain) is dropped.
//  2. for every file named with -clock: a copy of the current file in which time.Now / time.Since /
//     time.Sleep / time.After / time.NewTimer / time.AfterFunc are redirected to the package
//     github.com/idena-network/idena-go/common/verifclock, which exists only in the overlay.
//
// Nothing under /repo is written. Uses only the standard library.
package main

import (
	"bytes"
	"encoding/json"
	"flag"
	"fmt"
	"go/ast"
	"go/format"
	"go/parser"
	"go/token"
	"os"
	"path/filepath"
	"strings"
)

type multi []string

func (m *multi) String() string     { return strings.Join(*m, ",") }
func (m *multi) Set(s string) error { *m = append(*m, s); return nil }

func main() {
	repo := flag.String("repo", "/repo", "repository root")
	out := flag.String("out", "", "output directory for generated files and overlay.json")
	var clocks multi
	flag.Var(&clocks, "clock", "repo-relative file whose wall-clock reads are redirected (repeatable)")
	flag.Parse()
	if *out == "" {
		fatal("need -out")
	}
	if err := os.MkdirAll(*out, 0o755); err != nil {
		fatal(err.Error())
	}
	replace := map[string]string{}

	stub, err := ipfsStub(filepath.Join(*repo, "ipfs", "ipfs.go"))
	if err != nil {
		fatal("ipfs stub: " + err.Error())
	}
	p := filepath.Join(*out, "ipfs_stub.go")
	must(os.WriteFile(p, stub, 0o644))
	replace[filepath.Join(*repo, "ipfs", "ipfs.go")] = p

	// overlay-only clock package
	cp := filepath.Join(*out, "verifclock.go")
	must(os.WriteFile(cp, []byte(clockSrc), 0o644))
	replace[filepath.Join(*repo, "common", "verifclock", "clock.go")] = cp

	for _, rel := range clocks {
		src := filepath.Join(*repo, rel)
		b, n, err := clockRewrite(src)
		if err != nil {
			fatal("clock rewrite " + rel + ": " + err.Error())
		}
		if n == 0 {
			fatal("clock rewrite " + rel + ": no wall-clock call found (file changed shape?)")
		}
		dst := filepath.Join(*out, "clk_"+strings.ReplaceAll(rel, "/", "_"))
		must(os.WriteFile(dst, b, 0o644))
		replace[src] = dst
	}
	js, _ := json.MarshalIndent(map[string]interface{}{"Replace": replace}, "", " ")
	must(os.WriteFile(filepath.Join(*out, "overlay.json"), js, 0o644))
	fmt.Println(filepath.Join(*out, "overlay.json"))
}

func fatal(s string) { fmt.Fprintln(os.Stderr, "mkoverlay: "+s); os.Exit(2) }
func must(err error) {
	if err != nil {
		fatal(err.Error())
	}
}

// keepDecl decides which top-level declarations of ipfs.go survive in the stub.
func ipfsStub(path string) ([]byte, error) {
	fset := token.NewFileSet()
	f, err := parser.ParseFile(fset, path, nil, parser.ParseComments)
	if err != nil {
		return nil, err
	}
	dropTypes := map[string]bool{"ipfsProxy": true}
	dropFuncs := map[string]bool{"NewIpfsProxy": true, "createNode": true, "configureIpfs": true,
		"writeSwarmKey": true, "getNodeConfig": true, "loadPlugins": true, "configAt": true}
	var decls []ast.Decl
	for _, d := range f.Decls {
		switch x := d.(type) {
		case *ast.GenDecl:
			if x.Tok == token.IMPORT {
				continue
			}
			if x.Tok == token.TYPE {
				var specs []ast.Spec
				for _, s := range x.Specs {
					if !dropTypes[s.(*ast.TypeSpec).Name.Name] {
						specs = append(specs, s)
					}
				}
				if len(specs) == 0 {
					continue
				}
				x.Specs = specs
			}
			decls = append(decls, x)
		case *ast.FuncDecl:
			if x.Recv != nil {
				rt := recvName(x.Recv.List[0].Type)
				if dropTypes[rt] {
					continue
				}
			} else if dropFuncs[x.Name.Name] {
				continue
			}
			decls = append(decls, x)
		}
	}
	// print the kept declarations from the original source text (verbatim)
	src, err := os.ReadFile(path)
	if err != nil {
		return nil, err
	}
	var body bytes.Buffer
	for _, d := range decls {
		start, end := d.Pos(), d.End()
		if fd, ok := d.(*ast.FuncDecl); ok && fd.Doc != nil {
			start = fd.Doc.Pos()
		}
		if gd, ok := d.(*ast.GenDecl); ok && gd.Doc != nil {
			start = gd.Doc.Pos()
		}
		body.Write(src[fset.Position(start).Offset:fset.Position(end).Offset])
		body.WriteString("\n\n")
	}
	body.WriteString(`func NewIpfsProxy(cfg *config.IpfsConfig, bus eventbus.Bus) (Proxy, error) {
	return nil, errors.New("verif overlay: kubo-backed ipfs proxy is not compiled")
}
`)
	// imports: keep every original import whose local name is still referenced
	used := map[string]bool{}
	bodyStr := body.String()
	var imps bytes.Buffer
	for _, im := range f.Imports {
		p := strings.Trim(im.Path.Value, `"`)
		name := filepath.Base(p)
		if im.Name != nil {
			name = im.Name.Name
		} else {
			name = defaultImportName(p)
		}
		if strings.Contains(bodyStr, name+".") && !used[name] {
			used[name] = true
			if im.Name != nil {
				fmt.Fprintf(&imps, "\t%s %s\n", im.Name.Name, im.Path.Value)
			} else {
				fmt.Fprintf(&imps, "\t%s\n", im.Path.Value)
			}
		}
	}
	full := "// Code generated by verif mkoverlay from ipfs/ipfs.go; DO NOT EDIT.\npackage ipfs\n\nimport (\n" + imps.String() + ")\n\n" + bodyStr
	return format.Source([]byte(full))
}

func defaultImportName(p string) string {
	switch p {
	case "github.com/ipfs/go-cid":
		return "cid"
	case "github.com/ipfs/go-ipfs-files":
		return "files"
	case "github.com/multiformats/go-multihash":
		return "multihash"
	case "github.com/patrickmn/go-cache":
		return "cache"
	case "github.com/whyrusleeping/go-logging":
		return "logging"
	case "github.com/ipfs/go-blockservice":
		return "blockservice"
	case "github.com/ipfs/go-mfs":
		return "mfs"
	case "github.com/libp2p/go-libp2p-pubsub":
		return "pubsub"
	}
	return filepath.Base(p)
}

func recvName(e ast.Expr) string {
	switch x := e.(type) {
	case *ast.StarExpr:
		return recvName(x.X)
	case *ast.Ident:
		return x.Name
	}
	return ""
}

var redirected = map[string]bool{"Now": true, "Since": true, "Sleep": true, "After": true,
	"NewTimer": true, "AfterFunc": true, "NewTicker": true, "Tick": true}

func clockRewrite(path string) ([]byte, int, error) {
	fset := token.NewFileSet()
	f, err := parser.ParseFile(fset, path, nil, parser.ParseComments)
	if err != nil {
		return nil, 0, err
	}
	timeName := ""
	for _, im := range f.Imports {
		if im.Path.Value == `"time"` {
			timeName = "time"
			if im.Name != nil {
				timeName = im.Name.Name
			}
		}
	}
	if timeName == "" {
		return nil, 0, fmt.Errorf("file does not import time")
	}
	type edit struct{ off, end int }
	var edits []edit
	ast.Inspect(f, func(n ast.Node) bool {
		se, ok := n.(*ast.SelectorExpr)
		if !ok {
			return true
		}
		id, ok := se.X.(*ast.Ident)
		if !ok || id.Name != timeName || id.Obj != nil || !redirected[se.Sel.Name] {
			return true
		}
		// only Now/Since/Sleep/After are redirected; the others make the rewrite fail loudly so
		// that an unexpected timer in a shimmed file is noticed
		switch se.Sel.Name {
		case "Now", "Since", "Sleep", "After":
			edits = append(edits, edit{fset.Position(id.Pos()).Offset, fset.Position(id.End()).Offset})
		}
		return true
	})
	src, err := os.ReadFile(path)
	if err != nil {
		return nil, 0, err
	}
	var out bytes.Buffer
	last := 0
	for _, e := range edits {
		out.Write(src[last:e.off])
		out.WriteString("verifclock")
		last = e.end
	}
	out.Write(src[last:])
	s := out.String()
	// add the import right after the package clause
	idx := strings.Index(s, "\nimport")
	if idx < 0 {
		return nil, 0, fmt.Errorf("no import clause")
	}
	s = s[:idx] + "\nimport \"github.com/idena-network/idena-go/common/verifclock\"\n" + s[idx:]
	b, err := format.Source([]byte(s))
	if err != nil {
		return nil, 0, err
	}
	// "time" may have become unused
	if !usesPkg(b, timeName) {
		b = bytes.Replace(b, []byte("\n\t\"time\"\n"), []byte("\n"), 1)
	}
	return b, len(edits), nil
}

func usesPkg(src []byte, name string) bool {
	fset := token.NewFileSet()
	f, err := parser.ParseFile(fset, "", src, 0)
	if err != nil {
		return true
	}
	found := false
	ast.Inspect(f, func(n ast.Node) bool {
		if se, ok := n.(*ast.SelectorExpr); ok {
			if id, ok := se.X.(*ast.Ident); ok && id.Name == name && id.Obj == nil {
				found = true
			}
		}
		return true
	})
	return found
}

const clockSrc = `// Package verifclock exists only in the verification build overlay. With no clock installed it is
// the real time package.
package verifclock

import (
	"sync"
	"time"
)

// Clock is the virtual clock interface the harness installs.
type Clock interface {
	Now() time.Time
	Sleep(d time.Duration)
	After(d time.Duration) <-chan time.Time
}

var (
	mu  sync.RWMutex
	clk Clock
)

func Set(c Clock) { mu.Lock(); clk = c; mu.Unlock() }

func get() Clock { mu.RLock(); c := clk; mu.RUnlock(); return c }

func Now() time.Time {
	if c := get(); c != nil {
		return c.Now()
	}
	return time.Now()
}

func Since(t time.Time) time.Duration { return Now().Sub(t) }

func Sleep(d time.Duration) {
	if c := get(); c != nil {
		c.Sleep(d)
		return
	}
	time.Sleep(d)
}

func After(d time.Duration) <-chan time.Time {
	if c := get(); c != nil {
		return c.After(d)
	}
	return time.After(d)
}
`
