// d_lottery runs the REAL flip lottery and key-package code on shard layouts and records what
// happened, one ndjson line per real step, for validation against spec/Trace_Lottery (C16).
//
//	d_lottery -cases <file> -out <trace> [-seeds S] [-qs 8,2] [-random N] [-maxn M] [-workers W]
//
// For every layout exported by TLC (MC_Lottery: n candidates, k[c] flips authored by candidate c):
//   - "pure" runs: ceremony.VerifLottery (an export shim that builds candidatesOfShard from plain data
//     and calls the real GetAuthorsDistribution / GetFlipsDistribution) for every seed x quota,
//     once alone and once together with a second shard in the same call (determinism, shard
//     independence);
//   - a "ceremony" run: a real application state holding the identities and their flips, the real
//     ValidationCeremony.calculateCeremonyCandidates, then for every author the real
//     PrivateEncryptionKeyCandidates + mempool.EncryptPrivateKeysPackage + getEncryptedKeyFromPackage
//     and publication through the real KeysPool, then for every candidate the real
//     GetShort/LongFlipsToSolve, getPrivateKeyPackageIndex, GetFlipKeys and ECIES decryption.
//
// -random N adds N seeded (VERIF_SEED) larger layouts (up to -maxn candidates) built to reach the
// fallback paths: very few authors, exactly 7/8/9 authors (top-up threshold), one flip per author
// (placeholder), everybody an author, two shards.
//
// The driver decides nothing: it only builds inputs, calls the repository's code and logs results.
package main

import (
	"bytes"
	"crypto/ecdsa"
	"crypto/sha256"
	"encoding/binary"
	"encoding/hex"
	"encoding/json"
	"flag"
	"fmt"
	"math/rand"
	"os"
	"runtime"
	"sort"
	"strconv"
	"strings"
	"sync"

	"github.com/idena-network/idena-go/blockchain"
	"github.com/idena-network/idena-go/blockchain/types"
	"github.com/idena-network/idena-go/common"
	"github.com/idena-network/idena-go/common/eventbus"
	"github.com/idena-network/idena-go/config"
	"github.com/idena-network/idena-go/core/appstate"
	"github.com/idena-network/idena-go/core/ceremony"
	"github.com/idena-network/idena-go/core/mempool"
	"github.com/idena-network/idena-go/core/state"
	"github.com/idena-network/idena-go/crypto"
	"github.com/idena-network/idena-go/crypto/ecies"
	"github.com/idena-network/idena-go/secstore"
	dbm "github.com/tendermint/tm-db"

	"verifh/internal/tr"
)

// ---------------------------------------------------------------------------------------------
// identities

type ident struct {
	key      *ecdsa.PrivateKey
	addr     common.Address
	pub      []byte
	dec      *ecies.PrivateKey // the identity's own key as an ECIES key (what SecStore.DecryptMessage uses)
	pubFlip  *ecies.PrivateKey // "public" flip encryption key pair of the identity as an author
	privFlip *ecies.PrivateKey // "private" flip encryption key pair
}

func derive(seed int64, label string, i int) *ecdsa.PrivateKey {
	for n := 0; ; n++ {
		h := sha256.Sum256([]byte(fmt.Sprintf("verif-c16/%d/%s/%d/%d", seed, label, i, n)))
		k, err := crypto.ToECDSA(h[:])
		if err == nil {
			return k
		}
	}
}

// mkPool returns size identities sorted by address (the state iterates identities in key order).
func mkPool(seed int64, size int) []*ident {
	pool := make([]*ident, size)
	var wg sync.WaitGroup
	for i := range pool {
		wg.Add(1)
		go func(i int) {
			defer wg.Done()
			k := derive(seed, "id", i)
			pool[i] = &ident{
				key:      k,
				addr:     crypto.PubkeyToAddress(k.PublicKey),
				pub:      crypto.FromECDSAPub(&k.PublicKey),
				dec:      ecies.ImportECDSA(k),
				pubFlip:  ecies.ImportECDSA(derive(seed, "pubflip", i)),
				privFlip: ecies.ImportECDSA(derive(seed, "privflip", i)),
			}
		}(i)
	}
	wg.Wait()
	sort.Slice(pool, func(a, b int) bool { return bytes.Compare(pool[a].addr[:], pool[b].addr[:]) < 0 })
	return pool
}

func cidOf(poolIdx, j int) []byte {
	c := make([]byte, 36)
	copy(c, []byte{0x01, 0x55, 0x12, 0x20})
	binary.BigEndian.PutUint32(c[4:], uint32(poolIdx))
	c[8] = byte(j)
	h := sha256.Sum256(c[:9])
	copy(c[9:], h[:27])
	return c
}

// shardSpec is the ground truth of one shard: which pool identities are its candidates (ascending
// pool index = ascending address) and how many flips each authored.
type shardSpec struct {
	ids []int
	k   []int
	kl  []int // per candidate: 0 = the state holds its public key, 1 = no public key, 2 = malformed bytes (nil: all 0)
}

func (s *shardSpec) klOf(c int) int {
	if s.kl == nil {
		return 0
	}
	return s.kl[c]
}

// malformedKey returns bytes that are not a public key, different for every identity: a 65-byte
// uncompressed-looking point that is not on the curve, or a short junk string.
func malformedKey(id int) []byte {
	h := sha256.Sum256([]byte(fmt.Sprintf("verif-c16/malformed/%d", id)))
	if id%2 == 0 {
		b := make([]byte, 65)
		b[0] = 0x04
		copy(b[1:], h[:])
		copy(b[33:], h[:])
		return b
	}
	return append([]byte{0x02, 0xff}, h[:18]...)
}

// statePubKey is what the identity's PubKey field in the state holds.
func statePubKey(pool []*ident, id int, kl int) []byte {
	switch kl {
	case 1:
		return nil
	case 2:
		return malformedKey(id)
	}
	return pool[id].pub
}

func (s *shardSpec) candidates(pool []*ident) []ceremony.VerifCandidate {
	res := make([]ceremony.VerifCandidate, len(s.ids))
	for c, id := range s.ids {
		res[c] = ceremony.VerifCandidate{Address: pool[id].addr, PubKey: statePubKey(pool, id, s.klOf(c))}
		for j := 0; j < s.k[c]; j++ {
			res[c].Flips = append(res[c].Flips, cidOf(id, j))
		}
	}
	return res
}

// ---------------------------------------------------------------------------------------------
// trace records

type layJ struct {
	N   int     `json:"n"`
	K   []int   `json:"k"`
	Fo  [][]int `json:"fo"`
	Fa  []int   `json:"fa"`
	Kl  []int   `json:"kl"`
	Tag string  `json:"tag"`
}

type seenJ struct {
	N    int     `json:"n"`
	Auth []bool  `json:"auth"`
	Fpa  [][]int `json:"fpa"`
	Fam  []int   `json:"fam"`
	Kl   []int   `json:"kl"`
	Cids bool    `json:"cids"`
}

type outJ struct {
	Apc   [][]int `json:"apc"`
	Cpa   [][]int `json:"cpa"`
	Short [][]int `json:"short"`
	Long  [][]int `json:"long"`
}

func nn(a []int) []int {
	if a == nil {
		return []int{}
	}
	return a
}

func lists(m map[int][]int, n int) [][]int {
	res := make([][]int, n)
	for c := 0; c < n; c++ {
		res[c] = nn(m[c])
	}
	// entries keyed outside 0..n-1 cannot be represented positionally: append them to make the shape wrong
	for k, v := range m {
		if k < 0 || k >= n {
			res = append(res, nn(v))
		}
	}
	return res
}

func lists2(l [][]int) [][]int {
	res := make([][]int, len(l))
	for i := range l {
		res[i] = nn(l[i])
	}
	return res
}

// evaluateEvent describes one lottery run of one shard: ground-truth layout (in the candidate order
// the code used), the layout as the code's own structures describe it, and the outputs.
func evaluateEvent(src string, pool []*ident, truth *shardSpec, res *ceremony.VerifShardResult, q int, seed []byte) (tr.M, []int) {
	byAddr := map[common.Address]int{}
	for c, id := range truth.ids {
		byAddr[pool[id].addr] = c
	}
	// candidate order: the code's, if it is a permutation of the true candidate set
	order := make([]int, 0, len(truth.ids)) // position -> index into truth
	used := map[int]bool{}
	perm := len(res.Addresses) == len(truth.ids)
	for _, a := range res.Addresses {
		c, ok := byAddr[a]
		if !ok || used[c] {
			perm = false
			break
		}
		used[c] = true
		order = append(order, c)
	}
	if !perm {
		order = order[:0]
		for c := range truth.ids {
			order = append(order, c)
		}
	}
	n := len(order)
	// flip numbering: the code's own flip list, if it is exactly the set of flips of the candidates;
	// otherwise candidate order (and seen.cids = false)
	type tf struct{ c, j int }
	trueFlip := map[string]tf{}
	total := 0
	for c, t := range order {
		for j := 0; j < truth.k[t]; j++ {
			trueFlip[string(cidOf(truth.ids[t], j))] = tf{c, j}
			total++
		}
	}
	exact := len(res.Flips) == total
	seenCid := map[string]bool{}
	for _, cid := range res.Flips {
		if _, ok := trueFlip[string(cid)]; !ok || seenCid[string(cid)] {
			exact = false
		}
		seenCid[string(cid)] = true
	}
	lay := layJ{N: n, K: make([]int, n), Fo: make([][]int, n), Fa: []int{}, Kl: make([]int, n)}
	h := sha256.New()
	for c, t := range order {
		lay.K[c] = truth.k[t]
		lay.Kl[c] = truth.klOf(t)
		lay.Fo[c] = []int{}
		h.Write(pool[truth.ids[t]].addr[:])
		for j := 0; j < truth.k[t]; j++ {
			h.Write(cidOf(truth.ids[t], j))
		}
	}
	if exact {
		for f, cid := range res.Flips {
			a := trueFlip[string(cid)].c
			lay.Fa = append(lay.Fa, a)
			lay.Fo[a] = append(lay.Fo[a], f)
		}
	} else {
		for c, t := range order {
			for j := 0; j < truth.k[t]; j++ {
				lay.Fo[c] = append(lay.Fo[c], len(lay.Fa))
				lay.Fa = append(lay.Fa, c)
			}
		}
	}
	lay.Tag = hex.EncodeToString(h.Sum(nil)[:8])

	pos := map[common.Address]int{}
	for c, a := range res.Addresses {
		pos[a] = c
	}
	flipPos := map[string]int{}
	for f, cid := range res.Flips {
		flipPos[string(cid)] = f
	}
	seen := seenJ{N: len(res.Addresses), Auth: append([]bool{}, res.IsAuthor...), Fpa: make([][]int, len(res.Addresses)), Fam: []int{}, Kl: make([]int, len(res.Addresses)), Cids: exact}
	for c, a := range res.Addresses {
		// what the candidate's PubKey field holds
		seen.Kl[c] = 3
		if t, ok := byAddr[a]; ok && c < len(res.PubKeys) {
			id := truth.ids[t]
			switch {
			case len(res.PubKeys[c]) == 0:
				seen.Kl[c] = 1
			case bytes.Equal(res.PubKeys[c], pool[id].pub):
				seen.Kl[c] = 0
			case bytes.Equal(res.PubKeys[c], malformedKey(id)):
				seen.Kl[c] = 2
			}
		}
	}
	for c := range res.Addresses {
		seen.Fpa[c] = []int{}
		for _, cid := range res.FlipsPerAuthor[c] {
			f, ok := flipPos[string(cid)]
			if !ok {
				f = -1
			}
			seen.Fpa[c] = append(seen.Fpa[c], f)
		}
	}
	for _, cid := range res.Flips {
		a, ok := res.FlipAuthor[string(cid)]
		p, ok2 := pos[a]
		if !ok || !ok2 {
			p = -1
		}
		seen.Fam = append(seen.Fam, p)
	}
	nOut := len(res.Short)
	if len(res.Addresses) > nOut {
		nOut = len(res.Addresses)
	}
	out := outJ{Apc: lists(res.AuthorsPerCandidate, nOut), Cpa: lists(res.CandidatesPerAuthor, nOut), Short: lists2(res.Short), Long: lists2(res.Long)}
	return tr.M{"ev": "Evaluate", "src": src, "lay": lay, "seen": seen, "q": q, "seed": hex.EncodeToString(seed), "out": out}, order
}

// ---------------------------------------------------------------------------------------------
// pure runs

func runPure(pool []*ident, truth *shardSpec, other *shardSpec, seed []byte, q int) *ceremony.VerifShardResult {
	in := map[common.ShardId][]ceremony.VerifCandidate{1: truth.candidates(pool)}
	if other != nil {
		in[2] = other.candidates(pool)
	}
	return ceremony.VerifLottery(in, seed, q)[1]
}

// ---------------------------------------------------------------------------------------------
// ceremony runs

type syncing struct{}

func (syncing) IsSyncing() bool { return true }

type env struct {
	secStore *secstore.SecStore
	cfg      *config.Config
	quota    int
}

// extra identities that must NOT take part: wrong state, or required flips not done
type extra struct {
	id       int
	st       state.IdentityState
	flips    int
	required uint8
	shard    common.ShardId
}

var candStates = []state.IdentityState{state.Candidate, state.Newbie, state.Verified, state.Human, state.Suspended, state.Zombie}
var authorStates = []state.IdentityState{state.Newbie, state.Verified, state.Human}

func runCeremony(e *env, w *lineBuf, pool []*ident, shards map[common.ShardId]*shardSpec, extras []extra, seed []byte, rnd *rand.Rand, sampleCands, sampleFlips int) {
	db := dbm.NewMemDB()
	bus := eventbus.New()
	appState, err := appstate.NewAppState(db, bus)
	if err != nil {
		panic(err)
	}
	if err := appState.Initialize(0); err != nil {
		panic(err)
	}
	st := appState.State
	if len(shards) > 1 {
		st.SetShardsNum(uint32(len(shards)))
	}
	for shardId, spec := range shards {
		for c, id := range spec.ids {
			p := pool[id]
			if spec.k[c] > 0 {
				st.SetState(p.addr, authorStates[(id+spec.k[c])%len(authorStates)])
			} else {
				st.SetState(p.addr, candStates[id%len(candStates)])
			}
			if pk := statePubKey(pool, id, spec.klOf(c)); pk != nil {
				st.SetPubKey(p.addr, pk)
			}
			if len(shards) > 1 || id%2 == 1 {
				st.SetShardId(p.addr, shardId) // shard id 0 (unset) counts as shard 1
			}
			for j := 0; j < spec.k[c]; j++ {
				st.AddFlip(p.addr, cidOf(id, j), uint8(j))
			}
			if spec.k[c] > 0 {
				st.SetRequiredFlips(p.addr, uint8(spec.k[c]-id%2))
			}
		}
	}
	for _, x := range extras {
		p := pool[x.id]
		st.SetState(p.addr, x.st)
		st.SetPubKey(p.addr, p.pub)
		st.SetShardId(p.addr, x.shard)
		for j := 0; j < x.flips; j++ {
			st.AddFlip(p.addr, cidOf(x.id, j), uint8(j))
		}
		st.SetRequiredFlips(p.addr, x.required)
	}
	if err := appState.Commit(nil); err != nil {
		panic(err)
	}
	head := &types.Header{ProposedHeader: &types.ProposedHeader{Height: 1, Time: 0}}
	chain := blockchain.NewBlockchain(e.cfg, db, nil, appState, nil, e.secStore, bus, nil, nil, nil, nil)
	chain.Head = head
	keysPool := mempool.NewKeysPool(db, appState, bus, e.secStore)
	keysPool.VerifPrepare(head)
	vc := ceremony.NewValidationCeremony(appState, bus, nil, e.secStore, db, nil, chain, syncing{}, keysPool, e.cfg)
	vc.VerifRunLottery(db, seed)
	results := vc.VerifShards()
	epoch := st.Epoch()

	shardIds := make([]int, 0, len(shards))
	for id := range shards {
		shardIds = append(shardIds, int(id))
	}
	sort.Ints(shardIds)
	for _, sid := range shardIds {
		shardId := common.ShardId(sid)
		truth := shards[shardId]
		res := results[shardId]
		if res == nil {
			res = &ceremony.VerifShardResult{}
		}
		ev, order := evaluateEvent("ceremony", pool, truth, res, e.quota, seed)
		w.emit(ev)
		lay := ev["lay"].(layJ)
		n := len(order)
		if len(res.Addresses) != n {
			continue // the code lost or invented candidates: LayoutSeen reports it, nothing to bind further
		}
		who := func(c int) *ident { return pool[truth.ids[order[c]]] }
		pubIdx := map[string]int{} // public key bytes handed to the packager -> candidate (-2: a candidate without any key)
		for c := 0; c < n; c++ {
			switch kl := truth.klOf(order[c]); kl {
			case 1:
				pubIdx[""] = -2
			default:
				pubIdx[string(statePubKey(pool, truth.ids[order[c]], kl))] = c
			}
		}
		nf := len(res.Flips)
		if len(lay.Fa) != nf || !ev["seen"].(seenJ).Cids {
			continue // the code's flip list is not the set of existing flips: LayoutSeen reports it
		}
		flipAuthor := lay.Fa // ground truth, in the code's flip numbering

		// which candidates solve, which flips they try, which authors must publish
		solvers := rnd.Perm(n)
		if sampleCands > 0 && len(solvers) > sampleCands {
			solvers = solvers[:sampleCands]
			if n > 0 {
				solvers[0] = 0 // always include candidate 0 (the node's own identity when it is a candidate)
			}
			// a key-less candidate, and a candidate listed AFTER a key-less one in some author's recipient list
			keylessAt := func(c int) bool { return c >= 0 && c < n && truth.klOf(order[c]) != 0 }
			found := false
			for a := 0; a < n && !found; a++ {
				list := res.CandidatesPerAuthor[a]
				for i, c := range list {
					if !keylessAt(c) {
						continue
					}
					for _, d := range list[i+1:] {
						if d >= 0 && d < n && !keylessAt(d) {
							solvers = append(solvers, c, d)
							found = true
							break
						}
					}
					if found {
						break
					}
				}
			}
			uniq := map[int]bool{}
			var us []int
			for _, c := range solvers {
				if !uniq[c] {
					uniq[c] = true
					us = append(us, c)
				}
			}
			solvers = us
		}
		sort.Ints(solvers)
		tryFlips := map[int][]int{}
		needAuthor := map[int]bool{}
		for _, c := range solvers {
			set := map[int]bool{}
			if c < len(res.Short) {
				for _, f := range res.Short[c] {
					set[f] = true
				}
			}
			if c < len(res.Long) {
				for _, f := range res.Long[c] {
					set[f] = true
				}
			}
			if sampleFlips <= 0 || nf <= sampleFlips {
				for f := 0; f < nf; f++ {
					set[f] = true
				}
			} else {
				for i := 0; i < sampleFlips; i++ {
					set[rnd.Intn(nf)] = true
				}
			}
			var fl []int
			for f := range set {
				if f >= 0 && f < nf {
					fl = append(fl, f)
					needAuthor[flipAuthor[f]] = true
				}
			}
			sort.Ints(fl)
			tryFlips[c] = fl
		}
		packagers := []int{}
		if sampleCands <= 0 {
			for c := 0; c < n; c++ {
				packagers = append(packagers, c)
			}
		} else {
			for a := range needAuthor {
				packagers = append(packagers, a)
			}
			sort.Ints(packagers)
			// plus one non-author, if any
			for c := 0; c < n; c++ {
				if truth.k[order[c]] == 0 {
					packagers = append(packagers, c)
					break
				}
			}
		}

		// authors build and publish their packages
		recipsOf := map[int][]int{}
		pkgData := map[int][]byte{}
		entries := map[int][][]byte{} // author -> entries extracted from its package (filled on demand)
		for _, a := range packagers {
			au := who(a)
			pubKeys, err := vc.PrivateEncryptionKeyCandidates(au.addr)
			has := err == nil
			recips := []int{}
			ext := []tr.M{}
			if has {
				for _, pk := range pubKeys {
					c, ok := pubIdx[string(pk)]
					if !ok {
						c = -1
					}
					recips = append(recips, c)
				}
				data := mempool.EncryptPrivateKeysPackage(au.pubFlip, au.privFlip, pubKeys)
				want := crypto.FromECDSA(au.privFlip.ExportECDSA())
				idxs := map[int]bool{0: true, len(pubKeys) / 2: true, len(pubKeys) - 1: true, len(pubKeys): true}
				// every key-less position and the entry right after it (alignment of the later recipients)
				for i, extra := 0, 0; i < len(recips) && extra < 16; i++ {
					if recips[i] == -2 || (recips[i] >= 0 && truth.klOf(order[recips[i]]) != 0) {
						idxs[i], idxs[i+1] = true, true
						extra++
					}
				}
				if sampleCands <= 0 && len(pubKeys) <= 16 {
					for i := range pubKeys {
						idxs[i] = true
					}
				}
				var il []int
				for i := range idxs {
					if i >= 0 {
						il = append(il, i)
					}
				}
				sort.Ints(il)
				for _, idx := range il {
					enc, err := mempool.VerifGetEncryptedKeyFromPackage(au.pubFlip, data, idx)
					if err != nil {
						ext = append(ext, tr.M{"idx": idx, "who": -1, "res": "err"})
						continue
					}
					cands := []int{}
					if idx < len(recips) && recips[idx] >= 0 {
						cands = append(cands, recips[idx])
						if n > 1 {
							cands = append(cands, (recips[idx]+1+rnd.Intn(n-1))%n)
						}
					} else if n > 0 {
						cands = append(cands, rnd.Intn(n))
					}
					for _, c := range cands {
						r := "fail"
						if dec, err := who(c).dec.Decrypt(enc, nil, nil); err == nil && bytes.Equal(dec, want) {
							r = "ok"
						}
						ext = append(ext, tr.M{"idx": idx, "who": c, "res": r})
					}
				}
				// publication, as broadcastPublicFipKey / broadcastPrivateFlipKeysPackage do it
				pubMsg, err := types.SignFlipKey(&types.PublicFlipKey{Key: crypto.FromECDSA(au.pubFlip.ExportECDSA()), Epoch: epoch}, au.key)
				if err != nil {
					panic(err)
				}
				pkgMsg, err := types.SignFlipKeysPackage(&types.PrivateFlipKeysPackage{Data: data, Epoch: epoch}, au.key)
				if err != nil {
					panic(err)
				}
				e1 := keysPool.AddPublicFlipKey(pubMsg, false)
				e2 := keysPool.AddPrivateKeysPackage(pkgMsg, false)
				m := tr.M{"ev": "Package", "a": a, "has": has, "recips": recips, "ext": ext, "size": len(data), "pub": e1 == nil && e2 == nil}
				if e1 != nil || e2 != nil {
					m["pub_err"] = fmt.Sprint(e1, " / ", e2)
				}
				recipsOf[a] = recips
				pkgData[a] = data
				w.emit(m)
				continue
			}
			w.emit(tr.M{"ev": "Package", "a": a, "has": has, "recips": recips, "ext": ext, "size": 0, "pub": false, "err": err.Error()})
		}

		// candidates fetch their flips and the keys
		cidIdx := map[string]int{}
		for f, cid := range res.Flips {
			cidIdx[string(cid)] = f
		}
		decode := func(cids [][]byte) []int {
			r := []int{}
			for _, c := range cids {
				f, ok := cidIdx[string(c)]
				if !ok {
					f = -1
				}
				r = append(r, f)
			}
			return r
		}
		for _, c := range solvers {
			me := who(c)
			ss := decode(vc.GetShortFlipsToSolve(me.addr, shardId))
			sl := decode(vc.GetLongFlipsToSolve(me.addr, shardId))
			tries := []tr.M{}
			decCache := map[string][]byte{}
			leakAt := map[int]int{} // author -> entry of its package that c can decrypt although GetFlipKeys gave nothing (-1: none)
			for _, f := range tryFlips[c] {
				a := flipAuthor[f]
				au := who(a)
				idx := vc.VerifPackageIndex(me.addr, au.addr)
				at := -1
				if idx >= 0 && idx < len(recipsOf[a]) {
					at = recipsOf[a][idx]
				}
				want := crypto.FromECDSA(au.privFlip.ExportECDSA())
				r := "nokey"
				t := tr.M{"f": f, "idx": idx, "at": at}
				pub, enc, err := vc.GetFlipKeys(me.addr, res.Flips[f])
				if err != nil {
					t["err"] = err.Error()
				} else {
					// the same ciphertext comes back for every flip of the author: decrypt it once
					dec, done := decCache[string(enc)]
					if !done {
						if d, err := me.dec.Decrypt(enc, nil, nil); err == nil {
							dec = d
						}
						decCache[string(enc)] = dec
					}
					if dec != nil && bytes.Equal(dec, want) && bytes.Equal(pub, crypto.FromECDSA(au.pubFlip.ExportECDSA())) {
						r = "ok"
					} else {
						r = "fail"
					}
				}
				if r != "ok" {
					// whatever the index says: can c get the key out of ANY entry of the package?
					// (once per author: the answer does not depend on the flip)
					la, seenA := leakAt[a]
					if !seenA {
						la = -1
						if data, ok := pkgData[a]; ok {
							ents, okE := entries[a]
							if !okE {
								for i := 0; i < len(recipsOf[a]); i++ {
									enc, err := mempool.VerifGetEncryptedKeyFromPackage(au.pubFlip, data, i)
									if err != nil {
										break
									}
									ents = append(ents, enc)
								}
								entries[a] = ents
							}
							for i, enc := range ents {
								if len(enc) == 0 {
									continue
								}
								if dec, err := me.dec.Decrypt(enc, nil, nil); err == nil && bytes.Equal(dec, want) {
									la = i
									break
								}
							}
						}
						leakAt[a] = la
					}
					if la >= 0 {
						t["leak_at"] = la
						if idx == -1 {
							r = "ok"
						}
					}
				}
				t["res"] = r
				tries = append(tries, t)
			}
			w.emit(tr.M{"ev": "Solve", "c": c, "ss": ss, "sl": sl, "tries": tries})
		}
	}
}

// ---------------------------------------------------------------------------------------------
// output buffers (groups are produced in parallel and written in order)

type lineBuf struct {
	buf bytes.Buffer
	n   int
}

func (b *lineBuf) emit(m interface{}) {
	j, err := json.Marshal(m)
	if err != nil {
		panic(err)
	}
	b.buf.Write(j)
	b.buf.WriteByte('\n')
	b.n++
}

// safe runs f; a panic inside the repository's code becomes a trace event (the specification has no
// action for it), a panic of the harness itself a "HarnessPanic" line (the check then fails as broken).
func safe(w *lineBuf, where string, info interface{}, f func()) {
	defer func() {
		if r := recover(); r != nil {
			pcs := make([]uintptr, 64)
			n := runtime.Callers(2, pcs)
			frames := runtime.CallersFrames(pcs[:n])
			var stack []string
			ev := "HarnessPanic"
			decided := false
			for {
				fr, more := frames.Next()
				fn := fr.Function
				if !strings.HasPrefix(fn, "runtime.") && !decided {
					decided = true
					if strings.HasPrefix(fn, "github.com/idena-network/idena-go/") {
						ev = "Panic"
					}
				}
				if len(stack) < 12 && !strings.HasPrefix(fn, "runtime.") {
					stack = append(stack, fmt.Sprintf("%s:%d", fn, fr.Line))
				}
				if !more {
					break
				}
			}
			w.emit(tr.M{"ev": ev, "where": where, "input": info, "msg": fmt.Sprint(r), "stack": stack})
		}
	}()
	f()
}

type caseIn struct {
	N   int     `json:"n"`
	K   []int   `json:"k"`
	Kls [][]int `json:"kls"` // key-less assignments of the layout (per candidate 0 / 1 no key / 2 malformed key)
}

func seedBytes(rnd *rand.Rand, i int) []byte {
	s := make([]byte, 32)
	switch i {
	case -1:
		// all zero
	case -2:
		for j := range s {
			s[j] = 0xff
		}
	default:
		rnd.Read(s)
	}
	return s
}

func main() {
	casesPath := flag.String("cases", "", "layouts exported by TLC (one JSON object per line)")
	outPath := flag.String("out", "trace.ndjson", "trace file")
	nSeeds := flag.Int("seeds", 2, "lottery seeds per layout")
	qsFlag := flag.String("qs", "", "quotas for the pure runs (the production quota is always included)")
	nRandom := flag.Int("random", 0, "number of seeded larger layouts")
	maxN := flag.Int("maxn", 300, "largest candidate count of the random layouts")
	cerEvery := flag.Int("cerevery", 1, "ceremony-level run for every k-th small layout")
	workers := flag.Int("workers", 8, "parallel groups")
	flag.Parse()

	vseed := tr.Seed()
	quota := int(common.ShortSessionFlipsCount() + common.ShortSessionExtraFlipsCount())
	qs := []int{quota}
	for _, s := range strings.Split(*qsFlag, ",") {
		if s = strings.TrimSpace(s); s != "" {
			q, err := strconv.Atoi(s)
			if err != nil || q < 1 {
				panic("bad -qs")
			}
			if q != quota {
				qs = append(qs, q)
			}
		}
	}

	poolSize := 24
	if *nRandom > 0 && *maxN+8 > poolSize {
		poolSize = *maxN + 8
	}
	pool := mkPool(vseed, poolSize)
	ss := secstore.NewSecStore()
	ss.AddKey(crypto.FromECDSA(pool[0].key))
	e := &env{secStore: ss, quota: quota, cfg: &config.Config{
		Network:     0x99,
		Consensus:   config.GetDefaultConsensusConfig(),
		Validation:  &config.ValidationConfig{},
		Blockchain:  &config.BlockchainConfig{},
		GenesisConf: &config.GenesisConf{},
	}}

	// the second shard of the "together" runs: 9 candidates, 8 authors (top-up path)
	other := &shardSpec{}
	for i := 0; i < 9; i++ {
		other.ids = append(other.ids, 10+i)
		other.k = append(other.k, []int{1, 2, 0, 3, 1, 1, 2, 1, 1}[i])
	}

	type job func(w *lineBuf)
	var jobs []job

	if *casesPath != "" {
		idx := 0
		tr.ReadLines(*casesPath, func(raw []byte) {
			var c caseIn
			if err := json.Unmarshal(raw, &c); err != nil {
				panic(err)
			}
			if len(c.K) != c.N {
				panic("bad case")
			}
			ci := idx
			idx++
			jobs = append(jobs, func(w *lineBuf) {
				rnd := rand.New(rand.NewSource(vseed*1000003 + int64(ci)))
				truth := &shardSpec{k: c.K}
				for i := 0; i < c.N; i++ {
					truth.ids = append(truth.ids, i)
				}
				w.emit(tr.M{"ev": "Reset", "case": ci})
				var seeds [][]byte
				for s := 0; s < *nSeeds; s++ {
					sp := s
					if ci%7 == 0 && s == 0 {
						sp = -1
					}
					if ci%11 == 0 && s == 1 {
						sp = -2
					}
					seeds = append(seeds, seedBytes(rnd, sp))
				}
				for _, sd := range seeds {
					for _, q := range qs {
						sd, q := sd, q
						safe(w, "pure", tr.M{"k": c.K, "q": q, "seed": hex.EncodeToString(sd)}, func() {
							ev, _ := evaluateEvent("pure", pool, truth, runPure(pool, truth, nil, sd, q), q, sd)
							w.emit(ev)
						})
					}
				}
				if *cerEvery > 0 && ci%*cerEvery == 0 {
					var extras []extra
					switch ci % 4 {
					case 1:
						extras = []extra{{id: 20, st: state.Killed}, {id: 19, st: state.Invite}}
					case 2:
						extras = []extra{{id: 22, st: state.Newbie, flips: 1, required: 3}} // required flips not done: no candidate, flips unused
					case 3:
						extras = []extra{{id: 23, st: state.Undefined}, {id: 21, st: state.Verified, flips: 2, required: 3}}
					}
					safe(w, "ceremony", tr.M{"k": c.K, "q": quota, "seed": hex.EncodeToString(seeds[0])}, func() {
						runCeremony(e, w, pool, map[common.ShardId]*shardSpec{1: truth}, extras, seeds[0], rnd, 0, 0)
					})
				}
				// key-less candidates: the same layout with candidates whose state record has no usable public key
				for _, kl := range c.Kls {
					if len(kl) != c.N {
						panic("bad key-less assignment")
					}
					tk := &shardSpec{ids: truth.ids, k: truth.k, kl: kl}
					safe(w, "pure", tr.M{"k": c.K, "kl": kl, "q": quota, "seed": hex.EncodeToString(seeds[0])}, func() {
						ev, _ := evaluateEvent("pure", pool, tk, runPure(pool, tk, nil, seeds[0], quota), quota, seeds[0])
						w.emit(ev)
					})
					safe(w, "ceremony", tr.M{"k": c.K, "kl": kl, "q": quota, "seed": hex.EncodeToString(seeds[0])}, func() {
						runCeremony(e, w, pool, map[common.ShardId]*shardSpec{1: tk}, nil, seeds[0], rnd, 0, 0)
					})
				}
				// second run of every (seed, quota), in reverse order and inside a two-shard call
				for i := len(seeds) - 1; i >= 0; i-- {
					for j := len(qs) - 1; j >= 0; j-- {
						i, j := i, j
						safe(w, "pure2", tr.M{"k": c.K, "q": qs[j], "seed": hex.EncodeToString(seeds[i])}, func() {
							ev, _ := evaluateEvent("pure2", pool, truth, runPure(pool, truth, other, seeds[i], qs[j]), qs[j], seeds[i])
							w.emit(ev)
						})
					}
				}
			})
		})
	}

	for r := 0; r < *nRandom; r++ {
		ri := r
		jobs = append(jobs, func(w *lineBuf) {
			rnd := rand.New(rand.NewSource(vseed*7919 + int64(ri)*104729 + 17))
			n := 7 + rnd.Intn(*maxN-6)
			if ri%5 == 4 {
				n = 7 + rnd.Intn(30)
			}
			if ri == 0 {
				n = *maxN
			}
			var authors int
			maxK := 1 + rnd.Intn(5)
			switch ri % 10 {
			case 0:
				authors = 1 + rnd.Intn(3) // very few authors
			case 1:
				authors = 7
			case 2:
				authors = 8
			case 3:
				authors = 9
			case 4:
				authors = n // everybody
			case 5:
				authors = 8 + rnd.Intn(6)
				maxK = 1 // one flip each: placeholder territory
			case 6:
				authors = n / 2
				maxK = 1
			case 7:
				authors = 1 + rnd.Intn(n)
			case 8:
				authors = 0
			default:
				authors = 1 + rnd.Intn(1+n/4)
			}
			if authors > n {
				authors = n
			}
			twoShards := ri%3 == 1
			ids := rnd.Perm(poolSize)[:n]
			sort.Ints(ids)
			isAuthor := map[int]bool{}
			for _, i := range rnd.Perm(n)[:authors] {
				isAuthor[i] = true
			}
			specs := map[common.ShardId]*shardSpec{1: {}}
			if twoShards {
				specs[2] = &shardSpec{}
			}
			for i, id := range ids {
				sid := common.ShardId(1)
				if twoShards && rnd.Intn(3) == 0 {
					sid = 2
				}
				k := 0
				if isAuthor[i] {
					k = 1 + rnd.Intn(maxK)
				}
				specs[sid].ids = append(specs[sid].ids, id)
				specs[sid].k = append(specs[sid].k, k)
				kl := 0
				if ri%2 == 0 && rnd.Intn(20) == 0 {
					kl = 1 + rnd.Intn(2) // a few candidates without a usable public key
				}
				specs[sid].kl = append(specs[sid].kl, kl)
			}
			sd := seedBytes(rnd, 0)
			w.emit(tr.M{"ev": "Reset", "random": ri, "n": n, "authors": authors, "shards": len(specs)})
			for sid := common.ShardId(1); int(sid) <= len(specs); sid++ {
				sid := sid
				safe(w, "pure", tr.M{"k": specs[sid].k, "q": qs[0], "seed": hex.EncodeToString(sd)}, func() {
					ev, _ := evaluateEvent("pure", pool, specs[sid], runPure(pool, specs[sid], nil, sd, qs[0]), qs[0], sd)
					w.emit(ev)
				})
			}
			safe(w, "ceremony", tr.M{"k1": specs[1].k, "shards": len(specs), "q": quota, "seed": hex.EncodeToString(sd)}, func() { runCeremony(e, w, pool, specs, nil, sd, rnd, 4, 12) })
			for sid := common.ShardId(1); int(sid) <= len(specs); sid++ {
				sid := sid
				safe(w, "pure2", tr.M{"k": specs[sid].k, "q": qs[0], "seed": hex.EncodeToString(sd)}, func() {
					ev, _ := evaluateEvent("pure2", pool, specs[sid], runPure(pool, specs[sid], other, sd, qs[0]), qs[0], sd)
					w.emit(ev)
				})
			}
		})
	}

	bufs := make([]*lineBuf, len(jobs))
	var wg sync.WaitGroup
	sem := make(chan struct{}, *workers)
	for i := range jobs {
		wg.Add(1)
		sem <- struct{}{}
		go func(i int) {
			defer wg.Done()
			defer func() { <-sem }()
			b := &lineBuf{}
			jobs[i](b)
			bufs[i] = b
		}(i)
	}
	wg.Wait()
	f, err := os.Create(*outPath)
	if err != nil {
		panic(err)
	}
	lines := 0
	for _, b := range bufs {
		f.Write(b.buf.Bytes())
		lines += b.n
	}
	f.Close()
	fmt.Printf("d_lottery: %d groups, %d trace lines, quota %d, quotas %v\n", len(jobs), lines, quota, qs)
}
