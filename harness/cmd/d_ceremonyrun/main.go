// d_ceremonyrun scripts whole validation ceremonies on REAL nodes (Blockchain + AppState + TxPool + KeysPool +
// Flipper + ValidationCeremony, constructed and initialised in the order node.go uses) and replays, per node,
// a behaviour exported by TLC from spec/CeremonyRun.tla: which blocks it adds when, where it restarts, which
// proposals for the epoch height it evaluates before inserting the epoch block, whether it switches forks or has
// to roll the epoch block back, whether it is up during the ceremony or learns the blocks days later.
//
// What is real: every block is validated and inserted by the real ValidateBlock / AddBlock; ceremony
// transactions reach the ceremony through the real AddBlock event (processCeremonyTxs, addAnswers, the epoch
// database), persist / restore run on the node's own database across restarts (a restart = new node objects
// over the same database), the flip lottery, qualifyFlips / qualifyCandidate / reporters, the evidence-map
// approval, ApplyNewEpoch (first evaluation and the per-height cache), applyOnState, rewards and the rest of
// applyNewEpoch; fork switches and rollbacks go through the real ResetTo (BlockchainResetEvent).  Nodes that are
// up during the ceremony hear of the ceremony transactions through their real mempool first (NewTxEvent: the
// evidence map's and the ceremony's node-local observations), nodes that synchronise later do not.
//
// What is bypassed (and how): the transactions are not produced by the RPC entry points SubmitShortAnswers /
// SubmitLongAnswers / broadcastEvidenceMap of the participants' own nodes; the harness signs them with the
// participants' keys, with payloads built by the repository's attachment encoders (short answers + words rnd,
// long answers + VRF proof over the flip words seed + salt, answers hash = hash(short answers ++ salt),
// evidence bitmap over the lottery's candidate order read through the verif shim VerifCandidates).  Flips are
// IpfsFlip records with dummy pictures, put straight into every node's (in-memory) ipfs store instead of being
// gossiped; flip key packages and their gossip are not produced, answers are bit strings over the lottery's flip
// lists (GetShortFlipsToSolve / GetLongFlipsToSolve), the "right" answer of a flip is a function of its content.
// Blocks are assembled by the proposer's node through the verif shim VerifCraftBlock (same functions as
// ProposeBlock, body and time chosen by the scenario) so that the position of every transaction is scripted; the
// variant "Propose" evaluates the node's own real ProposeBlock.
//
// Shards: every second population is large enough to be split into two shards by the real balanceShards at the end of
// its first validation (SetShardsNum, per-identity SetShardId and the shard sizes are all set by the repository's code;
// the binary is built with small shard size limits through the build overlay, see tools/props/c17b.py).  Its second
// validation - the one that is run in variants - then has a lottery, candidates, flips, answers and evidence maps per
// shard, with participation patterns chosen per shard so that the shards' evidence disagrees at the same bit positions
// (assignShards).  The facts of a Chain line count evidence per shard.
//
// Output: one ndjson line per event (Scenario, Chain, Step, Eval, Commit), see spec/Trace_CeremonyRun.tla.
// Exit code 3 + a line on stderr: a node refused an epoch block that its proposer accepted outside the scripted
// part (the proposer's own block, or the common history): a verdict the caller reports.
package main

import (
	"bytes"
	"crypto/sha256"
	"encoding/binary"
	"encoding/hex"
	"encoding/json"
	"flag"
	"fmt"
	"math/rand"
	"os"
	"sort"
	"strings"
	"sync"
	"time"

	"github.com/idena-network/idena-go/blockchain/attachments"
	"github.com/idena-network/idena-go/blockchain/types"
	"github.com/idena-network/idena-go/blockchain/validation"
	"github.com/idena-network/idena-go/common"
	"github.com/idena-network/idena-go/config"
	"github.com/idena-network/idena-go/core/appstate"
	"github.com/idena-network/idena-go/core/ceremony"
	"github.com/idena-network/idena-go/core/flip"
	"github.com/idena-network/idena-go/core/mempool"
	"github.com/idena-network/idena-go/core/state"
	"github.com/idena-network/idena-go/crypto"
	"github.com/idena-network/idena-go/ipfs"
	"github.com/idena-network/idena-go/rpc"
	"github.com/idena-network/idena-go/secstore"
	"github.com/idena-network/idena-go/stats/collector"
	statsTypes "github.com/idena-network/idena-go/stats/types"
	"github.com/ipfs/go-cid"
	dbm "github.com/tendermint/tm-db"

	"verifh/internal/sim"
	"verifh/internal/tr"
)

const (
	firstValidation = int64(200000)
	lotteryDur      = int64(300)
	shortDur        = int64(120)
	longDur         = int64(600)
	interval        = int64(7200)
)

// slots of one scripted ceremony; every slot is one block except Clean (as many blocks without ceremony
// transactions as the chain needs before it may complete the epoch)
var slotNames = []string{"Lot", "S0", "S1", "L0", "L1", "L2", "A0", "A1", "Clean", "Epoch"}

func slotIndex(s string) int {
	for i, x := range slotNames {
		if x == s {
			return i
		}
	}
	panic("unknown slot " + s)
}

// ---------------------------------------------------------------------------------------------
// nodes

// the repository's in-memory ipfs proxy is a plain map; the ceremony loads flips from its own goroutines while
// the chain stores block bodies: serialise the accesses (the real proxy is concurrency-safe)
type lockedIpfs struct {
	ipfs.Proxy
	mu sync.Mutex
}

func (l *lockedIpfs) Add(data []byte, pin bool) (cid.Cid, error) {
	l.mu.Lock()
	defer l.mu.Unlock()
	return l.Proxy.Add(data, pin)
}

func (l *lockedIpfs) Get(key []byte, dataType ipfs.DataType) ([]byte, error) {
	l.mu.Lock()
	defer l.mu.Unlock()
	return l.Proxy.Get(key, dataType)
}

func (l *lockedIpfs) GetWithSizeLimit(key []byte, dataType ipfs.DataType, size int64) ([]byte, error) {
	l.mu.Lock()
	defer l.mu.Unlock()
	return l.Proxy.GetWithSizeLimit(key, dataType, size)
}

func (l *lockedIpfs) Unpin(key []byte) error {
	l.mu.Lock()
	defer l.mu.Unlock()
	return l.Proxy.Unpin(key)
}

type stubSyncer struct{}

func (stubSyncer) IsSyncing() bool { return false }

type evalRec struct {
	Height uint64
	Res    string
	St     [][]int
	Failed bool
	Count  int
	Parent string
	Ms     []int // per key: 0 = evaluated and not treated as missed, 1 = treated as missed, 2 = not evaluated as a candidate
	MsOk   bool  // the ceremony handed out its per-identity validation statistics
}

// valColl receives the ceremony's own per-identity record of the evaluation (approved / missed): the stats
// collector interface is how the node publishes it
type valColl struct {
	collector.StatsCollector
	stats *statsTypes.ValidationStats
}

func (c *valColl) SetValidation(v *statsTypes.ValidationStats) {
	c.stats = v
	c.StatsCollector.SetValidation(v)
}

type cnode struct {
	n     *sim.Node
	vc    *ceremony.ValidationCeremony
	p     *pop
	evals []evalRec
}

func (c *cnode) attach() {
	n := c.n
	if n.Cfg.Sync == nil {
		n.Cfg.Sync = &config.SyncConfig{}
	}
	if n.Cfg.RPC == nil {
		n.Cfg.RPC = rpc.GetDefaultRPCConfig("localhost", 9009)
	}
	kp := mempool.NewKeysPool(n.DB, n.App, n.Bus, n.Sec)
	fl := flip.NewFlipper(n.DB, n.Ipfs, kp, n.Pool, n.Sec, n.App, n.Bus)
	c.vc = ceremony.NewValidationCeremony(n.App, n.Bus, fl, n.Sec, n.DB, n.Pool, n.Chain, stubSyncer{}, kp, n.Cfg)
	// start-up order of node.go
	kp.Initialize(n.Chain.Head)
	fl.Initialize()
	c.vc.Initialize(n.Chain.GetBlock(n.Chain.Head.Hash()))
	vc := c.vc
	n.Chain.ProvideApplyNewEpochFunc(func(height uint64, app *appstate.AppState, coll collector.StatsCollector) types.TotalValidationResult {
		base := coll
		if base == nil {
			base = collector.NewStatsCollector()
		}
		vcoll := &valColl{StatsCollector: base}
		r := vc.ApplyNewEpoch(height, app, vcoll)
		e := c.p.mkEval(n, height, app, r)
		e.MsOk = vcoll.stats != nil
		for k := 0; k < c.p.nk; k++ {
			m := 2
			if vcoll.stats != nil {
				for _, sh := range vcoll.stats.Shards {
					if is, ok := sh.IdentitiesPerAddr[c.p.addr(k)]; ok {
						m = 0
						if is.Missed {
							m = 1
						}
					}
				}
			}
			e.Ms = append(e.Ms, m)
		}
		c.evals = append(c.evals, e)
		return r
	})
}

func (c *cnode) restart() {
	c.n = c.n.Restart()
	if c.n.BootErr != nil {
		panic(c.n.BootErr)
	}
	c.attach()
}

func (c *cnode) waitLottery() {
	for i := 0; i < 20000; i++ {
		if c.vc.VerifLotteryReady() {
			return
		}
		time.Sleep(200 * time.Microsecond)
	}
	panic("flip lottery did not finish")
}

func (c *cnode) add(data []byte) error {
	err := c.n.Add(data)
	if err == nil && c.n.Chain.Head.Flags().HasFlag(types.FlipLotteryStarted) {
		c.waitLottery()
	}
	return err
}

func hx(b []byte) string { return hex.EncodeToString(b) }

// ---------------------------------------------------------------------------------------------
// population: keys, genesis, behaviours; the base chain (first validation + preparation of the second)

type pop struct {
	id       int
	seed     int64
	rnd      *rand.Rand
	w        *sim.World
	secs     []*secstore.SecStore
	beh      [2][]string // behaviour of key k in the ceremony of epoch e
	base     []([]byte)  // blocks of the base chain (after genesis)
	truth    map[string]types.Answer
	grps     map[string]*group
	flipData [][]byte
	variant  string // variant class of the node being run (for verdict messages)

	multi        bool         // the network splits into two shards at the end of the first validation
	nk           int          // number of keys
	kInvitee     int          // invited and activated in epoch 1: a candidate of the second validation
	kInviteOnly  int          // invited in epoch 1, never activated
	kInviteOnly0 int          // invited in epoch 0, never activated
	kUndef       int          // an address with coins that never was an identity
	noEvid       map[int]bool // second validation: sends no evidence whatever else it does
}

func newPop(seed int64, id int) *pop {
	p := &pop{id: id, seed: seed, variant: "proposer", rnd: rand.New(rand.NewSource(seed*1009 + int64(id)*31 + 7)), truth: map[string]types.Answer{}, grps: map[string]*group{},
		noEvid: map[int]bool{}}
	// every second population is large enough to be split into two shards by the real balanceShards at the end of the
	// first validation (the driver is built with small shard size limits, see tools/props/c17b.py)
	p.multi = id%2 == 1
	var st []state.IdentityState
	if !p.multi {
		p.nk, p.kInvitee, p.kInviteOnly, p.kUndef, p.kInviteOnly0 = 14, 10, 11, 12, 13
		st = []state.IdentityState{state.Human, state.Candidate, state.Candidate, state.Newbie, state.Newbie, state.Human, state.Human,
			state.Suspended, state.Zombie, state.Candidate}
	} else {
		p.nk, p.kInvitee, p.kInviteOnly, p.kUndef, p.kInviteOnly0 = 23, 19, 20, 21, 22
		// 10 validated identities at genesis (the god identity may author any number of flips only up to that size)
		st = []state.IdentityState{state.Human, state.Human, state.Human, state.Human,
			state.Newbie, state.Newbie, state.Newbie, state.Newbie, state.Newbie, state.Newbie,
			state.Candidate, state.Candidate, state.Candidate, state.Candidate, state.Candidate,
			state.Suspended, state.Suspended, state.Zombie, state.Zombie}
	}
	w := sim.NewWorld(seed*100+int64(id), p.nk)
	w.ValCfg.FlipLotteryDuration = time.Duration(lotteryDur) * time.Second
	w.ValCfg.ShortSessionDuration = time.Duration(shortDur) * time.Second
	w.ValCfg.LongSessionDuration = time.Duration(longDur) * time.Second
	w.ValCfg.ValidationInterval = time.Duration(interval) * time.Second
	w.FirstCeremony = firstValidation
	for k, s := range st {
		w.Allocs = append(w.Allocs, sim.Alloc{Key: k, State: s, Balance: sim.Dna(int64(1000+p.rnd.Intn(1000)), 1), Stake: sim.Dna(int64(20+p.rnd.Intn(200)), 1)})
	}
	w.Allocs = append(w.Allocs, sim.Alloc{Key: p.kUndef, State: state.Undefined, Balance: sim.Dna(500, 1)})
	p.w = w
	for k := 0; k < p.nk; k++ {
		s := secstore.NewSecStore()
		s.AddKey(crypto.FromECDSA(w.Keys[k]))
		p.secs = append(p.secs, s)
	}
	// behaviours: the god identity and two more always behave well (the validation must not fail as a whole and
	// the evidence needs a majority); epoch 0 prepares a population with every status for epoch 1
	p.beh[0] = make([]string, p.nk)
	p.beh[1] = make([]string, p.nk)
	for k := 0; k < p.nk; k++ {
		p.beh[0][k], p.beh[1][k] = "good", "good"
	}
	for _, k := range []int{p.kInviteOnly, p.kInviteOnly0, p.kUndef} {
		p.beh[0][k], p.beh[1][k] = "none", "none"
	}
	p.beh[0][p.kInvitee] = "none"
	if p.multi {
		p.beh[0][3] = "absent" // Human -> Suspended
		p.beh[0][9] = []string{"absent", "wrong", "good"}[p.rnd.Intn(3)]
		p.beh[0][18] = []string{"good", "absent"}[p.rnd.Intn(2)]
		return p // the second validation's behaviours are chosen per shard once the shards exist (assignShards)
	}
	p.beh[0][6] = "absent" // Human -> Suspended: a suspended identity takes part in the second validation
	p.beh[0][4] = []string{"absent", "wrong", "good"}[p.rnd.Intn(3)]
	p.beh[0][8] = []string{"good", "absent"}[p.rnd.Intn(2)] // Zombie -> Verified | Killed
	// second validation: keys 0, 3, 5, 7 behave well (and send evidence); among the newbies 1, 2, 9 one is the
	// latecomer, one lacks a required flip; one of the suspended identity 6 and the new candidate 10 answers well but
	// is confirmed by no majority; everybody else draws from the menu
	nb := []int{1, 2, 9}
	p.rnd.Shuffle(3, func(i, j int) { nb[i], nb[j] = nb[j], nb[i] })
	p.beh[1][nb[0]], p.beh[1][nb[1]], p.beh[1][nb[2]] = "late", "noflips", p.pick()
	un := []int{6, p.kInvitee}
	p.rnd.Shuffle(2, func(i, j int) { un[i], un[j] = un[j], un[i] })
	p.beh[1][un[0]], p.beh[1][un[1]] = "unapproved", p.pick()
	p.beh[1][4], p.beh[1][8] = p.pick(), p.pick()
	return p
}

var behMenu = []string{"absent", "shortonly", "nohash", "badsalt", "wrong", "half", "reporter", "noevid", "good"}

func (p *pop) pick() string { return behMenu[p.rnd.Intn(len(behMenu))] }

// assignShards chooses the behaviours of the second validation of a two-shard population PER SHARD, so that the
// shards' evidence disagrees at the same bit indexes: shard A has three evidence senders, shard B as many as it can;
// at some candidate index the identity of A answers well but is confirmed by no majority of A while the identity of B at
// the same index is confirmed by all of B, at another index the identity of B is absent while the one of A is confirmed
// by all of A, and the same with A and B exchanged.  (Evidence bits refer to positions in the sender's own shard.)
func (p *pop) assignShards(b *cnode) {
	st := b.n.App.State
	if st.ShardsNum() != 2 {
		panic(fmt.Sprintf("population %d was not split into two shards at the end of the first validation (shards: %d); the driver must be built "+
			"with the small shard size limits", p.id, st.ShardsNum()))
	}
	lists := map[int][]int{}
	for k := 0; k < p.nk; k++ {
		id := st.GetIdentity(p.addr(k))
		switch id.State {
		case state.Candidate, state.Newbie, state.Verified, state.Human, state.Suspended, state.Zombie:
			lists[int(id.ShiftedShardId())] = append(lists[int(id.ShiftedShardId())], k)
		}
	}
	A := 1 + p.rnd.Intn(2)
	B := 3 - A
	byAddr := func(l []int) {
		sort.Slice(l, func(i, j int) bool { return bytes.Compare(p.addr(l[i]).Bytes(), p.addr(l[j]).Bytes()) < 0 })
	}
	taken := map[int]bool{0: true}
	choose := func(l []int, ok func(k int) bool) int {
		var c []int
		for _, k := range l {
			if !taken[k] && ok(k) {
				c = append(c, k)
			}
		}
		if len(c) == 0 {
			return -1
		}
		k := c[p.rnd.Intn(len(c))]
		taken[k] = true
		return k
	}
	isNewbieWithFlips := func(k int) bool {
		id := st.GetIdentity(p.addr(k))
		return id.State == state.Newbie && id.RequiredFlips > 0
	}
	mayEvidence := func(k int) bool { return st.GetIdentity(p.addr(k)).State != state.Candidate }
	// one identity of B lacks a required flip (it is no candidate: the positions are those of the others), one newbie is the latecomer
	if k := choose(lists[B], isNewbieWithFlips); k >= 0 {
		p.beh[1][k] = "noflips"
		var l []int
		for _, x := range lists[B] {
			if x != k {
				l = append(l, x)
			}
		}
		lists[B] = l
	}
	if k := choose(lists[B], isNewbieWithFlips); k >= 0 {
		p.beh[1][k] = "late"
	}
	byAddr(lists[A])
	byAddr(lists[B])
	// evidence senders of A: three (the god identity among them when it lives there); everybody else of A sends none
	var sendersA []int
	for _, k := range lists[A] {
		if k == 0 {
			sendersA = append(sendersA, k)
		}
	}
	for len(sendersA) < 3 {
		k := choose(lists[A], mayEvidence)
		if k < 0 {
			break
		}
		sendersA = append(sendersA, k)
	}
	isSenderA := map[int]bool{}
	for _, k := range sendersA {
		isSenderA[k] = true
	}
	for _, k := range lists[A] {
		if !isSenderA[k] {
			p.noEvid[k] = true
		}
	}
	// complementary roles at equal positions
	n := len(lists[A])
	if len(lists[B]) < n {
		n = len(lists[B])
	}
	var free []int
	for i := 0; i < n; i++ {
		if !taken[lists[A][i]] && !taken[lists[B][i]] {
			free = append(free, i)
		}
	}
	p.rnd.Shuffle(len(free), func(i, j int) { free[i], free[j] = free[j], free[i] })
	roles := [][2]string{{"unapproved", "good"}, {"good", "absent"}, {"good", "unapproved"}, {"absent", "good"}}
	for j, i := range free {
		if j >= len(roles) {
			break
		}
		p.beh[1][lists[A][i]], p.beh[1][lists[B][i]] = roles[j][0], roles[j][1]
		taken[lists[A][i]], taken[lists[B][i]] = true, true
	}
	// everybody else: one in three draws from the menu
	for _, s := range []int{A, B} {
		for _, k := range lists[s] {
			if !taken[k] && p.rnd.Intn(3) == 0 {
				p.beh[1][k] = p.pick()
			}
		}
	}
}

func (p *pop) addr(k int) common.Address { return p.w.Addrs[k] }

func (p *pop) newNode(key int, blocks [][]byte) *cnode {
	store := &lockedIpfs{Proxy: ipfs.NewMemoryIpfsProxy()}
	for _, d := range p.flipData {
		store.Add(d, true)
	}
	n := p.w.Boot(key, dbm.NewMemDB(), store)
	if n.BootErr != nil {
		panic(n.BootErr)
	}
	c := &cnode{n: n, p: p}
	c.attach()
	for _, b := range blocks {
		if err := c.add(b); err != nil {
			if blk := sim.Decode(b); blk.Header.Flags().HasFlag(types.ValidationFinished) {
				// a node refuses an epoch block of the common history that its proposer (and every node before)
				// accepted: the node evaluated the validation differently - a verdict, not a harness fault
				nodeRefused(p.variant, fmt.Sprintf("a node (key k%d, clock at %d) refuses the epoch block at height %d of the common history: %v; "+
					"its evaluations: %+v", key, p.w.Clock.Ticks(), blk.Height(), err, c.evals))
			}
			panic(fmt.Sprintf("base block refused: %v", err))
		}
	}
	c.evals = nil
	return c
}

// tx builds a transaction of key k with the next nonce of the builder's state (+ already used in this block)
func (p *pop) tx(b *cnode, used map[int]uint32, k int, typ types.TxType, to *common.Address, payload []byte, amount int64) *types.Transaction {
	s := b.n.App.State
	a := p.addr(k)
	nonce := s.GetNonce(a)
	if s.GetEpoch(a) < s.Epoch() {
		nonce = 0
	}
	used[k]++
	spec := sim.TxSpec{From: k, To: to, Type: typ, Nonce: nonce + used[k], Epoch: s.Epoch(), Payload: payload, MaxFee: sim.Dna(50, 1)}
	if amount > 0 {
		spec.Amount = sim.Dna(amount, 1)
	}
	return p.w.Tx(spec)
}

func (p *pop) craft(b *cnode, txs []*types.Transaction, t int64) []byte {
	if t < b.n.Chain.Head.Time()+10 {
		t = b.n.Chain.Head.Time() + 10
	}
	p.w.SetNow(t)
	blk, err := b.n.Chain.VerifCraftBlock(txs, t)
	if err != nil {
		panic(fmt.Sprintf("cannot craft block at %d: %v", t, err))
	}
	data := sim.Encode(blk)
	if err := b.add(data); err != nil {
		if blk.Header.Flags().HasFlag(types.ValidationFinished) {
			// the proposer evaluated the epoch while assembling the block and again while inserting it, and the two
			// evaluations do not lead to the same state: a verdict, not a harness fault
			proposerRefused(fmt.Sprintf("the proposer's node refuses the epoch block it has just assembled (height %d): %v; evaluations: %+v",
				blk.Height(), err, b.evals))
		}
		panic(fmt.Sprintf("builder refused its own block: %v", err))
	}
	return data
}

var traceOut *tr.W

func nodeRefused(variant, msg string) {
	if traceOut != nil {
		traceOut.Close()
	}
	fmt.Fprintln(os.Stderr, "NODE-REFUSED-EPOCH-BLOCK variant="+variant+" "+msg)
	sim.Cleanup()
	os.Exit(3)
}

func proposerRefused(msg string) {
	if traceOut != nil {
		traceOut.Close()
	}
	fmt.Fprintln(os.Stderr, "PROPOSER-REFUSED-OWN-EPOCH-BLOCK "+msg)
	sim.Cleanup()
	os.Exit(3)
}

// flipCid makes a flip (an IpfsFlip record as the flipper stores it), remembers its content for every node's ipfs
// store (the nodes have fetched and pinned the flips, as the flipper does when it sees the SubmitFlipTx) and
// returns its cid.  The "right" answer of a flip is a function of its content.
func (p *pop) flipCid(b *cnode, epoch, k, i int) []byte {
	h := sha256.Sum256([]byte(fmt.Sprintf("flip-%d-%d-%d-%d-%d", p.seed, p.id, epoch, k, i)))
	data, _ := (&flip.IpfsFlip{PubKey: crypto.FromECDSAPub(&p.w.Keys[k].PublicKey), PublicPart: h[:], PrivatePart: h[:8]}).ToBytes()
	c, _ := b.n.Ipfs.Add(data, true)
	p.flipData = append(p.flipData, data)
	cb := c.Bytes()
	if h[0]&1 == 0 {
		p.truth[string(cb)] = types.Left
	} else {
		p.truth[string(cb)] = types.Right
	}
	return cb
}

// ---------------------------------------------------------------------------------------------
// ceremony transactions of one identity, from its behaviour and the lottery's flip lists

type ctxs struct {
	k                      int
	hash, short, long, evi []byte // payloads (nil = not sent)
}

func (p *pop) answers(flips [][]byte, mode string, k int, long bool) *types.Answers {
	a := types.NewAnswers(uint(len(flips)))
	for i, f := range flips {
		t := p.truth[string(f)]
		ans := t
		switch mode {
		case "wrong":
			ans = 3 - t
		case "half":
			if i%2 == 0 {
				ans = 3 - t
			}
		}
		if ans == types.Left {
			a.Left(uint(i))
		} else {
			a.Right(uint(i))
		}
		if long {
			g := types.GradeD
			if mode == "reporter" && i == 0 {
				g = types.GradeReported
			} else if i == 1 {
				g = types.GradeC
			}
			a.Grade(uint(i), g)
		}
	}
	return a
}

// candidates of every shard in lottery order
func candidatesByShard(b *cnode) map[int][]common.Address {
	res := map[int][]common.Address{}
	for s := 1; s <= int(b.n.App.State.ShardsNum()); s++ {
		res[s] = b.vc.VerifCandidates(common.ShardId(s))
	}
	return res
}

type candPos struct{ shard, i int }

func positions(cands map[int][]common.Address) map[common.Address]candPos {
	idx := map[common.Address]candPos{}
	for s, l := range cands {
		for i, c := range l {
			idx[c] = candPos{s, i}
		}
	}
	return idx
}

func (p *pop) ceremonyTxs(b *cnode, epoch int) (map[int]*ctxs, map[int][]common.Address) {
	cands := candidatesByShard(b)
	idx := positions(cands)
	st := b.n.App.State
	seed := st.FlipWordsSeed()
	res := map[int]*ctxs{}
	// who sends evidence: identities that may (no candidate status, not discriminated) and whose behaviour includes it
	sendsEvidence := func(k int) bool {
		beh := p.beh[epoch][k]
		if _, ok := idx[p.addr(k)]; !ok || beh == "none" || beh == "absent" || beh == "noflips" || beh == "shortonly" || beh == "noevid" || beh == "late" ||
			(epoch == 1 && p.noEvid[k]) {
			return false
		}
		id := st.GetIdentity(p.addr(k))
		if id.IsDiscriminated(st.DiscriminationStakeThreshold(), st.Epoch()) && k != 0 {
			return false
		}
		return id.State != state.Candidate
	}
	// an "unapproved" identity is confirmed by as many evidence maps OF ITS SHARD as is still NO majority (exactly half
	// when the number of maps is even)
	vouchers := map[int]bool{}
	senders := map[int][]int{}
	for k := 0; k < p.nk; k++ {
		if sendsEvidence(k) {
			s := idx[p.addr(k)].shard
			senders[s] = append(senders[s], k)
		}
	}
	for _, l := range senders {
		for _, k := range l[:len(l)/2] {
			vouchers[k] = true
		}
	}
	for k := 0; k < p.nk; k++ {
		beh := p.beh[epoch][k]
		a := p.addr(k)
		pos, ok := idx[a]
		if !ok || beh == "none" || beh == "absent" || beh == "noflips" {
			continue
		}
		shortFlips := b.vc.GetShortFlipsToSolve(a, common.ShardId(pos.shard))
		longFlips := b.vc.GetLongFlipsToSolve(a, common.ShardId(pos.shard))
		c := &ctxs{k: k}
		sa := p.answers(shortFlips, beh, k, false)
		la := p.answers(longFlips, beh, k, true)
		vrfHash, proof := p.secs[k].VrfEvaluate(seed[:])
		rnd := binary.LittleEndian.Uint64(vrfHash[:])
		salt := sha256.Sum256([]byte(fmt.Sprintf("salt-%d-%d-%d", p.seed, epoch, k)))
		h := crypto.Hash(append(append([]byte{}, sa.Bytes()...), salt[:]...))
		c.hash = h[:]
		c.short = attachments.CreateShortAnswerAttachment(sa.Bytes(), rnd, 1)
		ls := salt[:]
		if beh == "badsalt" {
			x := sha256.Sum256(salt[:])
			ls = x[:]
		}
		lp, _ := (&attachments.LongAnswerAttachment{Answers: la.Bytes(), Proof: proof, Key: crypto.FromECDSAPub(&p.w.Keys[k].PublicKey), Salt: ls}).ToBytes()
		c.long = lp
		switch beh {
		case "shortonly":
			c.long = nil
		case "nohash":
			c.hash = nil
		}
		if sendsEvidence(k) {
			// the bits of an evidence map are positions in the sender's own shard (broadcastEvidenceMap: CoinbaseShard)
			bm := common.NewBitmap(uint32(len(cands[pos.shard])))
			for kk := 0; kk < p.nk; kk++ {
				bb := p.beh[epoch][kk]
				pp, ok := idx[p.addr(kk)]
				if !ok || pp.shard != pos.shard || bb == "none" || bb == "absent" || bb == "noflips" {
					continue
				}
				if bb == "unapproved" && !vouchers[k] {
					continue
				}
				bm.Add(uint32(pp.i))
			}
			buf := new(bytes.Buffer)
			bm.WriteTo(buf)
			c.evi = buf.Bytes()
		}
		res[k] = c
	}
	return res, cands
}

// layout of the ceremony transactions over the slots (parent period: S1 = short session; L0 = short session
// (the block that starts the long session); L1, L2, A0 = long session; A1 = after the long session)
type layout struct {
	name    string
	order   string          // per-sender order of the transaction kinds (nonces follow it)
	slot    map[byte]string // kind (h, l, e, s) -> slot
	rev     bool            // senders in descending key order inside a block
	shuffle bool            // senders in a seeded random order inside a block
}

// the layout table is part of the specification (CeremonyRun.tla, Placement); TLC exports it, -params loads it
var layouts = map[string]*layout{}

func loadParams(path string) {
	var doc struct {
		Params struct {
			Slots   []string                          `json:"slots"`
			Layouts map[string]map[string]interface{} `json:"layouts"`
		} `json:"params"`
	}
	raw, err := os.ReadFile(path)
	if err != nil {
		panic(err)
	}
	if err := json.Unmarshal(raw, &doc); err != nil {
		panic(err)
	}
	if strings.Join(doc.Params.Slots, ",") != strings.Join(slotNames, ",") {
		panic("the specification's slots differ from the driver's")
	}
	for name, m := range doc.Params.Layouts {
		l := &layout{name: name, order: m["order"].(string), slot: map[byte]string{}, rev: m["rev"].(bool), shuffle: m["shuffle"].(bool)}
		for _, k := range "hles" {
			l.slot[byte(k)] = m[string(k)].(string)
		}
		layouts[name] = l
	}
}

// chain = one built history of a ceremony: blocks per slot, facts taken from the blocks
type chain struct {
	id      string
	builder *cnode
	blocks  map[string][][]byte
	epochH  uint64
	forkH   uint64 // height of the last block before slot A1
	facts   []map[string]interface{}
	commit  tr.M
}

func (ch *chain) seq(from, to int) [][]byte {
	var res [][]byte
	for i := from; i <= to; i++ {
		res = append(res, ch.blocks[slotNames[i]]...)
	}
	return res
}

// build the blocks of slots [from..to] of a ceremony on builder b
func (p *pop) buildCeremony(b *cnode, ch *chain, epoch int, lay *layout, from, to int, fork string, ct map[int]*ctxs, shuffle *rand.Rand) map[int]*ctxs {
	v := b.n.App.State.NextValidationTime().Unix()
	times := map[string]int64{"Lot": v - lotteryDur + 60, "S0": v + 1, "S1": v + 40, "L0": v + shortDur + 1, "L1": v + shortDur + 100, "L2": v + shortDur + 200,
		"A0": v + shortDur + longDur + 1, "A1": v + shortDur + longDur + 40}
	for si := from; si <= to; si++ {
		slot := slotNames[si]
		switch slot {
		case "Clean":
			for !b.n.App.State.CanCompleteEpoch() {
				ch.blocks[slot] = append(ch.blocks[slot], p.craft(b, nil, b.n.Chain.Head.Time()+20))
			}
			continue
		case "Epoch":
			ch.blocks[slot] = append(ch.blocks[slot], p.craft(b, nil, b.n.Chain.Head.Time()+20))
			ch.epochH = b.n.Chain.Head.Height()
			continue
		}
		if slot == "S0" && ct == nil {
			ct, _ = p.ceremonyTxs(b, epoch)
		}
		var txs []*types.Transaction
		if ct != nil {
			used := map[int]uint32{}
			keys := make([]int, 0, len(ct))
			for k := range ct {
				keys = append(keys, k)
			}
			sort.Ints(keys)
			if lay.rev {
				sort.Sort(sort.Reverse(sort.IntSlice(keys)))
			}
			if shuffle != nil {
				shuffle.Shuffle(len(keys), func(i, j int) { keys[i], keys[j] = keys[j], keys[i] })
			}
			for _, k := range keys {
				c := ct[k]
				order, slotOf := lay.order, lay.slot
				if p.beh[epoch][k] == "late" {
					// the latecomer: hash in time, short answers after the long session (both forks), long answers
					// after the long session on fork a only
					order, slotOf = "hsl", map[byte]string{'h': "S1", 's': "A1", 'l': "A1"}
				}
				for i := 0; i < len(order); i++ {
					kind := order[i]
					if slotOf[kind] != slot {
						continue
					}
					var pl []byte
					var typ types.TxType
					switch kind {
					case 'h':
						pl, typ = c.hash, types.SubmitAnswersHashTx
					case 's':
						pl, typ = c.short, types.SubmitShortAnswersTx
					case 'l':
						pl, typ = c.long, types.SubmitLongAnswersTx
					case 'e':
						pl, typ = c.evi, types.EvidenceTx
					}
					if pl == nil || (p.beh[epoch][k] == "late" && kind == 'l' && fork == "b") {
						continue
					}
					txs = append(txs, p.tx(b, used, k, typ, nil, pl, 0))
				}
			}
		}
		ch.blocks[slot] = append(ch.blocks[slot], p.craft(b, txs, times[slot]))
		if slot == "A0" {
			ch.forkH = b.n.Chain.Head.Height()
		}
	}
	return ct
}

// buildBase: genesis -> flips of the god identity -> first validation (scripted, layout l0) -> invitations,
// activation and the required flips of the second epoch.  Returns the blocks.
func (p *pop) buildBase() {
	b := p.newNode(0, nil)
	var blocks [][]byte
	emit := func(txs []*types.Transaction, t int64) {
		blocks = append(blocks, p.craft(b, txs, t))
	}
	// epoch 0: only the god identity may author flips (nobody else has flips available before the first validation)
	used := map[int]uint32{}
	var txs []*types.Transaction
	for i := 0; i < 7; i++ {
		txs = append(txs, p.tx(b, used, 0, types.SubmitFlipTx, nil, attachments.CreateFlipSubmitAttachment(p.flipCid(b, 0, 0, i), uint8(i)), 0))
	}
	to := p.addr(p.kInviteOnly0)
	txs = append(txs, p.tx(b, used, 0, types.InviteTx, &to, nil, 10))
	emit(txs, 1000)
	ch := &chain{id: "base0", builder: b, blocks: map[string][][]byte{}}
	p.buildCeremony(b, ch, 0, layouts["l0"], 0, len(slotNames)-1, "a", nil, nil)
	blocks = append(blocks, ch.seq(0, len(slotNames)-1)...)
	if b.n.App.State.Epoch() != 1 {
		panic("first validation did not complete")
	}
	// epoch 1: invitations, activation, flips
	used = map[int]uint32{}
	txs = nil
	for _, k := range []int{p.kInvitee, p.kInviteOnly} {
		to := p.addr(k)
		txs = append(txs, p.tx(b, used, 0, types.InviteTx, &to, nil, 10))
	}
	emit(txs, b.n.Chain.Head.Time()+30)
	used = map[int]uint32{}
	self := p.addr(p.kInvitee)
	emit([]*types.Transaction{p.tx(b, used, p.kInvitee, types.ActivationTx, &self, crypto.FromECDSAPub(&p.w.Keys[p.kInvitee].PublicKey), 0)}, b.n.Chain.Head.Time()+30)
	if p.multi {
		p.assignShards(b)
	}
	used = map[int]uint32{}
	txs = nil
	for k := 0; k < p.nk; k++ {
		id := b.n.App.State.GetIdentity(p.addr(k))
		n := int(id.RequiredFlips)
		if p.beh[1][k] == "noflips" && n > 0 {
			n--
		}
		for i := 0; i < n; i++ {
			txs = append(txs, p.tx(b, used, k, types.SubmitFlipTx, nil, attachments.CreateFlipSubmitAttachment(p.flipCid(b, 1, k, i), uint8(i)), 0))
		}
		if len(txs) >= 24 {
			emit(txs, b.n.Chain.Head.Time()+30)
			used = map[int]uint32{}
			txs = nil
		}
	}
	if len(txs) > 0 {
		emit(txs, b.n.Chain.Head.Time()+30)
	}
	p.base = blocks
}

// ---------------------------------------------------------------------------------------------
// observations

func (p *pop) mkEval(n *sim.Node, height uint64, app *appstate.AppState, r types.TotalValidationResult) evalRec {
	var sb strings.Builder
	fmt.Fprintf(&sb, "n=%d failed=%v;", r.IdentitiesCount, r.Failed)
	addrs := func(m map[common.Address]struct{}) []string {
		var s []string
		for a := range m {
			s = append(s, p.w.Name(a))
		}
		sort.Strings(s)
		return s
	}
	fmt.Fprintf(&sb, "pools=%v;", addrs(r.Pools))
	var nv []string
	for a, v := range r.NonValidatedStakes {
		nv = append(nv, p.w.Name(a)+":"+v.String())
	}
	sort.Strings(nv)
	fmt.Fprintf(&sb, "nvs=%v;", nv)
	var shards []int
	for s := range r.ShardResults {
		shards = append(shards, int(s))
	}
	sort.Ints(shards)
	for _, s := range shards {
		v := r.ShardResults[common.ShardId(s)]
		fmt.Fprintf(&sb, "shard%d{", s)
		var l []string
		for a, x := range v.BadAuthors {
			l = append(l, fmt.Sprintf("%s:%d", p.w.Name(a), x))
		}
		sort.Strings(l)
		fmt.Fprintf(&sb, "bad=%v;", l)
		l = nil
		for a, x := range v.GoodAuthors {
			s := fmt.Sprintf("%s:%v:%d[", p.w.Name(a), x.Missed, x.NewIdentityState)
			for _, f := range x.FlipsToReward {
				s += fmt.Sprintf("%x/%d/%s,", f.Cid[len(f.Cid)-4:], f.Grade, f.GradeScore.String())
			}
			l = append(l, s+"]")
		}
		sort.Strings(l)
		fmt.Fprintf(&sb, "good=%v;", l)
		l = nil
		for a, x := range v.AuthorResults {
			l = append(l, fmt.Sprintf("%s:%v%v%v", p.w.Name(a), x.HasOneReportedFlip, x.HasOneNotQualifiedFlip, x.AllFlipsNotQualified))
		}
		sort.Strings(l)
		fmt.Fprintf(&sb, "authors=%v;", l)
		l = nil
		for a, x := range v.GoodInviters {
			s := fmt.Sprintf("%s:%d:%v[", p.w.Name(a), x.NewIdentityState, x.PayInvitationReward)
			for _, i := range x.SuccessfulInvites {
				s += fmt.Sprintf("%d/%x/%d/%v/%s,", i.Age, i.TxHash[:4], i.EpochHeight, i.Penalized, p.w.Name(i.Address))
			}
			l = append(l, s+"]")
		}
		sort.Strings(l)
		fmt.Fprintf(&sb, "inviters=%v;", l)
		l = nil
		for f, m := range v.ReportersToRewardByFlip {
			var rr []string
			for a, c := range m {
				rr = append(rr, fmt.Sprintf("%s:%d", p.w.Name(a), c.NewIdentityState))
			}
			sort.Strings(rr)
			l = append(l, fmt.Sprintf("%03d:%v", f, rr))
		}
		sort.Strings(l)
		fmt.Fprintf(&sb, "reporters=%v}", l)
	}
	sum := sha256.Sum256([]byte(sb.String()))
	e := evalRec{Height: height, Res: hx(sum[:8]), Failed: r.Failed, Count: r.IdentitiesCount, Parent: hx(n.Chain.Head.Hash().Bytes()[:6])}
	if os.Getenv("VERIF_DEBUG_RES") != "" {
		fmt.Fprintln(os.Stderr, "RES", e.Res, sb.String())
	}
	for k := 0; k < p.nk; k++ {
		id := app.State.GetIdentity(p.addr(k))
		last := 0
		if len(id.Scores) > 0 {
			last = int(id.Scores[len(id.Scores)-1])
		}
		e.St = append(e.St, []int{int(id.State), int(id.Birthday), len(id.Scores), last})
	}
	return e
}

func statuses(p *pop, s *state.StateDB) []int {
	var res []int
	for k := 0; k < p.nk; k++ {
		res = append(res, int(s.GetIdentityState(p.addr(k))))
	}
	return res
}

// facts of a built chain, read from its blocks and from the state before the epoch block.  Evidence is counted per
// shard: an evidence map speaks about the candidates of its sender's shard, its bits are positions in that shard.
func (p *pop) facts(ch *chain, cands map[int][]common.Address, pre *state.StateDB) []map[string]interface{} {
	idx := positions(cands)
	type f struct {
		hash, short, long, evi bool
		appr                   int
	}
	fs := map[int]*f{}
	for k := 0; k < p.nk; k++ {
		fs[k] = &f{}
	}
	maps := map[int]int{}
	for _, slot := range slotNames[:len(slotNames)-1] {
		for _, data := range ch.blocks[slot] {
			blk := sim.Decode(data)
			for _, tx := range blk.Body.Transactions {
				sender, _ := types.Sender(tx)
				k := p.w.Index(sender)
				switch tx.Type {
				case types.SubmitAnswersHashTx:
					fs[k].hash = true
				case types.SubmitShortAnswersTx:
					fs[k].short = true
				case types.SubmitLongAnswersTx:
					fs[k].long = true
				case types.EvidenceTx:
					fs[k].evi = true
					if sp, ok := idx[sender]; ok {
						maps[sp.shard]++
						bm := common.NewBitmap(uint32(len(cands[sp.shard])))
						bm.Read(tx.Payload)
						for kk := 0; kk < p.nk; kk++ {
							if pp, ok := idx[p.addr(kk)]; ok && pp.shard == sp.shard && bm.Contains(uint32(pp.i)) {
								fs[kk].appr++
							}
						}
					}
				}
			}
		}
	}
	var res []map[string]interface{}
	for k := 0; k < p.nk; k++ {
		id := pre.GetIdentity(p.addr(k))
		pp, isCand := idx[p.addr(k)]
		shard, pos := int(id.ShiftedShardId()), -1
		if isCand {
			shard, pos = pp.shard, pp.i
		}
		res = append(res, map[string]interface{}{"k": k, "prev": int(id.State), "flipsDone": id.HasDoneAllRequiredFlips(), "cand": isCand,
			"shard": shard, "idx": pos,
			"hash": fs[k].hash, "short": fs[k].short, "long": fs[k].long, "evi": fs[k].evi, "appr": fs[k].appr, "maps": maps[shard],
			"beh": p.beh[1][k]})
	}
	return res
}

// ---------------------------------------------------------------------------------------------
// scenarios

type nodeSpec struct {
	Name   string   `json:"name"`
	Layout string   `json:"layout"`
	Late   bool     `json:"late"`
	Key    int      `json:"key"`
	Hist   []string `json:"hist"`
	VClass string   `json:"vclass"`
}

type scenario struct {
	Sid   int        `json:"sid"`
	Pop   int        `json:"pop"`
	Nodes []nodeSpec `json:"nodes"`
}

type group struct {
	lay    *layout
	chains map[string]*chain // a, b, a2 (a with another epoch block)
	cands  map[int][]common.Address
}

type runner struct {
	p    *pop
	out  *tr.W
	sid  int
	grps map[string]*group
}

func (r *runner) group(name string) *group {
	if g, ok := r.grps[name]; ok {
		return g
	}
	p := r.p
	if g, ok := p.grps[name]; ok {
		// built for an earlier scenario of this population: the references are part of every scenario's trace
		r.grps[name] = g
		r.emitGroup(name, g)
		return g
	}
	lay := layouts[name]
	if lay == nil {
		panic("unknown layout " + name)
	}
	g := &group{lay: lay, chains: map[string]*chain{}}
	var shuffle *rand.Rand
	if lay.shuffle {
		shuffle = rand.New(rand.NewSource(p.seed*77 + int64(p.id)))
	}
	// fork a
	ba := p.newNode(0, p.base)
	a := &chain{id: "a", builder: ba, blocks: map[string][][]byte{}}
	ct := p.buildCeremony(ba, a, 1, lay, 0, slotIndex("A0"), "a", nil, shuffle)
	g.cands = candidatesByShard(ba)
	prefix := a.seq(0, slotIndex("A0"))
	p.buildCeremony(ba, a, 1, lay, slotIndex("A1"), slotIndex("Clean"), "a", ct, shuffle)
	toClean := a.seq(0, slotIndex("Clean"))
	preA := r.preState(ba)
	p.buildCeremony(ba, a, 1, lay, slotIndex("Epoch"), slotIndex("Epoch"), "a", ct, shuffle)
	a.facts = p.facts(a, g.cands, preA)
	g.chains["a"] = a
	// fork b: same prefix, the latecomer's long answers are missing in A1
	bb := p.newNode(0, append(append([][]byte{}, p.base...), prefix...))
	b := &chain{id: "b", builder: bb, blocks: map[string][][]byte{}, forkH: a.forkH}
	for _, s := range slotNames[:slotIndex("A1")] {
		b.blocks[s] = a.blocks[s]
	}
	p.buildCeremony(bb, b, 1, lay, slotIndex("A1"), slotIndex("Clean"), "b", ct, shuffle)
	preB := r.preState(bb)
	p.buildCeremony(bb, b, 1, lay, slotIndex("Epoch"), slotIndex("Epoch"), "b", ct, shuffle)
	b.facts = p.facts(b, g.cands, preB)
	g.chains["b"] = b
	// a2: chain a with another epoch block (same parent, other time)
	b2 := p.newNode(0, append(append([][]byte{}, p.base...), toClean...))
	a2 := &chain{id: "a2", builder: b2, blocks: map[string][][]byte{}, forkH: a.forkH}
	for _, s := range slotNames[:slotIndex("Epoch")] {
		a2.blocks[s] = a.blocks[s]
	}
	a2.blocks["Epoch"] = [][]byte{p.craft(b2, nil, b2.n.Chain.Head.Time()+47)}
	a2.epochH = b2.n.Chain.Head.Height()
	a2.facts = a.facts
	g.chains["a2"] = a2
	for _, id := range []string{"a", "b", "a2"} {
		ch := g.chains[id]
		ch.commit = r.commitLine(name, "builder-"+id, "proposer", id, ch.builder, nil)
		delete(ch.commit, "sid")
	}
	if a.epochH != b.epochH || a.epochH != a2.epochH {
		panic(fmt.Sprintf("forks complete the epoch at different heights: %d %d %d", a.epochH, b.epochH, a2.epochH))
	}
	r.grps[name] = g
	p.grps[name] = g
	r.emitGroup(name, g)
	return g
}

func (r *runner) emitGroup(name string, g *group) {
	for _, id := range []string{"a", "b", "a2"} {
		ch := g.chains[id]
		ev := ch.builder.evals
		if len(ev) == 0 {
			panic("builder did not evaluate")
		}
		r.out.Emit(tr.M{"ev": "Chain", "sid": r.sid, "grp": name, "chain": id, "h": ch.epochH, "facts": ch.facts})
		for i, e := range ev {
			if e.Height != ch.epochH {
				continue
			}
			kind := "craft"
			if i == len(ev)-1 {
				kind = "add"
			}
			parent := id
			if id == "a2" {
				parent = "a"
			}
			r.emitEval(name, "builder-"+id, "proposer", parent, kind, e)
		}
		line := tr.M{"sid": r.sid}
		for k, v := range ch.commit {
			line[k] = v
		}
		r.out.Emit(line)
	}
}

func (r *runner) preState(b *cnode) *state.StateDB {
	ro, err := b.n.App.Readonly(b.n.Chain.Head.Height())
	if err != nil {
		panic(err)
	}
	return ro.State
}

func (r *runner) emitEval(grp, node, variant, chainId, kind string, e evalRec) {
	r.out.Emit(tr.M{"ev": "Eval", "sid": r.sid, "grp": grp, "node": node, "variant": variant, "chain": chainId, "kind": kind,
		"res": e.Res, "st": e.St, "failed": e.Failed, "count": e.Count, "h": e.Height, "ms": e.Ms, "msok": e.MsOk})
}

func (r *runner) emitCommit(grp, node, variant, chainId string, c *cnode, err error) {
	r.out.Emit(r.commitLine(grp, node, variant, chainId, c, err))
}

func (r *runner) commitLine(grp, node, variant, chainId string, c *cnode, err error) tr.M {
	v := "ok"
	if err != nil {
		v = err.Error()
		if len(v) > 80 {
			v = v[:80]
		}
	}
	h := c.n.Chain.Head
	return tr.M{"ev": "Commit", "sid": r.sid, "grp": grp, "node": node, "variant": variant, "chain": chainId, "verdict": v,
		"h": h.Height(), "root": hx(h.Root().Bytes()[:8]), "idroot": hx(h.IdentityRoot().Bytes()[:8]),
		"post": statuses(r.p, c.n.App.State), "epoch": int(c.n.App.State.Epoch())}
}

// the chain whose data an evaluation at the epoch height works on (a2 is chain a with another epoch block)
func parentOf(chainId string) string {
	if chainId == "a2" {
		return "a"
	}
	return chainId
}

func variantOf(ns nodeSpec) string {
	if ns.VClass != "" {
		return ns.VClass
	}
	var parts []string
	for _, a := range ns.Hist {
		if a != "Add" {
			parts = append(parts, a)
		}
	}
	v := strings.Join(parts, "+")
	if v == "" {
		v = "plain"
	}
	if ns.Late {
		v += "+late"
	}
	return v
}

// run one node through its behaviour
func (r *runner) runNode(ns nodeSpec) {
	p := r.p
	g := r.group(ns.Layout)
	cur := "a"
	pos := 0 // number of slots of the current chain consumed
	endT := sim.Decode(g.chains["a"].blocks["Epoch"][0]).Header.Time()
	lateNow := func() {
		if ns.Late {
			// the node learns the blocks long after they were made (its own clock is days ahead of the block times)
			p.w.SetNow(endT + 3*86400 + int64(ns.Key)*1000)
		}
	}
	variant := variantOf(ns)
	// a refusal of the common history can only come from what distinguishes the node before its behaviour starts
	p.variant = "plain"
	if ns.Late {
		p.variant = "late-sync"
	}
	// the common history (first validation, preparation of the second): a live node's clock follows the blocks, a
	// late node learns them with its clock days ahead
	p.w.SetNow(0)
	lateNow()
	c := p.newNode(ns.Key, p.base)
	p.variant = "proposer"
	step := 0
	emitStep := func(act, slot string, err error) {
		step++
		s, l, h, e := c.vc.VerifStoreSizes()
		seen := 0 // answer hashes this node saw in its mempool during the short session (node-local observation)
		for k := 0; k < p.nk; k++ {
			if c.n.App.EvidenceMap.ContainsAnswer(p.addr(k)) {
				seen++
			}
		}
		m := tr.M{"seen": seen, "ev": "Step", "sid": r.sid, "grp": ns.Layout, "node": ns.Name, "variant": variant, "i": step, "act": act, "slot": slot, "chain": cur,
			"ok": err == nil, "store": []int{s, l, h, e}, "period": int(c.n.App.State.ValidationPeriod())}
		if err != nil {
			m["err"] = err.Error()
		}
		r.out.Emit(m)
	}
	flush := func(chainId, kind string) {
		for _, e := range c.evals {
			r.emitEval(ns.Layout, ns.Name, variant, chainId, kind, e)
		}
		c.evals = nil
	}
	nSlots := len(slotNames)
	for _, act := range ns.Hist {
		lateNow()
		switch act {
		case "Add":
			slot := slotNames[pos]
			ch := g.chains[cur]
			var err error
			for _, data := range ch.blocks[slot] {
				lateNow()
				if !ns.Late {
					// a node that is up during the ceremony hears of the transactions before they are in a block
					// (mempool -> NewTxEvent -> the evidence map's and the ceremony's own observations); a node that
					// synchronises later never does
					p.w.SetNow(c.n.Chain.Head.Time() + 5)
					for _, tx := range sim.Decode(data).Body.Transactions {
						_ = c.n.Pool.AddExternalTxs(validation.InboundTx, tx)
					}
				}
				if err = c.add(data); err != nil {
					break
				}
			}
			pos++
			emitStep("Add", slot, err)
			if slot == "Epoch" {
				flush(parentOf(cur), "add")
				r.emitCommit(ns.Layout, ns.Name, variant, cur, c, err)
			} else if err != nil {
				panic(fmt.Sprintf("node %s refused block of slot %s: %v", ns.Name, slot, err))
			}
		case "Restart":
			c.restart()
			emitStep("Restart", "", nil)
		case "Validate", "ValidateAlt":
			if pos != nSlots-1 {
				panic("Validate before the epoch height")
			}
			id := cur
			if act == "ValidateAlt" {
				id = "a2"
			}
			err := c.n.Validate(g.chains[id].blocks["Epoch"][0])
			emitStep(act, "Epoch", err)
			flush(parentOf(cur), "validate")
		case "Propose":
			if pos != nSlots-1 {
				panic("Propose before the epoch height")
			}
			if !ns.Late {
				p.w.SetNow(c.n.Chain.Head.Time() + 33)
			}
			blk := c.n.Chain.ProposeBlock([]byte{})
			var err error
			if blk == nil || !blk.Block.Header.Flags().HasFlag(types.ValidationFinished) {
				err = fmt.Errorf("own proposal does not finish the validation")
			}
			emitStep("Propose", "Epoch", err)
			flush(parentOf(cur), "propose")
		case "Switch":
			// the network's fork b wins: roll back to the fork point (real ResetTo, as the fork resolver does)
			if cur != "a" || pos <= slotIndex("A0") || pos > nSlots-1 {
				panic("Switch at a wrong position")
			}
			_, err := c.n.Chain.ResetTo(g.chains["a"].forkH)
			cur = "b"
			pos = slotIndex("A1")
			emitStep("Switch", "", err)
			if err != nil {
				panic(err)
			}
		case "Rollback":
			// the inserted epoch block loses against another block of the same height: roll it back
			if pos != nSlots {
				panic("Rollback before the epoch block")
			}
			_, err := c.n.Chain.ResetTo(g.chains[cur].epochH - 1)
			pos = nSlots - 1
			if cur == "a" {
				cur = "a2"
			}
			emitStep("Rollback", "", err)
			if err != nil {
				panic(err)
			}
		default:
			panic("unknown action " + act)
		}
	}
}

func main() {
	out := flag.String("out", "", "trace output")
	scen := flag.String("scenarios", "", "scenario file (json lines)")
	params := flag.String("params", "", "slots and layout table exported by TLC from CeremonyRun.tla")
	flag.Parse()
	defer sim.Cleanup()
	seed := tr.Seed()
	loadParams(*params)
	w := tr.Create(*out)
	defer w.Close()
	traceOut = w
	pops := map[int]*pop{}
	n := 0
	tr.ReadLines(*scen, func(raw []byte) {
		var sc scenario
		if err := json.Unmarshal(raw, &sc); err != nil {
			panic(err)
		}
		p := pops[sc.Pop]
		if p == nil {
			p = newPop(seed, sc.Pop)
			p.buildBase()
			pops[sc.Pop] = p
		}
		// the clock and the application config are process-global: make this population's current
		p.w.Use()
		r := &runner{p: p, out: w, sid: sc.Sid, grps: map[string]*group{}}
		w.Emit(tr.M{"ev": "Scenario", "sid": sc.Sid, "pop": sc.Pop, "beh": p.beh[1], "nodes": sc.Nodes, "multi": p.multi})
		for _, ns := range sc.Nodes {
			r.runNode(ns)
		}
		n++
	})
	fmt.Fprintf(os.Stderr, "scenarios=%d lines=%d\n", n, w.N)
}
