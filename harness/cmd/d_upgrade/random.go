package main

import (
	"fmt"
	"math/rand"
	"sort"

	"verifh/internal/tr"
)

// randomWorld drives one seeded history: a larger world (3..5 identities, any subset online, windows of a few thousand
// seconds that the chain walks through, a validation that may come close), clock jumps to the exact boundary seconds, honest
// and Byzantine votes to arbitrary subsets of nodes, restarts, nodes falling behind, crafted and forced blocks, probes.
func randomWorld(seed int64, i int, n int, out *tr.W, rnd *rand.Rand, st *runStats) {
	p := params{base: 10 + rnd.Intn(2), gen: rnd.Intn(3) != 0, nIds: 3 + rnd.Intn(3), statusR: uint64(3 + rnd.Intn(2))}
	switch rnd.Intn(10) {
	case 0:
		// nobody online: the god node mines alone, the fork committee is empty
	case 1:
		p.online = []int{1 + rnd.Intn(p.nIds-1)}
	default:
		for k := 0; k < p.nIds; k++ {
			if rnd.Intn(6) != 0 {
				p.online = append(p.online, k)
			}
		}
	}
	p.start = t0 + int64(rnd.Intn(1000))
	a := p.start + 400 + int64(rnd.Intn(1500))
	b := a + 600 + int64(rnd.Intn(3000))
	if p.base == 11 {
		// the window of version 11 is history
		a, b = p.start-5000, p.start-1000
	}
	c := p.start + 400 + int64(rnd.Intn(1500))
	if p.base == 10 {
		c = b + 1 + int64(rnd.Intn(1500))
	}
	d := c + 600 + int64(rnd.Intn(3000))
	p.win = map[int][2]int64{11: {a, b}, 12: {c, d}}
	p.ival = 3000
	p.vt = d + 1000000
	near := int64(0)
	if rnd.Intn(3) == 0 {
		// the validation comes close inside a window
		near = c + int64(rnd.Intn(int(d-c)))
		if p.base == 10 && rnd.Intn(2) == 0 {
			near = a + int64(rnd.Intn(int(b-a)))
		}
		p.vt = near + p.ival
	}
	w := newWorld(seed*100000+50000+int64(i), fmt.Sprintf("r%d", i), p, out, rnd, st)
	w.genesis("random")
	marks := []int64{a - 1, a, a + 1, b - 1, b, b + 1, c - 1, c, c + 1, d - 1, d, d + 1}
	if near > 0 {
		marks = append(marks, near-1, near, near+1)
	}
	sort.Slice(marks, func(x, y int) bool { return marks[x] < marks[y] })
	pick := func(xs []int) int { return xs[rnd.Intn(len(xs))] }
	nodeKeys := func() []int {
		res := []int{}
		for _, nd := range w.nodes {
			res = append(res, nd.key)
		}
		return res
	}
	subset := func(xs []int) []int {
		res := []int{}
		for _, x := range xs {
			if rnd.Intn(2) == 0 {
				res = append(res, x)
			}
		}
		if len(res) == 0 {
			res = []int{pick(xs)}
		}
		return res
	}
	// the validation period must never start: the history ends well before the lottery
	limit := p.vt - 2000
	for j := 0; j < n && w.now() < limit-200; j++ {
		behind := []int{}
		for _, nd := range w.nodes {
			if !nd.dead && nd.n.Chain.Head.Height() < w.tip() {
				behind = append(behind, nd.key)
			}
		}
		r := rnd.Intn(100)
		switch {
		case r < 14:
			// the next interesting instant, or a stretch of time
			var to int64
			for _, m := range marks {
				if m > w.now() {
					to = m
					break
				}
			}
			if to == 0 || rnd.Intn(4) == 0 {
				to = w.now() + 50 + int64(rnd.Intn(600))
			}
			if to < limit {
				w.tick(step{K: "at", T: int(to)})
			}
		case r < 24:
			// a campaign: every online identity casts an honest vote that reaches (almost) every node
			for _, k := range p.online {
				s := nodeKeys()
				if rnd.Intn(5) == 0 {
					s = subset(s)
				}
				w.vote(step{K: "vote", I: k, Hon: 1, S: s})
			}
		case r < 44:
			voter := rnd.Intn(p.nIds)
			if rnd.Intn(12) == 0 {
				voter = p.nIds + rnd.Intn(2) // a stranger
			}
			s := step{K: "vote", I: voter, Hon: 1, S: nodeKeys()}
			if rnd.Intn(3) == 0 {
				s.S = subset(nodeKeys())
			}
			if rnd.Intn(4) == 0 || voter >= p.nIds {
				s.Hon = 0
				s.B = []int{0, 0, 11, 12, 12, 13}[rnd.Intn(6)]
			}
			w.vote(s)
		case r < 48:
			w.persist(step{K: "persist", N: pick(nodeKeys())})
		case r < 55:
			w.restart(step{K: "restart", N: pick(nodeKeys())})
		case r < 61 && len(behind) > 0:
			w.deliver(step{K: "deliver", N: pick(behind)})
		case r < 64 && len(behind) > 0:
			w.crash(step{K: "crash", N: pick(behind), Ck: []string{"lost", "kept", "idx", "idx"}[rnd.Intn(4)], Ci: rnd.Intn(9)})
		case r < 68:
			w.probe(step{K: "probe", X: []interface{}{"pay", float64(10 + rnd.Intn(3))}})
		default:
			s := step{K: "round", P: rnd.Intn(p.nIds), Z: rnd.Intn(2)}
			if rnd.Intn(6) == 0 {
				s.C = []int{[]int{0, 11, 12, 12, 13}[rnd.Intn(5)], []int{-1, -1, 0, 1}[rnd.Intn(4)]}
				if rnd.Intn(3) == 0 {
					s.F = 1
				}
			}
			if len(behind) == 0 && len(w.chain) > 0 && rnd.Intn(12) == 0 {
				// the block just built is orphaned
				w.reorg(step{K: "reorg"})
			}
			if rnd.Intn(7) == 0 && len(w.synced()) > 1 {
				syn := []int{}
				for _, nd := range w.synced() {
					syn = append(syn, nd.key)
				}
				out := pick(syn)
				for _, k := range syn {
					if k != out {
						s.R = append(s.R, k)
					}
				}
			}
			w.round(s)
		}
	}
	w.tail()
	w.close()
}
