// d_upgrade drives real multi-node idena-go worlds through consensus upgrade voting, activation and the intermediate
// genesis and records one ndjson trace for validation against spec/Trace_Upgrade.tla (growth module "UPG" of C01).
//
// Every identity owns a real node with ITS OWN configuration object (Blockchain + AppState + TxPool + Upgrader + the real
// vote pool pengings.Votes feeding the upgrader); all nodes are on one chain, a node may be behind.  The steps of a
// schedule (exported by TLC from MC_Upgrade or drawn by the seeded generator):
//
//	tick     virtual time jumps (blockchain.go and upgrader.go read the harness clock); every node is queried right before
//	         and right at the new instant (Target / IsValidTargetVersion / UpgradeBits / CanUpgrade)
//	vote     a real signed types.Vote carrying Upgrade bits (what the voter's own node's UpgradeBits says, or - a stale or
//	         Byzantine voter - anything) goes through the real vote pool (Votes.AddVote -> Upgrader.ProcessVote) of the nodes
//	         it reaches; the upgrader's listener step runs synchronously (VerifDrain)
//	persist  the listener's tick of one node (VerifPersist)
//	restart  a node restarts over its database: fresh configuration object at the version of the configuration file,
//	         transformed by the stored consensus version the way main.go does, then the start-up sequence of node.go
//	round    one block: real ProposeBlock of the proposer (its own book decides about the Upgrade bits), or a block crafted
//	         by a malicious proposer (Upgrade bits / NewGenesis flag of its choosing); every synced node judges it through
//	         Upgrader.ValidateBlock, Blockchain.ValidateHeader, Blockchain.ValidateBlock and - when the proposer's sortition
//	         is valid - the validators' whole proposal path pengings.Proposals.AddProposedBlock; refused by a validator -> the
//	         round ends with the empty block, unless a Byzantine committee certifies the block anyway (force); the block is
//	         inserted (real AddBlock) by the nodes that are not left behind
//	deliver  a node that is behind receives its next block (AddBlock only)
//	probe    every synced node validates a block that is valid under one set of consensus rules only
//	crash    a node that is behind receives its next block and dies inside one of the durable writes of the insertion
//	         (crash-injecting database of C09), then starts again over what survived
//	reorg    the last block, which only some nodes inserted, is orphaned: the others commit the empty block at that height and
//	         the holders switch to it with Blockchain.ResetTo + AddBlock (what the fork resolver's applyFork does)
//
// Nothing of the node is re-implemented, with one exception that cannot be avoided: the six lines of main.go that derive
// the configuration from the stored consensus version live in an anonymous function of package main and are repeated in
// boot().  validation.SetAppConfig is process-global (one node = one process in production): the driver re-installs the
// configuration of the node it is about to call before EVERY call into a node, which is exactly what that node's own process
// would see.  The driver decides nothing about the property: all clauses are evaluated by TLC on the recorded trace.
package main

import (
	"crypto/sha256"
	"encoding/binary"
	"encoding/hex"
	"encoding/json"
	"flag"
	"fmt"
	"math/rand"
	"os"
	"sort"
	"time"

	"github.com/idena-network/idena-go/blockchain"
	"github.com/idena-network/idena-go/blockchain/attachments"
	"github.com/idena-network/idena-go/blockchain/types"
	"github.com/idena-network/idena-go/blockchain/validation"
	"github.com/idena-network/idena-go/common"
	"github.com/idena-network/idena-go/common/eventbus"
	"github.com/idena-network/idena-go/config"
	"github.com/idena-network/idena-go/core/appstate"
	"github.com/idena-network/idena-go/core/mempool"
	"github.com/idena-network/idena-go/core/state"
	"github.com/idena-network/idena-go/core/upgrade"
	"github.com/idena-network/idena-go/crypto"
	"github.com/idena-network/idena-go/database"
	"github.com/idena-network/idena-go/ipfs"
	"github.com/idena-network/idena-go/keystore"
	"github.com/idena-network/idena-go/pengings"
	"github.com/idena-network/idena-go/secstore"
	"github.com/idena-network/idena-go/stats/collector"
	"github.com/idena-network/idena-go/subscriptions"
	dbm "github.com/tendermint/tm-db"

	"verifh/internal/sim"
	"verifh/internal/tr"
)

// step is one environment choice of a schedule.
type step struct {
	K   string        `json:"k"`   // tick | vote | persist | restart | round | deliver | probe | reorg | crash | at
	T   int           `json:"t"`   // tick: the new tick;  at: absolute second (seeded generator only)
	I   int           `json:"i"`   // vote: voter key
	B   int           `json:"b"`   // vote: Upgrade bits
	Hon int           `json:"hon"` // vote: 1 = the bits are what the voter's own node computes (real UpgradeBits)
	S   []int         `json:"s"`   // vote: nodes the vote reaches
	N   int           `json:"n"`   // persist / restart / deliver: node key
	P   int           `json:"p"`   // round: proposer key
	C   []int         `json:"c"`   // round: [] = honest proposal; [upgrade bits, NewGenesis 0/1] = crafted
	F   int           `json:"f"`   // round: 1 = a Byzantine committee certifies a block validators refuse
	R   []int         `json:"r"`   // round: the nodes that insert the block now (nil = every synced node)
	X   []interface{} `json:"x"`   // probe: [kind, rules version]
	Ck  string        `json:"ck"`  // crash: "lost" = the process dies in the first durable write of the insertion, "kept" = in the first write after the
	//                             block became the head (stored consensus version / intermediate genesis), "idx" = in durable write number Ci
	Ci  int           `json:"ci"`  // crash: write index for "idx"
	Z   int           `json:"z"`   // round: 1 = the clock stays where it is when the block time allows (seeded generator only)
}

type scenario struct {
	Kind  string `json:"kind"`
	Base  int    `json:"base"`
	Gen   bool   `json:"gen"`
	Vn    int    `json:"vn"`
	Steps []step `json:"steps"`
}

const (
	t0      = int64(1000000) // second of tick 0
	tickLen = int64(100000)
	vtTick  = 30 // the next validation is far beyond every schedule
)

func sec(t int) int64 { return t0 + int64(t)*tickLen }

type params struct {
	base    int   // consensus version of the configuration file
	gen     bool  // GenerateGenesisAfterUpgrade
	nIds    int   // identities = nodes (key 0 is the god address)
	online  []int // identities that go online in the prefix
	win     map[int][2]int64
	vt      int64 // first ceremony time
	ival    int64 // UpgradeIntervalBeforeValidation (seconds)
	start   int64 // wall clock at the start of the world
	statusR uint64
}

type node struct {
	key   int
	cdb   *sim.CrashDB // the node's durable store; every incarnation of the node sees it through its own handle
	n     *sim.Node
	votes *pengings.Votes
	repo  *database.Repo
	dead  bool // refused a canonical block: nothing more is delivered to it
}

type world struct {
	w      *sim.World
	p      params
	rnd    *rand.Rand
	out    *tr.W
	hid    string
	nodes  []*node // index = key
	chain  [][]byte
	h0     uint64 // height of the last prefix block
	stats  *runStats
	voteNo uint64
}

type runStats struct {
	worlds, blocks, votes, persists, restarts, offers, crafted, forced, refused, upgrades, newgen, delivers, probes, queries, full, lagged int
	secondUpg, empty, reorgs, crashes, crashKept                                                                                    int
}

func (w *world) now() int64 { return w.w.Clock.Ticks() }
func (w *world) setNow(t int64) {
	if t < w.now() {
		panic(fmt.Sprintf("clock would go back: %d -> %d", w.now(), t))
	}
	w.w.SetNow(t)
}

// use installs the configuration of the node about to be called as the process-wide validation configuration (in
// production every node is a process of its own).
func use(nd *node) { validation.SetAppConfig(nd.n.Cfg) }

// consAt builds a fresh consensus configuration at version v the way a configuration file + main.go produce it.
func (w *world) consAt(v int) *config.ConsensusConf {
	cons := *config.GetDefaultConsensusConfig()
	for x := config.ConsensusV10; x <= config.ConsensusVerson(v); x++ {
		config.ApplyConsensusVersion(x, &cons)
	}
	cons.Automine = true
	cons.StatusSwitchRange = w.p.statusR
	cons.DelegationSwitchRange = 50
	cons.DiscriminationSwitchRange = 50
	cons.SnapshotRange = 1000000
	cons.GenerateGenesisAfterUpgrade = w.p.gen
	cons.UpgradeIntervalBeforeValidation = time.Duration(w.p.ival) * time.Second
	cons.MigrationTimeout = 0
	return &cons
}

func (w *world) baseConfig() *config.Config {
	alloc := map[common.Address]config.GenesisAllocation{}
	for _, a := range w.w.Allocs {
		alloc[w.w.Addrs[a.Key]] = config.GenesisAllocation{Balance: a.Balance, Stake: a.Stake, State: uint8(a.State)}
	}
	return &config.Config{
		Network:   0x99,
		Consensus: w.consAt(w.p.base),
		GenesisConf: &config.GenesisConf{
			Alloc:             alloc,
			GodAddress:        w.w.Addrs[w.w.God],
			FirstCeremonyTime: w.p.vt,
		},
		Validation:       &config.ValidationConfig{},
		Blockchain:       &config.BlockchainConfig{},
		OfflineDetection: config.GetDefaultOfflineDetectionConfig(),
		Mempool:          config.GetDefaultMempoolConfig(),
	}
}

// boot starts a node process over db: configuration file -> main.go's transformation by the stored consensus version ->
// node.go's constructors -> node.Start's sequence (InitializeChain, appState.Initialize, EnsureIntegrity, txpool, vote pool,
// ... , Upgrader.Start = restore [+ the listener, whose steps the harness schedules]).
func (w *world) boot(key int, db dbm.DB, store ipfs.Proxy, forceVersion int) *node {
	cfg := w.baseConfig()
	repo := database.NewRepo(db)
	// main.go (anonymous cfgTransform): the stored consensus version transforms the configuration
	if consVersion := repo.ReadConsensusVersion(); consVersion > uint32(cfg.Consensus.Version) {
		for v := cfg.Consensus.Version + 1; v <= config.ConsensusVerson(consVersion); v++ {
			config.ApplyConsensusVersion(v, cfg.Consensus)
		}
	}
	validation.SetAppConfig(cfg)
	n := &sim.Node{W: w.w, Key: key, DB: db, Cfg: cfg}
	n.Bus = eventbus.New()
	app, err := appstate.NewAppState(db, n.Bus)
	if err != nil {
		panic(err)
	}
	n.App = app
	n.Sec = secstore.NewSecStore()
	n.Sec.AddKey(crypto.FromECDSA(w.w.Keys[key]))
	n.Offline = blockchain.NewOfflineDetector(cfg, db, app, n.Sec, n.Bus)
	n.Upgrader = upgrade.NewUpgrader(cfg, app, db)
	votes := pengings.NewVotes(app, n.Bus, n.Offline, n.Upgrader)
	n.Pool = mempool.NewTxPool(app, n.Bus, cfg, collector.NewStatsCollector())
	ks := keystore.NewKeyStore("./testdata", keystore.StandardScryptN, keystore.StandardScryptP)
	sub, _ := subscriptions.NewManager("./testdata2")
	if store == nil {
		store = ipfs.NewMemoryIpfsProxy()
	}
	n.Ipfs = store
	n.Chain = blockchain.NewBlockchain(cfg, db, n.Pool, app, store, n.Sec, n.Bus, n.Offline, ks, sub, n.Upgrader)
	if err := n.Chain.InitializeChain(); err != nil {
		panic(err)
	}
	if err := app.Initialize(n.Chain.Head.Height()); err != nil {
		if err := app.Initialize(0); err != nil {
			panic(err)
		}
	}
	if err := n.Chain.EnsureIntegrity(); err != nil {
		panic(err)
	}
	n.Pool.Initialize(n.Chain.Head, n.Sec.GetAddress(), false)
	votes.Initialize(n.Chain.Head)
	n.Upgrader.VerifRestore()
	if forceVersion > 0 {
		// an ATTACKER's node: whatever it stored, it runs the rules of the given version
		*cfg.Consensus = *w.consAt(forceVersion)
	}
	return &node{key: key, n: n, votes: votes, repo: repo}
}

func newWorld(seed int64, hid string, p params, out *tr.W, rnd *rand.Rand, st *runStats) *world {
	sw := sim.NewWorld(seed, p.nIds+3)
	sts := []state.IdentityState{state.Verified, state.Human, state.Verified, state.Human, state.Verified, state.Human}
	for i := 0; i < p.nIds; i++ {
		sw.Allocs = append(sw.Allocs, sim.Alloc{Key: i, State: sts[i%len(sts)], Balance: sim.Dna(int64(6000+rnd.Intn(2000)), 1), Stake: sim.Dna(int64(500+rnd.Intn(400)), 1)})
	}
	w := &world{w: sw, p: p, rnd: rnd, out: out, hid: hid, stats: st}
	// the activation windows are process-global in the repository (config.ConsensusVersions): one world at a time
	for v, se := range p.win {
		config.ConsensusVersions[config.ConsensusVerson(v)].StartActivationDate = se[0]
		config.ConsensusVersions[config.ConsensusVerson(v)].EndActivationDate = se[1]
	}
	sw.Clock.Advance(p.start - sw.Clock.Ticks())
	for k := 0; k < p.nIds; k++ {
		cdb := sim.NewCrashDB(dbm.NewMemDB())
		nd := w.boot(k, cdb.NewHandle(), nil, 0)
		nd.cdb = cdb
		w.nodes = append(w.nodes, nd)
	}
	st.worlds++
	w.prefix()
	return w
}

func (w *world) close() {
	for _, nd := range w.nodes {
		nd.n.Close()
	}
}

// ---------------------------------------------------------------------------------------------
// chain helpers

func (w *world) tip() uint64 { return w.h0 + uint64(len(w.chain)) }

func (w *world) synced() []*node {
	res := []*node{}
	for _, nd := range w.nodes {
		if !nd.dead && nd.n.Chain.Head.Height() == w.tip() {
			res = append(res, nd)
		}
	}
	return res
}

func (w *world) ref() *node {
	s := w.synced()
	if len(s) == 0 {
		panic("no synced node")
	}
	return s[0]
}

func has(xs []int, x int) bool {
	for _, y := range xs {
		if x == y {
			return true
		}
	}
	return false
}

// judge runs a validation entry point: 1 = accepted, 0 = refused, 2 = it panicked.
func judge(f func() error) (res int, msg string) {
	defer func() {
		if r := recover(); r != nil {
			res, msg = 2, fmt.Sprint("panic: ", r)
		}
	}()
	if err := f(); err != nil {
		return 0, err.Error()
	}
	return 1, ""
}

// add inserts a block (bytes) into a node with the wall clock not before the block time.
func (w *world) add(nd *node, data []byte) (int, string) {
	b := sim.Decode(data)
	if t := b.Header.Time() + 1; w.now() < t {
		w.setNow(t)
	}
	use(nd)
	return judge(func() error { return nd.n.Chain.AddBlock(b, nil, collector.NewStatsCollector()) })
}

func (w *world) eligible(nd *node) []int {
	res := []int{}
	vc := nd.n.App.ValidatorsCache
	for k := 0; k < w.p.nIds; k++ {
		if vc.IsOnlineIdentity(w.w.Addrs[k]) || (k == w.w.God && vc.OnlineSize() == 0) {
			res = append(res, k)
		}
	}
	return res
}

// prefix: the identities go online (OnlineStatusTx through the god node's real mempool, the status switch block applies
// them); every node follows.  Afterwards the world is at height h0 and the trace begins (Genesis line).
func (w *world) prefix() {
	god := w.nodes[w.w.God]
	block := func() {
		w.setNow(w.now() + 15)
		el := w.eligible(god)
		if len(el) == 0 {
			panic("prefix: nobody may propose")
		}
		pn := w.nodes[el[0]]
		if has(el, w.w.God) {
			pn = god
		}
		use(pn)
		blk := pn.n.Chain.ProposeBlock([]byte{}).Block
		data := sim.Encode(blk)
		for _, nd := range w.nodes {
			if r, msg := w.add(nd, data); r != 1 {
				panic("prefix block refused: " + msg)
			}
		}
	}
	for _, k := range w.p.online {
		t := w.w.Tx(sim.TxSpec{From: k, Type: types.OnlineStatusTx, MaxFee: sim.Dna(50, 1), Nonce: 1, Epoch: 0, Payload: attachments.CreateOnlineStatusAttachment(true)})
		use(god)
		if err := god.n.Pool.AddExternalTxs(validation.InboundTx, t); err != nil {
			panic("prefix tx refused: " + err.Error())
		}
	}
	block()
	for i := 0; i < 2*int(w.p.statusR)+2; i++ {
		on := 0
		for _, k := range w.p.online {
			if god.n.App.ValidatorsCache.IsOnlineIdentity(w.w.Addrs[k]) {
				on++
			}
		}
		if on == len(w.p.online) && i > 0 {
			break
		}
		block()
	}
	for _, k := range w.p.online {
		if !god.n.App.ValidatorsCache.IsOnlineIdentity(w.w.Addrs[k]) {
			panic("prefix: identity did not get online")
		}
	}
	w.h0 = god.n.Chain.Head.Height()
}

// ---------------------------------------------------------------------------------------------
// observation

func short(b []byte) string { return hex.EncodeToString(b[:4]) }

func (w *world) idx(a common.Address) int {
	if i := w.w.Index(a); i >= 0 {
		return i
	}
	return 99
}

func (w *world) bookOf(m map[common.Address]uint32) [][]int {
	res := [][]int{}
	for a, b := range m {
		res = append(res, []int{w.idx(a), int(b)})
	}
	sort.Slice(res, func(i, j int) bool { return res[i][0] < res[j][0] })
	return res
}

// elig: the online, non-discriminated identities as the node's validators cache reports them (the fork committee).
func (w *world) elig(nd *node) []int {
	res := []int{}
	vc := nd.n.App.ValidatorsCache
	for k := 0; k < len(w.w.Addrs); k++ {
		if vc.IsOnlineIdentity(w.w.Addrs[k]) && !vc.IsDiscriminated(w.w.Addrs[k]) {
			res = append(res, k)
		}
	}
	return res
}

func b2i(b bool) int {
	if b {
		return 1
	}
	return 0
}

// proj: what the property speaks about, per node.
func (w *world) proj(nd *node) tr.M {
	n := nd.n
	c := n.Cfg.Consensus
	gi := n.Chain.GenesisInfo()
	cur, old := uint64(0), uint64(0)
	curH, oldH := "", ""
	if gi != nil && gi.Genesis != nil {
		cur = gi.Genesis.Height()
		hh := gi.Genesis.Hash()
		curH = short(hh[:])
	}
	if gi != nil && gi.OldGenesis != nil {
		old = gi.OldGenesis.Height()
		hh := gi.OldGenesis.Hash()
		oldH = short(hh[:])
	}
	pb := [][]int{}
	if v := nd.repo.ReadUpgradeVotes(); v != nil {
		pb = w.bookOf(v.Dict)
	}
	hh := n.Chain.Head.Hash()
	return tr.M{"n": nd.key, "h": n.Chain.Head.Height(), "hash": short(hh[:]), "ver": int(c.Version), "e10": c.EnableUpgrade10, "e11": c.EnableUpgrade11,
		"e12": c.EnableUpgrade12, "gen": c.GenerateGenesisAfterUpgrade, "stored": nd.repo.ReadConsensusVersion(), "cur": cur, "old": old, "curh": curH, "oldh": oldH,
		"inter": nd.repo.ReadIntermediateGenesis(), "book": w.bookOf(n.Upgrader.VerifBook()), "pbook": pb, "target": int(n.Upgrader.Target()), "dead": nd.dead}
}

func (w *world) states() []tr.M {
	res := []tr.M{}
	for _, nd := range w.nodes {
		res = append(res, w.proj(nd))
	}
	return res
}

func (w *world) genesis(kind string) {
	win := [][]int64{}
	for _, v := range []int{11, 12} {
		win = append(win, []int64{int64(v), w.p.win[v][0], w.p.win[v][1]})
	}
	ids := []int{}
	for k := 0; k < w.p.nIds; k++ {
		ids = append(ids, k)
	}
	w.out.Emit(tr.M{"ev": "Genesis", "hid": w.hid, "kind": kind, "base": w.p.base, "gen": w.p.gen, "top": int(upgrade.TargetVersion), "ival": w.p.ival, "vt": w.p.vt,
		"win": win, "ids": ids, "online": w.p.online, "h0": w.h0, "t": w.now(), "sts": w.states()})
}

// query asks every node what its upgrader says right now.
func (w *world) query(tag string) {
	qs := []interface{}{}
	for _, nd := range w.nodes {
		use(nd)
		u := nd.n.Upgrader
		var target, bits int
		var valid, can bool
		r, msg := judge(func() error {
			target, bits, valid, can = int(u.Target()), int(u.UpgradeBits()), u.IsValidTargetVersion(), u.CanUpgrade()
			return nil
		})
		qs = append(qs, []interface{}{nd.key, r, target, bits, b2i(valid), b2i(can), w.elig(nd), nd.n.App.State.NextValidationTime().Unix(),
			nd.n.App.ValidatorsCache.ForkCommitteeSize(), msg})
		w.stats.queries++
	}
	w.out.Emit(tr.M{"ev": "Query", "hid": w.hid, "tag": tag, "now": w.now(), "qs": qs, "sts": w.states()})
}

// ---------------------------------------------------------------------------------------------
// steps

func (w *world) tick(st step) {
	to := sec(st.T)
	if st.K == "at" {
		to = int64(st.T)
	}
	if to <= w.now() {
		return
	}
	if to-1 > w.now() {
		w.setNow(to - 1)
		w.query("before")
	}
	w.setNow(to)
	w.query("at")
}

func (w *world) mkVote(k int, bits uint32) *types.Vote {
	head := w.ref().n.Chain.Head
	w.voteNo++
	var x [8]byte
	binary.BigEndian.PutUint64(x[:], w.voteNo)
	vote := &types.Vote{Header: &types.VoteHeader{Round: head.Height() + 1, Step: types.Final, ParentHash: head.Hash(),
		VotedHash: common.Hash(sha256.Sum256(x[:])), Upgrade: bits}}
	h := crypto.SignatureHash(vote)
	sig, err := crypto.Sign(h[:], w.w.Keys[k])
	if err != nil {
		panic(err)
	}
	vote.Signature = sig
	return vote
}

func (w *world) vote(st step) {
	if st.I < 0 || st.I >= len(w.w.Keys) {
		return
	}
	bits := uint32(st.B)
	if st.Hon == 1 && st.I < len(w.nodes) {
		vn := w.nodes[st.I]
		use(vn)
		bits = vn.n.Upgrader.UpgradeBits() // what engine.vote writes into an honest vote
	}
	v := w.mkVote(st.I, bits)
	data, err := v.ToBytes()
	if err != nil {
		panic(err)
	}
	to := []interface{}{}
	for _, nd := range w.nodes {
		if !has(st.S, nd.key) {
			continue
		}
		cp := new(types.Vote)
		if err := cp.FromBytes(data); err != nil {
			panic(err)
		}
		use(nd)
		adm := false
		r, msg := judge(func() error {
			adm = nd.votes.AddVote(cp)
			nd.n.Upgrader.VerifDrain()
			return nil
		})
		to = append(to, []interface{}{nd.key, b2i(adm), r, msg})
	}
	w.stats.votes++
	w.out.Emit(tr.M{"ev": "Vote", "hid": w.hid, "i": st.I, "bits": int(bits), "hon": st.Hon, "now": w.now(), "to": to, "sts": w.states()})
}

func (w *world) persist(st step) {
	if st.N < 0 || st.N >= len(w.nodes) {
		return
	}
	nd := w.nodes[st.N]
	use(nd)
	nd.n.Upgrader.VerifPersist()
	w.stats.persists++
	w.out.Emit(tr.M{"ev": "Persist", "hid": w.hid, "n": st.N, "now": w.now(), "sts": w.states()})
}

func (w *world) restart(st step) {
	if st.N < 0 || st.N >= len(w.nodes) {
		return
	}
	old := w.nodes[st.N]
	var nd *node
	r, msg := judge(func() error {
		nd = w.boot(old.key, old.cdb.NewHandle(), old.n.Ipfs, 0)
		nd.cdb = old.cdb
		return nil
	})
	if r != 1 {
		w.out.Emit(tr.M{"ev": "Restart", "hid": w.hid, "n": st.N, "now": w.now(), "res": r, "msg": msg, "sts": w.states()})
		old.dead = true
		return
	}
	nd.dead = old.dead
	old.n.Close()
	w.nodes[st.N] = nd
	w.stats.restarts++
	w.out.Emit(tr.M{"ev": "Restart", "hid": w.hid, "n": st.N, "now": w.now(), "res": 1, "msg": "", "sts": w.states()})
}

func blockRec(b *types.Block) tr.M {
	upg := 0
	if b.Header.ProposedHeader != nil {
		upg = int(b.Header.ProposedHeader.Upgrade)
	}
	hh := b.Hash()
	return tr.M{"h": b.Height(), "upg": upg, "ng": b.Header.Flags().HasFlag(types.NewGenesis), "empty": b.IsEmpty(), "t": b.Header.Time(), "flags": int(b.Header.Flags()),
		"hash": short(hh[:])}
}

func (w *world) round(st step) {
	syn := w.synced()
	if len(syn) == 0 {
		return
	}
	if w.now() < w.ref().n.Chain.Head.Time()+11 {
		w.setNow(w.ref().n.Chain.Head.Time() + 11 + int64(w.rnd.Intn(9)))
	} else if st.Z == 1 {
		// the proposal is made at this very second
	} else {
		w.setNow(w.now() + 1 + int64(w.rnd.Intn(9)))
	}
	// proposer: the named node when it is synced and may propose, else any synced node that may
	var pn *node
	el := w.eligible(syn[0])
	for _, nd := range syn {
		if nd.key == st.P && has(el, nd.key) {
			pn = nd
		}
	}
	if pn == nil {
		for _, nd := range syn {
			if has(el, nd.key) {
				pn = nd
				break
			}
		}
	}
	height := w.tip() + 1
	honest := len(st.C) != 2
	var blk *types.Block
	adopted, forced := false, false
	if pn != nil {
		use(pn)
		sortOk, proof := pn.n.Chain.GetProposerSortition()
		if !sortOk {
			proof = []byte{}
		}
		pbook := w.bookOf(pn.n.Upgrader.VerifBook())
		if honest {
			blk = pn.n.Chain.ProposeBlock(proof).Block
		} else {
			w.stats.crafted++
			bt := pn.n.Chain.Head.Time() + 10
			if w.now() > bt {
				bt = w.now()
			}
			b, err := pn.n.Chain.VerifCraftUpgradeBlock(nil, bt, uint32(st.C[0]), st.C[1])
			if err != nil {
				panic("craft: " + err.Error())
			}
			blk = b
		}
		data := sim.Encode(blk)
		verd := []interface{}{}
		msgs := []string{}
		note := func(m string) {
			if m[len(m)-2:] != ": " && !hasStr(msgs, m) && len(msgs) < 8 {
				msgs = append(msgs, m)
			}
		}
		allProp, allChain := true, true
		for _, nd := range syn {
			use(nd)
			u, uMsg := judge(func() error { return nd.n.Upgrader.ValidateBlock(sim.Decode(data)) })
			hd, hMsg := judge(func() error { return nd.n.Chain.ValidateHeader(sim.Decode(data).Header, nd.n.Chain.Head) })
			c, cMsg := judge(func() error {
				_, err := nd.n.Chain.ValidateBlock(sim.Decode(data), nil, collector.NewStatsCollector())
				return err
			})
			full, fMsg := -1, ""
			if sortOk {
				full, fMsg = judge(func() error {
					props, _ := pengings.NewProposals(nd.n.Chain, nd.n.App, nd.n.Offline, nd.n.Upgrader, collector.NewStatsCollector())
					added, pending := props.AddProposedBlock(&types.BlockProposal{Block: sim.Decode(data), Proof: proof}, "", w.w.Clock.Now())
					if !added {
						return fmt.Errorf("not added (pending %v)", pending)
					}
					return nil
				})
				w.stats.full++
			}
			var can bool
			var bits int
			judge(func() error {
				can, bits = nd.n.Upgrader.CanUpgrade(), int(nd.n.Upgrader.UpgradeBits())
				return nil
			})
			if u != 1 || hd != 1 {
				allProp = false
			}
			if c != 1 {
				allChain = false
			}
			note("upgrader: " + uMsg)
			note("header: " + hMsg)
			note("chain: " + cMsg)
			if full == 2 {
				note("proposals: " + fMsg)
			}
			verd = append(verd, []interface{}{nd.key, u, hd, c, full, w.elig(nd), nd.n.App.State.NextValidationTime().Unix(), b2i(can), bits,
				nd.n.App.ValidatorsCache.ForkCommitteeSize()})
		}
		adopted = allProp && allChain
		if !adopted && st.F == 1 && allChain {
			adopted, forced = true, true
			w.stats.forced++
		}
		if !adopted {
			w.stats.refused++
		}
		w.stats.offers++
		prev := w.ref().n.Chain.Head
		prevUpg := 0
		if prev.ProposedHeader != nil {
			prevUpg = int(prev.ProposedHeader.Upgrade)
		}
		w.out.Emit(tr.M{"ev": "Offer", "hid": w.hid, "p": pn.key, "honest": honest, "blk": blockRec(blk), "now": w.now(), "verd": verd, "adopt": adopted, "forced": forced,
			"pbook": pbook, "prevupg": prevUpg, "msgs": msgs, "sortok": sortOk})
		if !adopted {
			blk = nil
		}
	}
	if blk == nil {
		use(w.ref())
		blk = w.ref().n.Chain.GenerateEmptyBlock()
		w.stats.empty++
	}
	data := sim.Encode(blk)
	w.chain = append(w.chain, data)
	ins := []interface{}{}
	lag := false
	for _, nd := range syn {
		if st.R != nil && !has(st.R, nd.key) && (pn == nil || nd.key != pn.key) && len(syn) > 1 {
			lag = true
			continue
		}
		r, msg := w.add(nd, data)
		if r != 1 {
			nd.dead = true
		}
		ins = append(ins, []interface{}{nd.key, r, msg})
	}
	if lag {
		w.stats.lagged++
	}
	w.stats.blocks++
	rec := blockRec(blk)
	if rec["upg"].(int) > 0 {
		w.stats.upgrades++
	}
	if rec["ng"].(bool) {
		w.stats.newgen++
	}
	w.out.Emit(tr.M{"ev": "Block", "hid": w.hid, "h": height, "blk": rec, "honest": honest, "forced": forced, "now": w.now(), "ins": ins, "sts": w.states()})
}

func hasStr(xs []string, x string) bool {
	for _, y := range xs {
		if x == y {
			return true
		}
	}
	return false
}

func (w *world) deliver(st step) {
	if st.N < 0 || st.N >= len(w.nodes) {
		return
	}
	nd := w.nodes[st.N]
	h := nd.n.Chain.Head.Height()
	if nd.dead || h >= w.tip() {
		return
	}
	data := w.chain[h-w.h0]
	r, msg := w.add(nd, data)
	if r != 1 {
		nd.dead = true
	}
	w.stats.delivers++
	w.out.Emit(tr.M{"ev": "Deliver", "hid": w.hid, "n": st.N, "h": h + 1, "blk": blockRec(sim.Decode(data)), "res": r, "msg": msg, "now": w.now(), "sts": w.states()})
}

// probe: a block that is valid under ONE set of consensus rules only (it carries a transaction with a 4 KiB payload, which
// the rules admit from version 11 on), built by an attacker's node running the rules of version r on a copy of a synced
// node's database, judged by every synced node (ValidateBlock, nothing is inserted).
func (w *world) probe(st step) {
	if len(st.X) != 2 {
		return
	}
	kind, _ := st.X[0].(string)
	rf, _ := st.X[1].(float64)
	r := int(rf)
	syn := w.synced()
	if len(syn) == 0 || kind != "pay" {
		return
	}
	el := w.eligible(syn[0])
	if len(el) == 0 {
		return
	}
	att := w.boot(el[0], sim.CopyDB(syn[0].n.DB), nil, r)
	defer att.n.Close()
	if w.now() < att.n.Chain.Head.Time()+11 {
		w.setNow(att.n.Chain.Head.Time() + 11)
	}
	use(att)
	s := att.n.App.State
	a := w.w.Addrs[el[0]]
	nonce := s.GetNonce(a) + 1
	if s.GetEpoch(a) < s.Epoch() {
		nonce = 1
	}
	to := w.w.Addrs[w.p.nIds]
	tx := w.w.Tx(sim.TxSpec{From: el[0], To: &to, Type: types.SendTx, Amount: sim.Dna(1, 1), MaxFee: sim.Dna(2000, 1), Nonce: nonce, Epoch: s.Epoch(),
		Payload: make([]byte, 4096)})
	var blk *types.Block
	var err error
	if res, msg := judge(func() error {
		blk, err = att.n.Chain.VerifCraftUpgradeBlock([]*types.Transaction{tx}, w.now(), 0, -1)
		return err
	}); res == 2 {
		panic("probe: " + msg)
	}
	w.stats.probes++
	if err != nil {
		w.out.Emit(tr.M{"ev": "Probe", "hid": w.hid, "k": kind, "r": r, "built": false, "msg": err.Error(), "msgs": []string{}, "now": w.now(), "verd": []interface{}{}, "sts": w.states()})
		return
	}
	data := sim.Encode(blk)
	verd := []interface{}{}
	msgs := []string{}
	for _, nd := range syn {
		use(nd)
		c, msg := judge(func() error {
			_, err := nd.n.Chain.ValidateBlock(sim.Decode(data), nil, collector.NewStatsCollector())
			return err
		})
		verd = append(verd, []interface{}{nd.key, c})
		if msg != "" && !hasStr(msgs, msg) && len(msgs) < 4 {
			msgs = append(msgs, msg)
		}
	}
	w.out.Emit(tr.M{"ev": "Probe", "hid": w.hid, "k": kind, "r": r, "built": true, "msg": "", "msgs": msgs, "now": w.now(), "verd": verd, "sts": w.states()})
}

// reorg: the last block of the chain was inserted by some nodes only (the others are one block behind); the rest of the
// network commits ANOTHER block at that height instead - the empty block of a round that timed out for them - and the
// holders of the orphaned block switch to it the way the fork resolver does: Blockchain.ResetTo(common height), then AddBlock
// of the fork's blocks.
func (w *world) reorg(st step) {
	if len(w.chain) == 0 {
		return
	}
	tip := w.tip()
	holders, behind := []*node{}, []*node{}
	for _, nd := range w.nodes {
		if nd.dead {
			continue
		}
		switch nd.n.Chain.Head.Height() {
		case tip:
			holders = append(holders, nd)
		case tip - 1:
			behind = append(behind, nd)
		}
	}
	if len(holders) == 0 || len(behind) == 0 {
		return
	}
	orphan := blockRec(sim.Decode(w.chain[len(w.chain)-1]))
	use(behind[0])
	alt := behind[0].n.Chain.GenerateEmptyBlock()
	data := sim.Encode(alt)
	w.chain[len(w.chain)-1] = data
	ins := []interface{}{}
	for _, nd := range behind {
		r, msg := w.add(nd, data)
		if r != 1 {
			nd.dead = true
		}
		ins = append(ins, []interface{}{nd.key, r, msg, 0})
	}
	for _, nd := range holders {
		use(nd)
		r, msg := judge(func() error {
			if _, err := nd.n.Chain.ResetTo(tip - 1); err != nil {
				return err
			}
			return nil
		})
		if r == 1 {
			r, msg = w.add(nd, data)
		}
		if r != 1 {
			nd.dead = true
		}
		ins = append(ins, []interface{}{nd.key, r, msg, 1})
	}
	w.stats.reorgs++
	w.out.Emit(tr.M{"ev": "Reorg", "hid": w.hid, "h": tip, "orphan": orphan, "blk": blockRec(alt), "now": w.now(), "ins": ins, "sts": w.states()})
}

// crash: a node that is behind receives its next block and its process dies inside one of the durable writes of the
// insertion (sim.CrashDB: the write and everything after it is lost); the node is then started again over what survived.
func (w *world) crash(st step) {
	if st.N < 0 || st.N >= len(w.nodes) {
		return
	}
	nd := w.nodes[st.N]
	h := nd.n.Chain.Head.Height()
	if nd.dead || h >= w.tip() {
		return
	}
	data := w.chain[h-w.h0]
	blk := sim.Decode(data)
	rec := blockRec(blk)
	switch st.Ck {
	case "lost":
		nd.cdb.Arm(0)
	case "kept":
		switch {
		case rec["upg"].(int) > 0:
			nd.cdb.ArmKind("ConsVer", 1)
		case rec["ng"].(bool):
			nd.cdb.ArmKind("IGenesis", 1)
		default:
			return
		}
	default:
		nd.cdb.Arm(st.Ci)
	}
	r, msg := w.add(nd, data)
	died := nd.cdb.Dead()
	lost := ""
	if nd.cdb.Lost != nil {
		lost = nd.cdb.Lost.K
	}
	wi := nd.cdb.Count()
	nd.cdb.Disarm()
	if !died {
		// the armed write never came (a block that writes neither version nor genesis, an index beyond the last write): an
		// ordinary delivery
		if r != 1 {
			nd.dead = true
		}
		w.stats.delivers++
		w.out.Emit(tr.M{"ev": "Deliver", "hid": w.hid, "n": st.N, "h": h + 1, "blk": rec, "res": r, "msg": msg, "now": w.now(), "sts": w.states()})
		return
	}
	var nn *node
	r2, msg2 := judge(func() error {
		nn = w.boot(nd.key, nd.cdb.NewHandle(), nd.n.Ipfs, 0)
		nn.cdb = nd.cdb
		return nil
	})
	w.stats.crashes++
	if r2 != 1 {
		nd.dead = true
		w.out.Emit(tr.M{"ev": "Crash", "hid": w.hid, "n": st.N, "h": h + 1, "blk": rec, "ck": st.Ck, "wi": wi, "lost": lost, "res": r2, "msg": msg2, "kept": false, "now": w.now(), "sts": w.states()})
		return
	}
	nd.n.Close()
	w.nodes[st.N] = nn
	kept := nn.n.Chain.Head.Height() == h+1
	if kept {
		w.stats.crashKept++
	}
	w.out.Emit(tr.M{"ev": "Crash", "hid": w.hid, "n": st.N, "h": h + 1, "blk": rec, "ck": st.Ck, "wi": wi, "lost": lost, "res": 1, "msg": "", "kept": kept, "now": w.now(), "sts": w.states()})
}

func (w *world) exec(steps []step) {
	for _, st := range steps {
		switch st.K {
		case "tick", "at":
			w.tick(st)
		case "vote":
			w.vote(st)
		case "persist":
			w.persist(st)
		case "restart":
			w.restart(st)
		case "round":
			w.round(st)
		case "deliver":
			w.deliver(st)
		case "probe":
			w.probe(st)
		case "reorg":
			w.reorg(st)
		case "crash":
			w.crash(st)
		default:
			panic("unknown step " + st.K)
		}
	}
}

// tail: what is pending materialises - nodes that are behind catch up, two more blocks are built.
func (w *world) tail() {
	for _, nd := range w.nodes {
		for i := 0; i < len(w.chain)+1 && !nd.dead && nd.n.Chain.Head.Height() < w.tip(); i++ {
			w.deliver(step{K: "deliver", N: nd.key})
		}
	}
	for i := 0; i < 2; i++ {
		w.round(step{K: "round", P: w.rnd.Intn(w.p.nIds)})
	}
}

// modelParams: the world of a schedule exported by MC_Upgrade (3 identities, all online; version 11 may be activated in ticks
// 1..2, version 12 in ticks 3..4; the last tick far enough from the validation is vn).
func modelParams(sc scenario) params {
	p := params{base: sc.Base, gen: sc.Gen, nIds: 3, online: []int{0, 1, 2}, statusR: 3}
	p.win = map[int][2]int64{11: {sec(1), sec(3) - 1}, 12: {sec(3), sec(5) - 1}}
	p.vt = sec(vtTick)
	p.ival = p.vt - (sec(sc.Vn+1) - 1)
	p.start = sec(0)
	if sc.Base >= 11 {
		p.start = sec(2)
	}
	return p
}

func main() {
	out := flag.String("out", "", "trace output")
	cases := flag.String("cases", "", "schedules exported by TLC (json lines)")
	random := flag.Int("random", 0, "number of seeded random histories")
	rlen := flag.Int("len", 60, "steps per random history")
	first := flag.Int("first", 0, "index of the first random history / schedule (shards of one run use disjoint ranges)")
	table := flag.String("table", "", "case table exported by TLC from MC_UpgradeQ (json lines)")
	flag.Parse()
	o := tr.Create(*out)
	defer o.Close()
	st := &runStats{}
	seed := tr.Seed()
	ncases, nlisten := 0, 0
	if *table != "" {
		ncases = runTable(*table, o, seed)
		nlisten = runListener(o, seed, 6)
	}
	if *cases != "" {
		i := *first
		tr.ReadLines(*cases, func(raw []byte) {
			var sc scenario
			if err := json.Unmarshal(raw, &sc); err != nil {
				panic(err)
			}
			i++
			rnd := rand.New(rand.NewSource(seed*104729 + int64(i)))
			w := newWorld(seed*100000+int64(i), fmt.Sprintf("m%d", i), modelParams(sc), o, rnd, st)
			w.genesis(sc.Kind)
			w.exec(sc.Steps)
			w.tail()
			w.close()
			if i%20 == 0 {
				sim.Cleanup()
			}
		})
	}
	for i := *first; i < *first+*random; i++ {
		rnd := rand.New(rand.NewSource(seed*7919 + int64(i)))
		randomWorld(seed, i, *rlen, o, rnd, st)
	}
	sim.Cleanup()
	fmt.Fprintf(os.Stdout, "worlds=%d blocks=%d votes=%d persists=%d restarts=%d offers=%d crafted=%d forced=%d refused=%d upgrades=%d newgen=%d delivers=%d probes=%d queries=%d full=%d lagged=%d empty=%d cases=%d listener=%d reorgs=%d crashes=%d crashkept=%d\n",
		st.worlds, st.blocks, st.votes, st.persists, st.restarts, st.offers, st.crafted, st.forced, st.refused, st.upgrades, st.newgen, st.delivers, st.probes, st.queries, st.full, st.lagged, st.empty, ncases, nlisten, st.reorgs, st.crashes, st.crashKept)
}
