package main

import (
	"encoding/json"
	"fmt"
	"math/rand"
	"runtime"
	"time"

	"github.com/idena-network/idena-go/blockchain/types"
	"github.com/idena-network/idena-go/common"
	"github.com/idena-network/idena-go/common/eventbus"
	"github.com/idena-network/idena-go/common/verifclock"
	"github.com/idena-network/idena-go/config"
	"github.com/idena-network/idena-go/core/appstate"
	"github.com/idena-network/idena-go/core/upgrade"
	"github.com/idena-network/idena-go/crypto"
	dbm "github.com/tendermint/tm-db"

	"verifh/internal/sim"
	"verifh/internal/tr"
	"verifh/internal/vclock"
)

// qcase is one line of the case table exported by TLC from MC_UpgradeQ.
type qcase struct {
	Cs struct {
		Ver   int `json:"ver"`
		Tp    int `json:"tp"`
		Vp    int `json:"vp"`
		On    int `json:"on"`
		Kt    int `json:"kt"`
		Kx    int `json:"kx"`
		Noise int `json:"noise"`
	} `json:"cs"`
}

func signedVote(key int, seed int64, bits uint32, n uint64) (*types.Vote, common.Address) {
	k := sim.DetKey(seed, key)
	vote := &types.Vote{Header: &types.VoteHeader{Round: 2, Step: types.Final, VotedHash: common.Hash{byte(n), byte(n >> 8), byte(key)}, Upgrade: bits}}
	h := crypto.SignatureHash(vote)
	sig, err := crypto.Sign(h[:], k)
	if err != nil {
		panic(err)
	}
	vote.Signature = sig
	return vote, crypto.PubkeyToAddress(k.PublicKey)
}

// runTable replays the case table on a real Upgrader: identities 1..on are online and not discriminated (the fork
// committee), 7 is online and discriminated, 8 validated and offline, 9 nobody; real signed votes go through ProcessVote
// and the listener step; the clock stands at the case's instant; the answers are recorded.
func runTable(path string, out *tr.W, seed int64) int {
	clk := vclock.New(time.Unix(0, 0), time.Second)
	verifclock.Set(clk)
	rnd := rand.New(rand.NewSource(seed))
	// activation windows (process-global in the repository); the interval before the validation
	const ival = int64(5000)
	win := map[int][2]int64{11: {2000000 + int64(rnd.Intn(1000)), 2100000 + int64(rnd.Intn(1000))}, 12: {2300000 + int64(rnd.Intn(1000)), 2400000 + int64(rnd.Intn(1000))}}
	for v, se := range win {
		config.ConsensusVersions[config.ConsensusVerson(v)].StartActivationDate = se[0]
		config.ConsensusVersions[config.ConsensusVerson(v)].EndActivationDate = se[1]
	}
	addr := func(k int) common.Address { return crypto.PubkeyToAddress(sim.DetKey(seed, k).PublicKey) }
	// one identity state per committee size
	apps := map[int]*appstate.AppState{}
	app := func(on int) *appstate.AppState {
		if a, ok := apps[on]; ok {
			return a
		}
		a, err := appstate.NewAppState(dbm.NewMemDB(), eventbus.New())
		if err != nil {
			panic(err)
		}
		if err := a.Initialize(0); err != nil {
			panic(err)
		}
		for k := 1; k <= on; k++ {
			a.IdentityState.SetValidated(addr(k), true)
			a.IdentityState.SetOnline(addr(k), true)
		}
		a.IdentityState.SetValidated(addr(7), true)
		a.IdentityState.SetOnline(addr(7), true)
		a.IdentityState.SetDiscriminated(addr(7), true)
		a.IdentityState.SetValidated(addr(8), true)
		a.Precommit()
		if err := a.CommitAt(1); err != nil {
			panic(err)
		}
		if err := a.Initialize(1); err != nil {
			panic(err)
		}
		apps[on] = a
		return a
	}
	n := 0
	voteNo := uint64(0)
	tr.ReadLines(path, func(raw []byte) {
		var q qcase
		if err := json.Unmarshal(raw, &q); err != nil {
			panic(err)
		}
		c := q.Cs
		cons := *config.GetDefaultConsensusConfig()
		for x := config.ConsensusV10; x <= config.ConsensusVerson(c.Ver); x++ {
			config.ApplyConsensusVersion(x, &cons)
		}
		cons.UpgradeIntervalBeforeValidation = time.Duration(ival) * time.Second
		cfg := &config.Config{Consensus: &cons}
		a := app(c.On)
		u := upgrade.NewUpgrader(cfg, a, dbm.NewMemDB())
		target := int(u.Target())
		w := win[12]
		if se, ok := win[target]; ok && c.Ver < target {
			w = se
		}
		now := []int64{w[0] - 1, w[0], w[0] + 1 + int64(rnd.Intn(int(w[1]-w[0]-2))), w[1], w[1] + 1}[c.Tp]
		vt := now + ival + []int64{1, 0, -1}[c.Vp]
		clk.Advance(now - clk.Ticks())
		a.State.SetNextValidationTime(time.Unix(vt, 0))
		book := [][]int{}
		cast := func(k int, bits int) {
			voteNo++
			v, _ := signedVote(k, seed, uint32(bits), voteNo)
			u.ProcessVote(v)
			book = append(book, []int{k, bits})
		}
		// a voter of the committee first votes something else, then its final bits (the last vote counts)
		for k := 1; k <= c.Kt; k++ {
			if rnd.Intn(3) == 0 {
				cast(k, 13)
			}
			cast(k, target)
		}
		for k := c.Kt + 1; k <= c.Kt+c.Kx; k++ {
			cast(k, 13)
		}
		// a member that voted for the target and then withdrew (a vote without bits)
		if c.Kt+c.Kx < c.On && rnd.Intn(2) == 0 {
			cast(c.Kt+c.Kx+1, target)
			cast(c.Kt+c.Kx+1, 0)
		}
		if c.Noise == 1 {
			for _, k := range []int{7, 8, 9} {
				cast(k, target)
			}
		}
		u.VerifDrain()
		var tgt, bits int
		var valid, can bool
		acc := []int{}
		res, msg := judge(func() error {
			tgt, bits, valid, can = int(u.Target()), int(u.UpgradeBits()), u.IsValidTargetVersion(), u.CanUpgrade()
			for _, up := range []uint32{0, 11, 12, 13} {
				blk := &types.Block{Header: &types.Header{ProposedHeader: &types.ProposedHeader{Upgrade: up}}, Body: &types.Body{}}
				if u.ValidateBlock(blk) == nil {
					acc = append(acc, 1)
				} else {
					acc = append(acc, 0)
				}
			}
			return nil
		})
		elig := []int{}
		for k := 1; k <= 9; k++ {
			if a.ValidatorsCache.IsOnlineIdentity(addr(k)) && !a.ValidatorsCache.IsDiscriminated(addr(k)) {
				elig = append(elig, k)
			}
		}
		obs := [][]int{}
		for ad, b := range u.VerifBook() {
			for k := 1; k <= 9; k++ {
				if addr(k) == ad {
					obs = append(obs, []int{k, int(b)})
				}
			}
		}
		n++
		out.Emit(tr.M{"ev": "Case", "cs": c, "ver": c.Ver, "ival": ival, "win": [][]int64{{11, win[11][0], win[11][1]}, {12, win[12][0], win[12][1]}}, "now": now, "vt": vt,
			"votes": book, "elig": elig, "k": a.ValidatorsCache.ForkCommitteeSize(), "res": res, "msg": msg, "target": tgt, "bits": bits, "valid": b2i(valid), "can": b2i(can),
			"acc": acc, "nbook": len(obs), "strict": b2i(c.Tp == 2 && c.Vp == 0)})
	})
	return n
}

// runListener binds the listening goroutine of Upgrader.Start (which the worlds replace by scheduled steps): votes handed to
// ProcessVote are processed in order, eventually; a sentinel vote marks the end.  A listener that does not answer within the
// (generous, wall-clock) bound makes the driver fail: exit 2, never a verdict.
func runListener(out *tr.W, seed int64, rounds int) int {
	rnd := rand.New(rand.NewSource(seed + 77))
	a, err := appstate.NewAppState(dbm.NewMemDB(), eventbus.New())
	if err != nil {
		panic(err)
	}
	if err := a.Initialize(0); err != nil {
		panic(err)
	}
	cons := *config.GetDefaultConsensusConfig()
	config.ApplyConsensusVersion(config.ConsensusV10, &cons)
	db := dbm.NewMemDB()
	u := upgrade.NewUpgrader(&config.Config{Consensus: &cons}, a, db)
	u.Start()
	n := uint64(0)
	votes := [][]int{}
	for r := 0; r < rounds; r++ {
		for i := 0; i < 5+rnd.Intn(40); i++ {
			k, bits := 1+rnd.Intn(8), []int{0, 11, 11, 12, 13}[rnd.Intn(5)]
			n++
			v, _ := signedVote(k, seed, uint32(bits), n)
			u.ProcessVote(v)
			votes = append(votes, []int{k, bits})
		}
		n++
		mark := uint32(1000 + r)
		sv, sa := signedVote(99, seed, mark, n)
		u.ProcessVote(sv)
		deadline := time.Now().Add(120 * time.Second)
		for u.VerifBook()[sa] != mark {
			if time.Now().After(deadline) {
				panic("harness: the upgrader's listener did not process the votes within 120 s")
			}
			runtime.Gosched()
			time.Sleep(50 * time.Microsecond)
		}
		obs := [][]int{}
		for ad, b := range u.VerifBook() {
			for k := 1; k <= 9; k++ {
				if crypto.PubkeyToAddress(sim.DetKey(seed, k).PublicKey) == ad {
					obs = append(obs, []int{k, int(b)})
				}
			}
		}
		out.Emit(tr.M{"ev": "Listener", "round": r, "votes": votes, "book": obs, "last": false, "restored": false})
	}
	// a second upgrader over the same database restores what the first persisted on demand
	u.VerifPersist()
	u2 := upgrade.NewUpgrader(&config.Config{Consensus: &cons}, a, db)
	u2.Start()
	same := len(u2.VerifBook()) == len(u.VerifBook())
	for ad, b := range u.VerifBook() {
		if u2.VerifBook()[ad] != b {
			same = false
		}
	}
	out.Emit(tr.M{"ev": "Listener", "round": rounds, "votes": [][]int{}, "book": [][]int{}, "last": true, "restored": same})
	_ = fmt.Sprint
	return rounds
}
