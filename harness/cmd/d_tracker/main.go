// d_tracker replays schedules exported by TLC (spec/MC_Tracker) on the real push/pull machinery:
// protocol.PushPullManager.addPush + manager loop, pushpull.DefaultPushTracker (loop goroutine) and
// pushpull.DefaultHolder, under a virtual clock.  The tracker loop is gated at the top of every
// iteration (hook "LoopTop") and in its post-peek sleep (virtual clock), so the interleaving of loop
// steps with announcements, arrivals and time is exactly the one in the schedule.
//
// After every step the emitted pull requests, the pending list, the active-pull registry and the
// holder content are logged (one ndjson line per step) for validation against spec/Trace_Tracker.
package main

import (
	"encoding/json"
	"flag"
	"fmt"
	"os"
	"sort"
	"sync"
	"sync/atomic"
	"time"

	"github.com/idena-network/idena-go/common"
	"github.com/idena-network/idena-go/common/pushpull"
	"github.com/idena-network/idena-go/common/verifclock"
	"github.com/idena-network/idena-go/protocol"
	"github.com/libp2p/go-libp2p-core/peer"

	"verifh/internal/tr"
	"verifh/internal/vclock"
)

type step struct {
	Ev string `json:"ev"`
	P  int    `json:"p"`
	H  int    `json:"h"`
}

type sched struct {
	Sched []step `json:"sched"`
}

const pushTx = 6

// A second push type: its items h >= plainBase carry the hash VALUE of item h - plainBase of the first type.  Its holder does
// not support pending requests (like the transaction pool and the key pool).
const pushPlain = 5
const plainBase = 10

type plainHolder struct {
	mu  sync.Mutex
	has map[common.Hash128]bool
	cap uint32
}

func (p *plainHolder) Add(hash common.Hash128, entry interface{}, shardId common.ShardId, highPriority bool) {
	p.mu.Lock()
	p.has[hash] = true
	p.mu.Unlock()
}
func (p *plainHolder) Has(hash common.Hash128) bool {
	p.mu.Lock()
	defer p.mu.Unlock()
	return p.has[hash]
}
func (p *plainHolder) Get(hash common.Hash128) (interface{}, common.ShardId, bool, bool) {
	return nil, 0, false, p.Has(hash)
}
func (p *plainHolder) MaxParallelPulls() uint32                 { return p.cap }
func (p *plainHolder) SupportPendingRequests() bool             { return false }
func (p *plainHolder) PushTracker() pushpull.PendingPushTracker { return nil }

// item of the model -> (push type, hash value)
func typOf(h int) uint8 {
	if h >= plainBase {
		return pushPlain
	}
	return pushTx
}

type rig struct {
	clk     *vclock.Clock
	mgr     *protocol.PushPullManager
	trk     *pushpull.DefaultPushTracker
	holder  pushpull.Holder
	plain   *plainHolder
	goTop   chan struct{}
	loopEv  chan string // "top" | "peek"
	regs    int64
	emits   int64
	sleeper *vclock.Sleeper // the loop's post-peek sleep, when parked
	obj     [3]int64
	peeked  [2]int
	hashes  int
	dead    bool
	// pre-empted announcer (AnnounceSplit): its goroutine is held at the entry of RegisterPull
	holdReg  int32
	held     chan struct{} // signalled when the announcer is parked at RegisterPullEnter
	release  chan struct{}
	annDone  chan struct{}
	lateHash int // hash of the held announcer, 0 = none
	lateKind int // 2 = first announcer of its item (holds the manager mutex), 1 = further announcer
	seen     map[int]bool
	// announcers pre-empted at the cap evaluation (AnnounceHold): parked inside holder.MaxParallelPulls()
	holdCap int32
	capHeld chan chan struct{}
	capw    map[[2]int]*capWaiter
	// the loop pre-empted inside its critical section (LoopPollHold / LoopWakeHold): parked inside holder.Has()
	holdHas    int32
	hasHeld    chan struct{}
	hasRelease chan struct{}
	crit       bool
}

type capWaiter struct {
	release chan struct{}
	done    chan struct{}
}

// gateHolder is the real DefaultHolder with a scheduling gate inside MaxParallelPulls(): the value it
// returns is the holder's own.
type gateHolder struct {
	pushpull.Holder
	r *rig
}

// Has is asked by the tracker loop inside its critical section (and by announcers, which pass through: the gate is
// armed only for the loop's next call).  The holder's own answer is computed AFTER the gate, i.e. at resume time.
func (g *gateHolder) Has(hash common.Hash128) bool {
	if atomic.CompareAndSwapInt32(&g.r.holdHas, 1, 0) {
		g.r.hasHeld <- struct{}{}
		<-g.r.hasRelease
	}
	return g.Holder.Has(hash)
}

func (g *gateHolder) MaxParallelPulls() uint32 {
	if atomic.CompareAndSwapInt32(&g.r.holdCap, 1, 0) {
		rel := make(chan struct{})
		g.r.capHeld <- rel
		<-rel
	}
	return g.Holder.MaxParallelPulls()
}

func pid(p int) peer.ID        { return peer.ID(fmt.Sprintf("p%d", p)) }
func unpid(id peer.ID) int     { var p int; fmt.Sscanf(string(id), "p%d", &p); return p }
func hsh(h int) common.Hash128 {
	var x common.Hash128
	if h >= plainBase {
		h -= plainBase
	}
	x[0] = byte(h)
	return x
}

func itemOf(typ uint8, hash common.Hash128) int {
	if typ == pushPlain {
		return plainBase + int(hash[0])
	}
	return int(hash[0])
}

// stored: does the holder of the item's push type hold it?
func (r *rig) stored(h int) bool {
	if h >= plainBase {
		return r.plain.Has(hsh(h))
	}
	return r.holder.Has(hsh(h))
}

var current atomic.Value // *rig

func hook(d *pushpull.DefaultPushTracker, ev string, id peer.ID, hash common.Hash128) {
	r, _ := current.Load().(*rig)
	if r == nil || r.trk != d {
		if ev == "LoopTop" {
			// a tracker of a finished schedule: park its loop forever
			select {}
		}
		return
	}
	switch ev {
	case "LoopTop":
		r.loopEv <- "top"
		<-r.goTop
		if cur, _ := current.Load().(*rig); cur != r {
			select {}
		}
	case "RegisterPullEnter":
		if atomic.CompareAndSwapInt32(&r.holdReg, 1, 0) {
			r.held <- struct{}{}
			<-r.release
		}
	case "LoopPeek":
		r.peeked = [2]int{unpid(id), int(hash[0])}
	case "RegisterPull":
		atomic.AddInt64(&r.regs, 1)
	case "LoopEmit":
		atomic.AddInt64(&r.emits, 1)
	}
}

func newRig(delayTicks int, hashes int) *rig {
	clk := vclock.New(time.Unix(1700000000, 0), time.Second)
	verifclock.Set(clk)
	r := &rig{clk: clk, goTop: make(chan struct{}), loopEv: make(chan string, 16), hashes: hashes, seen: map[int]bool{},
		held: make(chan struct{}, 1), release: make(chan struct{}), annDone: make(chan struct{}, 1),
		capHeld: make(chan chan struct{}, 1), capw: map[[2]int]*capWaiter{}, hasHeld: make(chan struct{}, 1), hasRelease: make(chan struct{})}
	r.trk = pushpull.NewDefaultPushTracker(time.Duration(delayTicks) * time.Second)
	current.Store(r)
	r.holder = pushpull.NewDefaultHolder(3, r.trk) // starts the loop and gc goroutines
	r.mgr = protocol.NewPushPullManager()
	gate := &gateHolder{Holder: r.holder, r: r}
	r.trk.SetHolder(gate) // the tracker asks the holder through the gate too (NewDefaultHolder registered the bare holder)
	r.mgr.VerifAddEntryHolder(pushTx, gate)
	r.plain = &plainHolder{has: map[common.Hash128]bool{}, cap: 3}
	r.mgr.VerifAddEntryHolder(pushPlain, r.plain)
	r.mgr.Run()
	r.waitLoop() // loop reaches its first LoopTop
	return r
}

// waitLoop blocks until the tracker loop is gated again: at the top of an iteration ("top") or
// parked in its post-peek sleep ("sleep").
func (r *rig) waitLoop() string {
	for {
		select {
		case <-r.hasHeld:
			return "crit"
		case <-r.loopEv:
			return "top"
		case s := <-r.clk.Parked:
			if s.D >= time.Minute { // the gc goroutine
				continue
			}
			r.sleeper = s
			return "sleep"
		case <-time.After(5 * time.Second):
			r.dead = true
			return "dead"
		}
	}
}

func (r *rig) settle(emitsBefore, regsBefore int64) {
	// every emitted request is registered twice (tracker loop + manager loop); wait for the manager
	// goroutine so that the snapshot is taken at quiescence
	want := 2 * (atomic.LoadInt64(&r.emits) - emitsBefore)
	deadline := time.Now().Add(300 * time.Millisecond)
	for atomic.LoadInt64(&r.regs)-regsBefore < want && time.Now().Before(deadline) {
		time.Sleep(50 * time.Microsecond)
	}
}

func (r *rig) observe(ev step, effective string) tr.M {
	outs := [][2]int{}
	for _, q := range r.mgr.VerifDrainRequests() {
		outs = append(outs, [2]int{unpid(q.Peer), itemOf(q.Type, q.Hash)})
	}
	pend, active := r.trk.VerifSnapshot()
	pl := [][3]int64{}
	for _, e := range pend {
		pl = append(pl, [3]int64{int64(unpid(e.Id)), int64(e.Hash[0]), r.clk.ToTicks(e.Time)})
	}
	al := [][2]int64{}
	for h, t := range active {
		al = append(al, [2]int64{int64(h[0]), r.clk.ToTicks(t)})
	}
	sort.Slice(al, func(i, j int) bool { return al[i][0] < al[j][0] })
	has := []int{}
	for h := 1; h <= r.hashes; h++ {
		if r.holder.Has(hsh(h)) {
			has = append(has, h)
		}
	}
	for h := 1; h <= r.hashes; h++ {
		if r.plain.Has(hsh(h)) {
			has = append(has, plainBase+h)
		}
	}
	pc := "idle"
	obj := [3]int64{-1, -1, -1}
	if r.sleeper != nil {
		pc = "sleep"
		obj = r.obj
	}
	if r.crit {
		pc = "crit"
		obj = r.obj
	}
	late := [][2]int{}
	if r.lateHash != 0 {
		late = append(late, [2]int{r.lateHash, r.lateKind})
	}
	return tr.M{"late": late, "ev": effective, "want": ev.Ev, "p": ev.P, "h": ev.H, "now": r.clk.Ticks(), "has": has, "active": al,
		"pend": pl, "pc": pc, "obj": obj, "out": outs}
}

func (r *rig) do(s step, delay int64) tr.M {
	e0, g0 := atomic.LoadInt64(&r.emits), atomic.LoadInt64(&r.regs)
	eff := s.Ev
	switch s.Ev {
	case "Announce":
		if r.lateKind == 2 && r.lateHash != 0 && !r.seen[s.H] {
			eff = "Skip" // would block on the manager mutex held by the pre-empted first announcer
			break
		}
		if !r.stored(s.H) {
			r.seen[s.H] = true
		}
		r.mgr.VerifAddPush(pid(s.P), typOf(s.H), hsh(s.H))
	case "AnnounceSplit":
		if r.lateHash != 0 {
			eff = "Skip"
			break
		}
		r.lateKind = 1
		if !r.seen[s.H] {
			r.lateKind = 2
		}
		if !r.stored(s.H) {
			r.seen[s.H] = true
		}
		atomic.StoreInt32(&r.holdReg, 1)
		go func() {
			r.mgr.VerifAddPush(pid(s.P), typOf(s.H), hsh(s.H))
			r.annDone <- struct{}{}
		}()
		select {
		case <-r.held:
			r.lateHash = s.H
		case <-r.annDone:
			// the announcement did not reach RegisterPull (no immediate request on this path)
			atomic.StoreInt32(&r.holdReg, 0)
			eff = "Announce"
		}
	case "AnnounceHold":
		if r.lateKind == 2 && r.lateHash != 0 && !r.seen[s.H] || r.capw[[2]int{s.P, s.H}] != nil {
			eff = "Skip"
			break
		}
		if !r.stored(s.H) {
			r.seen[s.H] = true
		}
		w := &capWaiter{done: make(chan struct{}, 1)}
		atomic.StoreInt32(&r.holdCap, 1)
		go func() {
			r.mgr.VerifAddPush(pid(s.P), typOf(s.H), hsh(s.H))
			w.done <- struct{}{}
		}()
		select {
		case w.release = <-r.capHeld:
			r.capw[[2]int{s.P, s.H}] = w
		case <-w.done:
			// the announcement never evaluated the cap (known item or first announcer)
			atomic.StoreInt32(&r.holdCap, 0)
			eff = "Announce"
		}
	case "AnnounceResume":
		w := r.capw[[2]int{s.P, s.H}]
		if w == nil {
			eff = "Skip"
			break
		}
		delete(r.capw, [2]int{s.P, s.H})
		close(w.release)
		<-w.done
	case "RegisterLate":
		if r.lateHash != s.H {
			eff = "Skip"
			break
		}
		r.release <- struct{}{}
		<-r.annDone
		r.lateHash = 0
	case "Arrive":
		if s.H >= plainBase {
			r.plain.Add(hsh(s.H), "entry", common.MultiShard, false)
		} else {
			r.holder.Add(hsh(s.H), "entry", common.MultiShard, false)
		}
	case "Tick":
		r.clk.Advance(1)
	case "LoopPoll", "LoopPollHold":
		if r.sleeper != nil || r.dead || r.crit {
			eff = "Skip"
			break
		}
		if s.Ev == "LoopPollHold" {
			atomic.StoreInt32(&r.holdHas, 1)
		}
		// the entry the loop is going to look at (for the observation of a step that ends inside the critical section)
		head, _ := r.trk.VerifSnapshot()
		r.goTop <- struct{}{}
		switch r.waitLoop() {
		case "sleep":
			// the loop peeked an entry that is not due yet
			r.obj = [3]int64{int64(r.peeked[0]), int64(r.peeked[1]), r.clk.ToTicks(r.sleeper.Wake) - delay}
		case "crit":
			r.crit = true
			if len(head) > 0 {
				r.obj = [3]int64{int64(unpid(head[0].Id)), int64(head[0].Hash[0]), r.clk.ToTicks(head[0].Time)}
			}
		}
		if s.Ev == "LoopPollHold" && !r.crit {
			atomic.StoreInt32(&r.holdHas, 0) // the iteration never reached the holder (empty list, entry not due)
			eff = "LoopPoll"
		}
	case "LoopCrit":
		if !r.crit {
			eff = "Skip"
			break
		}
		r.crit = false
		r.hasRelease <- struct{}{}
		if r.waitLoop() == "sleep" {
			r.obj = [3]int64{int64(r.peeked[0]), int64(r.peeked[1]), r.clk.ToTicks(r.sleeper.Wake) - delay}
		}
	case "LoopWake", "LoopWakeHold":
		if r.sleeper == nil || r.dead || r.clk.Now().Before(r.sleeper.Wake) {
			eff = "Skip"
			break
		}
		if s.Ev == "LoopWakeHold" {
			atomic.StoreInt32(&r.holdHas, 1)
		}
		sl := r.sleeper
		r.sleeper = nil
		r.clk.Release(sl)
		switch r.waitLoop() {
		case "sleep":
			r.obj = [3]int64{int64(r.peeked[0]), int64(r.peeked[1]), r.clk.ToTicks(r.sleeper.Wake) - delay}
		case "crit":
			r.crit = true // r.obj is still the entry the loop slept on
		}
		if s.Ev == "LoopWakeHold" && !r.crit {
			atomic.StoreInt32(&r.holdHas, 0) // the head had changed: the loop started over without asking the holder
			eff = "LoopWake"
		}
	default:
		panic("unknown step " + s.Ev)
	}
	r.settle(e0, g0)
	return r.observe(s, eff)
}

func main() {
	cases := flag.String("cases", "", "schedules (json lines)")
	out := flag.String("out", "", "trace output")
	delay := flag.Int("delay", 2, "pull delay in ticks")
	hashes := flag.Int("hashes", 2, "number of hashes")
	flag.Parse()
	pushpull.VerifHook = hook
	w := tr.Create(*out)
	defer w.Close()
	n, dead := 0, 0
	tr.ReadLines(*cases, func(raw []byte) {
		var sc sched
		if err := json.Unmarshal(raw, &sc); err != nil {
			panic(err)
		}
		r := newRig(*delay, *hashes)
		w.Emit(tr.M{"ev": "Reset", "id": n})
		for _, s := range sc.Sched {
			w.Emit(r.do(s, int64(*delay)))
			if r.dead {
				dead++
				w.Emit(tr.M{"ev": "Dead", "id": n})
				break
			}
		}
		if r.lateHash != 0 {
			r.release <- struct{}{}
			<-r.annDone
		}
		for _, cw := range r.capw {
			close(cw.release)
			<-cw.done
		}
		if r.crit {
			r.crit = false
			r.hasRelease <- struct{}{}
			r.waitLoop()
		}
		n++
	})
	fmt.Fprintf(os.Stderr, "schedules=%d dead=%d lines=%d\n", n, dead, w.N)
}
