// d_smoke: two-replica smoke test of the sim package.
package main

import (
	"encoding/json"
	"fmt"

	"github.com/idena-network/idena-go/blockchain/types"
	"github.com/idena-network/idena-go/blockchain/validation"
	"github.com/idena-network/idena-go/core/state"

	"verifh/internal/sim"
)

func main() {
	defer sim.Cleanup()
	w := sim.NewWorld(1, 4)
	w.Allocs = []sim.Alloc{
		{Key: 0, State: state.Verified, Balance: sim.Dna(1000, 1), Stake: sim.Dna(100, 1)},
		{Key: 1, State: state.Verified, Balance: sim.Dna(500, 1), Stake: sim.Dna(50, 1)},
		{Key: 2, State: state.Newbie, Balance: sim.Dna(10, 1)},
	}
	a := w.NewNode(0)
	b := w.NewNode(1)
	if a.BootErr != nil || b.BootErr != nil {
		panic(fmt.Sprint(a.BootErr, b.BootErr))
	}
	fmt.Println("genesis", a.Obs().Hash, b.Obs().Hash)
	for i := 0; i < 5; i++ {
		tx := w.Tx(sim.TxSpec{From: 1, To: &w.Addrs[2], Type: types.SendTx, Amount: sim.Dna(1, 1), MaxFee: sim.Dna(100, 1), Nonce: uint32(i + 1), Epoch: 0})
		if err := a.Pool.AddExternalTxs(validation.InboundTx, tx); err != nil {
			fmt.Println("pool:", err)
		}
		blk := a.Propose(20)
		data := sim.Encode(blk)
		fmt.Println("h", blk.Height(), "txs", len(blk.Body.Transactions), "B validate:", b.Validate(data), "B add:", b.Add(data), "A add:", a.Add(data))
	}
	oa, _ := json.Marshal(a.Obs())
	ob, _ := json.Marshal(b.Obs())
	fmt.Println(string(oa))
	fmt.Println(string(ob))
	l, err := a.Project(a.Chain.Head.Height())
	if err != nil {
		panic(err)
	}
	lj, _ := json.Marshal(l)
	fmt.Println(string(lj))
	c := b.Restart()
	fmt.Println("restart", c.BootErr, c.Obs().Hash)
}
