package main

import (
	"encoding/hex"
	"encoding/json"
	"fmt"
	"math/rand"
	"os"

	"github.com/idena-network/idena-go/blockchain/types"
	"github.com/idena-network/idena-go/blockchain/validation"
	"github.com/idena-network/idena-go/core/state"
	"github.com/idena-network/idena-go/ipfs"
	dbm "github.com/tendermint/tm-db"

	"verifh/internal/sim"
)

const (
	kGod  = 0
	kTest = 1 // coinbase of the node under test (so that own-transaction index writes happen)
	kPeer = 2
	nKeys = 14

	shortBase = 6   // height of the shared prefix of the short scenarios
	longBase  = 100 // ... of the scenarios beyond the retained versions (state.MaxSavedStatesCount)
)

func hx(b []byte) string {
	if len(b) > 8 {
		b = b[:8]
	}
	return hex.EncodeToString(b)
}

// ------------------------------------------------------------------------------------------------
// reference chains (real blocks produced by a real proposer node)

type blk struct {
	H    uint64
	Id   string
	Root string
	IdR  string
	Par  string
	Kind string
	Data []byte
	NTx  int
	NOwn int  // own-transaction index entries the node under test writes for this block
	Diff bool // non-empty identity diff
}

type chainT struct {
	name string
	b    map[uint64]*blk
	tip  uint64
}

type producer struct {
	w     *sim.World
	n     *sim.Node
	nonce map[int]uint32
	kill  int
	amt   int64 // amount of the transfers of this branch (sibling branches must differ in content)
}

func (p *producer) clone() *producer {
	q := &producer{w: p.w, n: p.n.Clone(kGod), nonce: map[int]uint32{}, kill: p.kill, amt: p.amt}
	if q.n.BootErr != nil {
		panic(q.n.BootErr)
	}
	for k, v := range p.nonce {
		q.nonce[k] = v
	}
	return q
}

func (p *producer) next(kind string, delay int64) *blk {
	w := p.w
	own := 0
	switch kind {
	case "plain":
	case "tx": // one transfer sent by the coinbase of the node under test: tx index + own-tx index
		p.nonce[kTest]++
		tx := w.Tx(sim.TxSpec{From: kTest, To: &w.Addrs[kPeer], Type: types.SendTx, Amount: sim.Dna(1+p.amt, 1), MaxFee: sim.Dna(100, 1), Nonce: p.nonce[kTest]})
		if err := p.n.Pool.AddExternalTxs(validation.InboundTx, tx); err != nil {
			panic(fmt.Sprint("pool rejects send tx: ", err))
		}
		own = 1
	case "tx2": // two transfers, both touching the coinbase of the node under test
		p.nonce[kTest]++
		tx := w.Tx(sim.TxSpec{From: kTest, To: &w.Addrs[kPeer], Type: types.SendTx, Amount: sim.Dna(2+p.amt, 1), MaxFee: sim.Dna(100, 1), Nonce: p.nonce[kTest]})
		p.nonce[kGod]++
		tx2 := w.Tx(sim.TxSpec{From: kGod, To: &w.Addrs[kTest], Type: types.SendTx, Amount: sim.Dna(3, 1), MaxFee: sim.Dna(100, 1), Nonce: p.nonce[kGod]})
		if err := p.n.Pool.AddExternalTxs(validation.InboundTx, tx, tx2); err != nil {
			panic(fmt.Sprint("pool rejects send txs: ", err))
		}
		own = 2
	case "idupd": // KillTx of a verified identity: non-empty identity diff, IdentityUpdate flag
		k := p.kill
		p.kill++
		if k >= nKeys {
			panic("no identity left to kill")
		}
		p.nonce[k]++
		tx := w.Tx(sim.TxSpec{From: k, Type: types.KillTx, MaxFee: sim.Dna(100, 1), Nonce: p.nonce[k]})
		if err := p.n.Pool.AddExternalTxs(validation.InboundTx, tx); err != nil {
			panic(fmt.Sprint("pool rejects kill tx: ", err))
		}
	default:
		panic("unknown block kind " + kind)
	}
	b := p.n.Propose(delay)
	data := sim.Encode(b)
	if err := p.n.Add(data); err != nil {
		panic(fmt.Sprint("producer cannot add own block: ", err))
	}
	want := map[string]int{"plain": 0, "tx": 1, "tx2": 2, "idupd": 1}[kind]
	if len(b.Body.Transactions) != want {
		panic(fmt.Sprintf("block %d kind %s has %d txs, want %d", b.Height(), kind, len(b.Body.Transactions), want))
	}
	if kind == "idupd" && !b.Header.Flags().HasFlag(types.IdentityUpdate) {
		panic("kill block lacks IdentityUpdate flag")
	}
	return &blk{H: b.Height(), Id: hx(b.Hash().Bytes()), Root: hx(b.Root().Bytes()), IdR: hx(b.IdentityRoot().Bytes()), Par: hx(b.Header.ParentHash().Bytes()),
		Kind: kind, Data: data, NTx: len(b.Body.Transactions), NOwn: own, Diff: kind == "idupd"}
}

func newWorld(seed int64) *sim.World {
	w := sim.NewWorld(seed, nKeys)
	w.Allocs = []sim.Alloc{
		{Key: kGod, State: state.Verified, Balance: sim.Dna(100000, 1), Stake: sim.Dna(1000, 1)},
		{Key: kTest, State: state.Verified, Balance: sim.Dna(50000, 1), Stake: sim.Dna(500, 1)},
		{Key: kPeer, State: state.Newbie, Balance: sim.Dna(100, 1)},
	}
	for k := 3; k < nKeys; k++ {
		w.Allocs = append(w.Allocs, sim.Alloc{Key: k, State: state.Verified, Balance: sim.Dna(5000, 1), Stake: sim.Dna(100, 1)})
	}
	return w
}

// baseT is the shared prefix of a family of scenarios: the proposer at the base height and the
// database of the node under test with the same blocks inserted.
type baseT struct {
	tip   uint64
	prod  *producer
	b     map[uint64]*blk
	db    dbm.DB
	store ipfs.Proxy
}

func (r *runner) getBase(long bool) *baseT {
	if b := r.base[long]; b != nil {
		return b
	}
	tip := uint64(shortBase)
	if long {
		tip = longBase
	}
	rnd := rand.New(rand.NewSource(r.seed*7919 + int64(tip)))
	p := &producer{w: r.w, n: r.w.NewNode(kGod), nonce: map[int]uint32{}, kill: 3}
	if p.n.BootErr != nil {
		panic(p.n.BootErr)
	}
	store := ipfs.NewMemoryIpfsProxy()
	t := r.w.Boot(kTest, dbm.NewMemDB(), store)
	if t.BootErr != nil {
		panic(t.BootErr)
	}
	base := &baseT{tip: tip, prod: p, b: map[uint64]*blk{}, store: store}
	for h := uint64(2); h <= tip; h++ {
		kind := "plain"
		switch x := rnd.Intn(10); {
		case x == 0:
			kind = "tx"
		case x == 1:
			kind = "tx2"
		case x == 2 && h%29 == 0:
			kind = "idupd"
		}
		b := p.next(kind, 20)
		base.b[h] = b
		if err := t.Add(b.Data); err != nil {
			panic(fmt.Sprintf("base block %d rejected by the node under test: %v", h, err))
		}
	}
	base.db = t.DB
	r.base[long] = base
	return base
}

// ------------------------------------------------------------------------------------------------
// scenarios built from a descriptor

type scenario struct {
	Name   string
	Desc   scDesc
	Op     []step
	Old    *chainT // chain the node is on before the operation (including the block under test)
	Target *chainT // chain a never-crashed node is on after operation + continuation
	ForkAt uint64  // common ancestor height; 0 when Old == Target
	End    uint64  // the continuation goes up to this height of Target
	fs     *fsData // fast-sync scenarios
	preTip uint64
	preDB  dbm.DB
	store  ipfs.Proxy
	ref    *refRun
}

type refRun struct {
	n      int
	kinds  []string
	final  storeObs
	ledger string
}

func (sc *scenario) window() (int64, int64) {
	lo := int64(sc.preTip)
	for _, s := range sc.Op {
		if s.What == "ResetTo" && int64(s.To) < lo {
			lo = int64(s.To)
		}
	}
	lo -= 3
	hi := int64(sc.End) + 1
	if int64(sc.Old.tip)+1 > hi {
		hi = int64(sc.Old.tip) + 1
	}
	return lo, hi
}

// realHead maps the pre-state head height of the model's scale to a real height: the model retains
// `retain` versions, the code state.MaxSavedStatesCount; what matters is on which side of the
// retained window the chain is.
func realHead(d scDesc, retain int) (uint64, bool) {
	long := d.Long || (retain > 0 && d.H0 > retain)
	if long {
		off := d.H0 - retain
		if retain == 0 {
			off = d.H0 - 2
		}
		if off < 1 {
			off = 1
		}
		return uint64(longBase + 2 + off + d.Pad), true
	}
	return uint64(shortBase + d.H0 + d.Pad), false
}

func (r *runner) scenario(d scDesc, retain int) *scenario {
	kb, _ := json.Marshal(d)
	key := fmt.Sprint(retain, string(kb))
	if sc := r.cache[key]; sc != nil {
		return sc
	}
	h0, long := realHead(d, retain)
	base := r.getBase(long)
	rnd := rand.New(rand.NewSource(r.seed*104729 + int64(len(r.cache))))
	pa := base.prod.clone()
	A := &chainT{name: "A", b: map[uint64]*blk{}}
	for h, b := range base.b {
		A.b[h] = b
	}
	filler := func() string { return []string{"plain", "plain", "tx", "tx2"}[rnd.Intn(4)] }
	var forkProd *producer
	forkAt := uint64(0)
	switch d.Op {
	case "Fork":
		forkAt = h0 - uint64(d.K)
	case "Alt":
		forkAt = h0
	}
	if forkAt != 0 && forkAt < base.tip {
		panic("fork point below the shared prefix")
	}
	if forkAt == base.tip {
		forkProd = pa.clone()
	}
	endA := h0 + 2
	if d.Op == "FastSync" {
		endA = h0 + uint64(len(d.Kinds)) + 2
	}
	for h := base.tip + 1; h <= endA; h++ {
		kind := filler()
		if (d.Op == "Add" || d.Op == "Alt") && h == h0+1 {
			kind = d.Kinds[0]
		}
		if d.Op == "FastSync" && h > h0 && h <= h0+uint64(len(d.Kinds)) {
			kind = d.Kinds[h-h0-1]
		}
		A.b[h] = pa.next(kind, 20)
		if h == forkAt {
			forkProd = pa.clone()
		}
	}
	A.tip = endA
	sc := &scenario{Desc: d, Name: fmt.Sprintf("%s-h%d-k%d-%v", d.Op, h0, d.K, d.Kinds), preTip: h0, store: base.store}
	old := &chainT{name: "A", b: A.b, tip: h0}
	switch d.Op {
	case "Add":
		old.tip = h0 + 1
		sc.Op = []step{{What: "Add", B: A.b[h0+1]}}
		sc.Target, sc.End = A, h0+2
	case "Reset":
		sc.Op = []step{{What: "ResetTo", To: h0 - uint64(d.K)}}
		sc.Target, sc.End = A, h0+1
	case "FastSync":
		buildFastSync(sc, pa, A, h0, d.Kinds)
		sc.Op[0].Sc = sc
	case "Fork", "Alt":
		B := &chainT{name: "B", b: map[uint64]*blk{}}
		for h := uint64(2); h <= forkAt; h++ {
			B.b[h] = A.b[h]
		}
		kinds := d.Kinds
		if d.Op == "Alt" {
			kinds = []string{"tx"} // the sibling differs in content (another state root), not only in its hash
			old.tip = h0 + 1
		}
		forkProd.amt = 5
		n := len(kinds) + 1
		for i := 0; i < n; i++ {
			kind := "plain"
			if i < len(kinds) {
				kind = kinds[i]
			}
			b := forkProd.next(kind, 25+int64(i)) // another delay: another timestamp and hash even for plain blocks
			if A.b[b.H] != nil && A.b[b.H].Id == b.Id {
				panic("fork block equals main block")
			}
			B.b[b.H] = b
		}
		B.tip = forkAt + uint64(n)
		sc.Target, sc.ForkAt, sc.End = B, forkAt, B.tip
		if d.Op == "Fork" {
			sc.Op = []step{{What: "ResetTo", To: forkAt}}
			for i := 1; i <= len(kinds); i++ {
				sc.Op = append(sc.Op, step{What: "Add", B: B.b[forkAt+uint64(i)]})
			}
		} else {
			sc.Op = []step{{What: "Add", B: A.b[h0+1]}}
		}
	default:
		panic("unknown operation " + d.Op)
	}
	sc.Old = old

	// pre-state of the node under test: the shared prefix plus the scenario's own blocks up to h0
	t := r.w.Boot(kTest, sim.CopyDB(base.db), base.store)
	if t.BootErr != nil {
		panic(t.BootErr)
	}
	for h := base.tip + 1; h <= h0; h++ {
		if err := t.Add(A.b[h].Data); err != nil {
			panic(fmt.Sprintf("scenario %s: pre-state block %d rejected: %v", sc.Name, h, err))
		}
	}
	sc.preDB = t.DB
	sc.ref = r.reference(sc)
	r.cache[key] = sc
	if r.verbose {
		fmt.Printf("scenario %-28s writes %3d: %v\n", sc.Name, sc.ref.n, sc.ref.kinds)
	}
	return sc
}

// reference: the operation and the continuation on a node that never crashes
func (r *runner) reference(sc *scenario) *refRun {
	lo, hi := sc.window()
	db := sim.NewCrashDB(sim.CopyDB(sc.preDB))
	db.HeadId = r.headId
	n := r.w.Boot(kTest, db.NewHandle(), sc.store)
	if n.BootErr != nil {
		panic(n.BootErr)
	}
	db.Arm(-1)
	for _, s := range sc.Op {
		if err := doStep(n, s); err != nil {
			panic(fmt.Sprintf("scenario %s: reference operation step %s fails: %v", sc.Name, s.What, err))
		}
	}
	log := db.Disarm()
	cont, known := sc.sync(n)
	if !known {
		panic("reference head on no known chain")
	}
	for _, s := range cont {
		if err := doStep(n, s); err != nil {
			panic(fmt.Sprintf("scenario %s: reference continuation fails: %v", sc.Name, err))
		}
	}
	if n.Chain.Head.Height() != sc.End || hx(n.Chain.Head.Hash().Bytes()) != sc.Target.b[sc.End].Id {
		panic(fmt.Sprintf("scenario %s: reference does not reach the target tip", sc.Name))
	}
	ref := &refRun{n: len(log), final: observe(n, lo, hi), ledger: ledgerDigest(n)}
	for _, x := range log {
		ref.kinds = append(ref.kinds, x.K)
	}
	return ref
}

// ------------------------------------------------------------------------------------------------
// seeded enumeration: larger scenarios than the bounded model's, EVERY write index of the operation
// (and of the recovery, when recovery writes) is crashed; plus random double-crash schedules.

func (r *runner) enumerate(nScn, nDouble, shardK, shardN int) {
	rnd := rand.New(rand.NewSource(r.seed*15485863 + 17))
	kinds := []string{"plain", "tx", "tx2", "idupd"}
	for x := 0; x < nScn; x++ {
		var d scDesc
		d.Long = (x/5)%2 == 0
		d.H0 = 4 + rnd.Intn(3)
		d.Pad = rnd.Intn(3)
		switch x % 5 { // every family in every run; long and short chains alternate per round
		case 4:
			d.Op = "FastSync"
			if os.Getenv("VERIF_TIER") != "thorough" {
				d.Long = false // deleting the replaced databases of a long chain key by key is slow: thorough tier only
			}
			for i, m := 0, 2+rnd.Intn(3); i < m; i++ {
				d.Kinds = append(d.Kinds, kinds[rnd.Intn(4)])
			}
			if rnd.Intn(3) > 0 {
				d.Kinds[rnd.Intn(len(d.Kinds))] = "idupd"
			}
		case 0:
			d.Op, d.Kinds = "Add", []string{kinds[rnd.Intn(4)]}
		case 1:
			d.Op, d.K, d.Kinds = "Reset", 1+rnd.Intn(4), []string{}
		case 2:
			d.Op, d.K = "Fork", 1+rnd.Intn(4)
			for i, m := 0, 1+rnd.Intn(3); i < m; i++ {
				d.Kinds = append(d.Kinds, kinds[rnd.Intn(4)])
			}
		case 3:
			d.Op, d.Kinds = "Alt", []string{kinds[rnd.Intn(4)]}
		}
		if x%shardN != shardK {
			continue
		}
		sc := r.scenario(d, 0)
		if d.Op == "FastSync" {
			r.enumFastSync(sc, d, rnd, nDouble)
			continue
		}
		for i := 0; i <= sc.ref.n; i++ {
			c := &caseT{Sc: d, Src: "enum", Crashes: []crashPt{{Ph: "op", I: i}}}
			if i == sc.ref.n {
				c.Crashes[0].K = "clean"
			}
			r.runCase(c)
			r.stats["enum"]++
		}
		for y := 0; y < nDouble; y++ {
			c := &caseT{Sc: d, Src: "enum2", Crashes: []crashPt{{Ph: "op", I: rnd.Intn(sc.ref.n)}, {Ph: []string{"rec", "cont", "cont"}[rnd.Intn(3)], I: rnd.Intn(6)}}}
			r.runCase(c)
			r.stats["enum2"]++
		}
	}
}

// enumFastSync crashes the fast-sync procedure at every write index, except that of the long runs of
// bulk writes (copy of the identity database, deletion of the replaced databases) only the first,
// the last and a seeded sample are taken.
func (r *runner) enumFastSync(sc *scenario, d scDesc, rnd *rand.Rand, nDouble int) {
	bulk := map[string]bool{"PCopy": true, "DropOld": true, "SnapPut": true}
	var is []int
	for i := 0; i < sc.ref.n; i++ {
		k := sc.ref.kinds[i]
		if !bulk[k] || i == 0 || sc.ref.kinds[i-1] != k || i == sc.ref.n-1 || sc.ref.kinds[i+1] != k || rnd.Intn(60) == 0 {
			is = append(is, i)
		}
	}
	is = append(is, sc.ref.n)
	for _, i := range is {
		c := &caseT{Sc: d, Src: "enum", Crashes: []crashPt{{Ph: "op", I: i}}}
		if i == sc.ref.n {
			c.Crashes[0].K = "clean"
		}
		r.runCase(c)
		r.stats["enumfs"]++
	}
	for y := 0; y < nDouble; y++ {
		c := &caseT{Sc: d, Src: "enum2", Crashes: []crashPt{{Ph: "op", I: is[rnd.Intn(len(is)-1)]}, {Ph: "cont", I: rnd.Intn(12)}}}
		r.runCase(c)
		r.stats["enumfs2"]++
	}
}
