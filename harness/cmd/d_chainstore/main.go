// d_chainstore: fault enumeration for C09 on the REAL node objects.
//
// Input: crash cases, one JSON object per line, as exported by TLC from MC_ChainStore (scenario
// descriptor + crash schedule addressed by (phase, kind of the lost write, occurrence)) or generated
// by this driver's own seeded enumeration (-enum: every write index of larger, seeded scenarios).
//
// For every case the driver builds the real pre-state (real blocks produced by a real proposer node,
// inserted into the node under test), then
//  1. runs the operation under test behind a CrashDB that kills the process inside the scheduled
//     durable write (the write and everything after it is lost; a batch entirely or not at all),
//  2. throws the process state away and runs the NORMAL start-up sequence (sim.World.Boot) on the
//     survivor - possibly crashing again inside recovery,
//  3. applies the interrupted and the following blocks of the reference chain, then asks the node to
//     roll back to the height it restarted at and to re-insert the same blocks (rollback probe),
//  4. compares with a node that never crashed.
//
// Everything that happened is written as an ndjson trace; the verdict is TLC's (Trace_ChainStore).
package main

import (
	"crypto/sha256"
	"encoding/hex"
	"encoding/json"
	"flag"
	"fmt"
	"os"
	"runtime/pprof"
	"sort"
	"strings"
	"time"

	"github.com/idena-network/idena-go/blockchain/types"
	"github.com/idena-network/idena-go/core/state"
	"github.com/idena-network/idena-go/ipfs"
	dbm "github.com/tendermint/tm-db"

	"verifh/internal/sim"
	"verifh/internal/tr"
)

// ------------------------------------------------------------------------------------------------
// cases

type scDesc struct {
	Op    string   `json:"op"`    // Add | Reset | Fork | Alt
	H0    int      `json:"h0"`    // head height of the pre-state IN THE MODEL'S SCALE (see realHead)
	K     int      `json:"k"`     // rollback depth
	Kinds []string `json:"kinds"` // kinds of the blocks under test / of the other branch
	Long  bool     `json:"long"`  // enumeration only: explicit request for a chain beyond the retained versions
	Pad   int      `json:"pad"`   // enumeration only: extra blocks in front of the pre-state head
}

type crashPt struct {
	Ph  string `json:"ph"`  // op | rec | cont
	I   int    `json:"i"`   // write index within the phase (used when K == "")
	K   string `json:"k"`   // kind of the lost write; "clean" = clean stop after the operation
	Occ int    `json:"occ"` // occurrence (1-based) of that kind within the phase
}

type caseT struct {
	Sc      scDesc    `json:"sc"`
	Crashes []crashPt `json:"crashes"`
	Broken  []string  `json:"broken"`
	Retain  int       `json:"retain"`
	Src     string    `json:"src"`
}

// ------------------------------------------------------------------------------------------------
// observations

type headObs struct {
	H    int64  `json:"h"`
	Id   string `json:"id"`
	Root string `json:"root"`
	IdR  string `json:"idr"`
	Par  string `json:"par"`
}

type verRoot struct {
	H int64  `json:"h"`
	R string `json:"r"`
}

type canonEnt struct {
	H   int64  `json:"h"`
	Id  string `json:"id"`
	Hdr bool   `json:"hdr"` // header of that id is stored
}

type storeObs struct {
	Head   headObs    `json:"head"`  // in-memory head of the running node
	DHead  headObs    `json:"dhead"` // head stored in the database
	LiveS  string     `json:"lives"` // root of the loaded state tree
	LiveI  string     `json:"livei"` // root of the loaded identity tree
	VerS   int64      `json:"vers"`  // version of the loaded state tree
	VerI   int64      `json:"veri"`
	Lo     int64      `json:"lo"` // window of heights the next fields describe
	Hi     int64      `json:"hi"`
	SVR    []verRoot  `json:"svr"`   // saved state-tree versions in the window with their roots
	IVR    []verRoot  `json:"ivr"`   // saved identity-tree versions in the window
	Canon  []canonEnt `json:"canon"` // canonical entries in the window
	SAll   []int64    `json:"sall"`  // every saved state-tree version (heights); only in the pre-state observation
	IAll   []int64    `json:"iall"`
	NS     int64      `json:"ns"` // number / lowest of the saved versions
	NI     int64      `json:"ni"`
	MinS   int64      `json:"mins"`
	MinI   int64      `json:"mini"`
	PHead  headObs    `json:"phead"`  // preliminary head stored in the database (h = 0: none)
	Digest string     `json:"digest"` // digest of the whole database
}

func hobs(h *types.Header) headObs {
	if h == nil {
		return headObs{H: 0, Id: "none", Root: "none", IdR: "none", Par: "none"}
	}
	return headObs{H: int64(h.Height()), Id: hx(h.Hash().Bytes()), Root: hx(h.Root().Bytes()), IdR: hx(h.IdentityRoot().Bytes()), Par: hx(h.ParentHash().Bytes())}
}

func emptyObs() storeObs {
	return storeObs{Head: hobs(nil), DHead: hobs(nil), LiveS: "none", LiveI: "none", SVR: []verRoot{}, IVR: []verRoot{}, Canon: []canonEnt{},
		SAll: []int64{}, IAll: []int64{}, PHead: hobs(nil)}
}

func observeFull(n *sim.Node, lo, hi int64) storeObs {
	o := observe(n, lo, hi)
	o.SAll = versions(n.DB, 1)
	o.IAll = versions(n.DB, 2)
	return o
}

func observe(n *sim.Node, lo, hi int64) storeObs {
	o := emptyObs()
	if lo < 1 {
		lo = 1
	}
	o.Lo, o.Hi = lo, hi
	o.Head = hobs(n.Chain.Head)
	o.DHead = hobs(n.Chain.GetHead())
	r := n.App.State.Root()
	o.LiveS = hx(r[:])
	r = n.App.IdentityState.Root()
	o.LiveI = hx(r[:])
	o.VerS = n.App.State.Version()
	o.VerI = int64(n.App.IdentityState.Version())
	for h := lo; h <= hi; h++ {
		if n.App.State.HasVersion(uint64(h)) {
			if ro, err := n.App.State.Readonly(h); err == nil {
				x := ro.Root()
				o.SVR = append(o.SVR, verRoot{h, hx(x[:])})
			} else {
				o.SVR = append(o.SVR, verRoot{h, "unreadable"})
			}
		}
		if n.App.IdentityState.HasVersion(uint64(h)) {
			if ro, err := n.App.IdentityState.Readonly(uint64(h)); err == nil {
				x := ro.Root()
				o.IVR = append(o.IVR, verRoot{h, hx(x[:])})
			} else {
				o.IVR = append(o.IVR, verRoot{h, "unreadable"})
			}
		}
		if id := canonRaw(n.DB, uint64(h)); id != "" {
			hdr := n.Chain.GetBlockHeaderByHeight(uint64(h))
			o.Canon = append(o.Canon, canonEnt{h, id, hdr != nil})
		}
	}
	sa, ia := versions(n.DB, 1), versions(n.DB, 2)
	o.NS, o.NI = int64(len(sa)), int64(len(ia))
	if len(sa) > 0 {
		o.MinS = sa[0]
	}
	if len(ia) > 0 {
		o.MinI = ia[0]
	}
	o.PHead = hobs(n.Chain.ReadPreliminaryHead())
	o.Digest = sim.DBDigest(n.DB)
	return o
}

// canonRaw reads the canonical-hash entry of a height directly (the header may be missing).
func canonRaw(db dbm.DB, h uint64) string {
	k := append([]byte("h"), make([]byte, 8)...)
	for i := 0; i < 8; i++ {
		k[1+i] = byte(h >> (8 * uint(7-i)))
	}
	k = append(k, 'n')
	v, err := db.Get(k)
	if err != nil || len(v) == 0 {
		return ""
	}
	return hx(v)
}

// versions lists the saved versions of the CURRENT tree database (prefix read from the db).
func versions(db dbm.DB, which byte) []int64 {
	res := []int64{}
	pfx, err := db.Get([]byte{which})
	if err != nil || pfx == nil {
		return res
	}
	start := append(append([]byte{}, pfx...), 'r')
	end := append(append([]byte{}, pfx...), 's')
	it, err := db.Iterator(start, end)
	if err != nil {
		return res
	}
	defer it.Close()
	for ; it.Valid(); it.Next() {
		k := it.Key()
		if len(k) < len(pfx)+9 {
			continue
		}
		var v int64
		for i := 0; i < 8; i++ {
			v = v<<8 | int64(k[len(pfx)+1+i])
		}
		res = append(res, v)
	}
	return res
}

func ledgerDigest(n *sim.Node) (res string) {
	defer func() {
		if x := recover(); x != nil {
			s := fmt.Sprint(x)
			if len(s) > 60 {
				s = s[:60]
			}
			res = "unreadable: " + s // the committed state cannot be iterated (missing tree nodes)
		}
	}()
	l, err := n.Project(n.Chain.Head.Height())
	if err != nil {
		return "err:" + err.Error()
	}
	js, _ := json.Marshal(l)
	s := sha256.Sum256(js)
	return hex.EncodeToString(s[:8])
}

// ------------------------------------------------------------------------------------------------
// running a case

type step struct {
	What string // "Add", "ResetTo" or "FastSync"
	B    *blk
	To   uint64
	Sc   *scenario // FastSync only
}

type runner struct {
	w       *sim.World
	out     *tr.W
	runs    int
	boots   int
	runSeq  int
	cache   map[string]*scenario
	base    map[bool]*baseT
	stats   map[string]int
	seed    int64
	verbose bool
}

func safe(f func()) (crashed bool) {
	defer func() {
		if r := recover(); r != nil {
			if _, ok := r.(sim.ErrCrash); ok {
				crashed = true
				return
			}
			panic(r)
		}
	}()
	f()
	return false
}

func (r *runner) headId(val []byte) (string, int64) {
	h := new(types.Header)
	if err := h.FromBytes(val); err != nil {
		return "undecodable", -1
	}
	return hx(h.Hash().Bytes()), int64(h.Height())
}

func doStep(n *sim.Node, s step) error {
	switch s.What {
	case "Add":
		return n.Add(s.B.Data)
	case "ResetTo":
		_, err := n.Chain.ResetTo(s.To)
		return err
	case "FastSync":
		err := fastSync(n, s.Sc)
		if h, ok := n.DB.(*sim.Handle); ok && h.C.Dead() {
			// the process died inside a write of its background cleaner
			panic(sim.ErrCrash{Index: h.C.CrashAt})
		}
		return err
	}
	panic("unknown step " + s.What)
}

func errStr(err error) string {
	if err == nil {
		return ""
	}
	s := err.Error()
	if len(s) > 160 {
		s = s[:160]
	}
	return s
}

// bulk writes (copy / deletion of a whole tree database, key by key) are logged once per run of equal kind
var bulkKinds = map[string]bool{"PCopy": true, "DropOld": true, "SnapPut": true}

func (r *runner) emitWrites(ph string, log []sim.WriteRec) {
	for i := 0; i < len(log); i++ {
		x := log[i]
		m := wrec(ph, x)
		rep := 1
		if bulkKinds[x.K] {
			for i+1 < len(log) && log[i+1].K == x.K {
				i++
				rep++
			}
		}
		m["rep"] = rep
		r.emit(m)
	}
}

func wrec(ph string, x sim.WriteRec) tr.M {
	ex := x.Extra
	if ex == nil {
		ex = []string{}
	}
	return tr.M{"ev": "W", "ph": ph, "i": x.I, "k": x.K, "sub": x.Sub, "batch": x.Batch, "tree": x.Tree, "pfx": x.Pfx, "set": x.Set, "del": x.Del,
		"root": x.Root, "h": x.H, "id": x.Id, "extra": ex, "nops": x.NOps}
}

func stepRec(s step) tr.M {
	m := tr.M{"what": s.What, "to": int64(s.To), "b": blkRec(nil)}
	if s.B != nil {
		m["b"] = blkRec(s.B)
	}
	return m
}

func blkRec(b *blk) tr.M {
	if b == nil {
		return tr.M{"h": 0, "id": "none", "root": "none", "idr": "none", "par": "none", "kind": "plain", "nidx": 0}
	}
	kind := "plain"
	if b.Diff {
		kind = "idupd"
	}
	return tr.M{"h": int64(b.H), "id": b.Id, "root": b.Root, "idr": b.IdR, "par": b.Par, "kind": kind, "nidx": b.NTx + b.NOwn}
}

func chainRecs(c *chainT, lo, hi int64) []tr.M {
	res := []tr.M{}
	for h := lo; h <= hi; h++ {
		if h >= 1 {
			if b := c.b[uint64(h)]; b != nil {
				res = append(res, blkRec(b))
			}
		}
	}
	return res
}

func (sc *scenario) onTarget(n *sim.Node) bool {
	hh := n.Chain.Head.Height()
	id := hx(n.Chain.Head.Hash().Bytes())
	return sc.Target.b[hh] != nil && sc.Target.b[hh].Id == id
}

// sync: what a syncing node does from its head to reach the tip of the target chain
func (sc *scenario) sync(n *sim.Node) ([]step, bool) {
	var res []step
	hh := n.Chain.Head.Height()
	id := hx(n.Chain.Head.Hash().Bytes())
	if sc.fs != nil && sc.onTarget(n) && hh < sc.fs.H {
		// fast sync not finished: resume it, then insert the following blocks normally
		res = append(res, step{What: "FastSync", B: sc.Target.b[sc.fs.H], Sc: sc})
		hh = sc.fs.H
	}
	if !sc.onTarget(n) {
		// on the abandoned branch above the fork point: roll back to the common ancestor
		if sc.Old.b[hh] != nil && sc.Old.b[hh].Id == id && sc.ForkAt > 0 && hh > sc.ForkAt {
			res = append(res, step{What: "ResetTo", To: sc.ForkAt})
			hh = sc.ForkAt
		} else {
			return nil, false // head is on no known chain
		}
	}
	for h := hh + 1; h <= sc.End; h++ {
		res = append(res, step{What: "Add", B: sc.Target.b[h]})
	}
	return res, true
}

// probe: roll back to the height the node restarted at and re-insert the same blocks
func (sc *scenario) probe(n *sim.Node) []step {
	hh := n.Chain.Head.Height()
	if !sc.onTarget(n) {
		hh = sc.ForkAt
	}
	var res []step
	if sc.fs != nil && hh < sc.fs.H {
		return res // the versions below the snapshot height do not exist after a fast sync
	}
	if hh < sc.End && hh >= 1 && sc.End-hh <= uint64(state.MaxSavedStatesCount-1) {
		res = append(res, step{What: "ResetTo", To: hh})
		for h := hh + 1; h <= sc.End; h++ {
			res = append(res, step{What: "Add", B: sc.Target.b[h]})
		}
	}
	return res
}

func (r *runner) emit(m tr.M) { r.out.Emit(m) }

func lostKind(db *sim.CrashDB) string {
	if db.Lost != nil {
		return db.Lost.K
	}
	return ""
}

func arm(db *sim.CrashDB, c *crashPt) {
	switch {
	case c == nil || c.K == "clean":
		db.Arm(-1)
	case c.K == "":
		db.Arm(c.I)
	default:
		db.ArmKind(c.K, c.Occ)
	}
}

// runCase executes one crash schedule on the real node.
func (r *runner) runCase(c *caseT) {
	sc := r.scenario(c.Sc, c.Retain)
	r.runSeq++
	lo, hi := sc.window()
	db := sim.NewCrashDB(sim.CopyDB(sc.preDB))
	db.HeadId = r.headId
	n := r.w.Boot(kTest, db.NewHandle(), sc.store)
	r.boots++
	if n.BootErr != nil {
		panic(n.BootErr)
	}
	ops := []tr.M{}
	for _, s := range sc.Op {
		ops = append(ops, stepRec(s))
	}
	crashes := []tr.M{}
	for _, x := range c.Crashes {
		crashes = append(crashes, tr.M{"ph": x.Ph, "i": x.I, "k": x.K, "occ": x.Occ})
	}
	broken := c.Broken
	if broken == nil {
		broken = []string{}
	}
	r.emit(tr.M{"ev": "Reset", "run": r.runSeq, "scn": sc.Name, "sc": c.Sc, "ops": ops, "pre": observeFull(n, lo, hi), "crashes": crashes,
		"oldtip": int64(sc.Old.tip), "forkat": int64(sc.ForkAt), "end": int64(sc.End), "src": c.Src, "predicted": broken,
		"chainOld": chainRecs(sc.Old, lo, hi), "chainNew": chainRecs(sc.Target, lo, hi), "retain": state.MaxSavedStatesCount, "mretain": c.Retain,
		"ref": sc.ref.final, "refLedger": sc.ref.ledger})

	pending := append([]crashPt(nil), c.Crashes...)
	next := func(ph string) *crashPt {
		if len(pending) > 0 && pending[0].Ph == ph {
			x := pending[0]
			pending = pending[1:]
			return &x
		}
		return nil
	}

	// ---- the operation under test
	cp := next("op")
	arm(db, cp)
	var opErr error
	cur := "" // the call the process is executing (reported with a crash)
	crashed := safe(func() {
		for _, s := range sc.Op {
			cur = s.What
			if opErr = doStep(n, s); opErr != nil {
				return
			}
		}
	})
	log := db.Disarm()
	r.emitWrites("op", log)
	unresolved := false
	switch {
	case crashed:
		r.emit(tr.M{"ev": "Crash", "ph": "op", "i": len(log), "clean": false, "lost": lostKind(db), "step": cur})
	case cp != nil && cp.K == "clean":
		r.emit(tr.M{"ev": "OpEnd", "ok": opErr == nil, "err": errStr(opErr), "nw": len(log), "obs": observe(n, lo, hi)})
		r.emit(tr.M{"ev": "Crash", "ph": "op", "i": len(log), "clean": true, "lost": "clean", "step": ""})
		crashed = true
	default:
		r.emit(tr.M{"ev": "OpEnd", "ok": opErr == nil, "err": errStr(opErr), "nw": len(log), "obs": observe(n, lo, hi)})
		if cp != nil {
			unresolved = true // the scheduled write never happened: the model's step list differs from the code's
		}
	}
	if opErr != nil && !crashed {
		r.emit(tr.M{"ev": "Final", "reached": false, "why": "operation failed: " + errStr(opErr), "obs": observe(n, lo, hi), "ledger": ledgerDigest(n)})
		r.runs++
		return
	}

	restarted := false
	for round := 0; round < 8; round++ {
		if crashed {
			// ---- restart: the normal start-up sequence on the survivor (may crash again)
			before := sim.DBDigest(db.Inner())
			var n2 *sim.Node
			cp = next("rec")
			arm(db, cp)
			// a start-up sequence that does not terminate is cut off by the write-call budget
			db.Budget = 20000
			var crashed2, hang bool
			func() {
				defer func() {
					if x := recover(); x != nil {
						if _, ok := x.(sim.ErrRunaway); ok {
							hang = true
							return
						}
						panic(x)
					}
				}()
				crashed2 = safe(func() { n2 = r.w.Boot(kTest, db.NewHandle(), sc.store) })
			}()
			db.Budget = 0
			r.boots++
			if hang {
				if hl := db.Disarm(); len(hl) < 200 {
					r.emitWrites("rec", hl)
				} else {
					r.emitWrites("rec", hl[:200])
				}
				r.emit(tr.M{"ev": "Restart", "ok": false, "err": "start-up sequence does not terminate", "pre": before, "obs": emptyObs()})
				r.emit(tr.M{"ev": "Final", "reached": false, "why": "boot hangs", "obs": emptyObs(), "ledger": ""})
				r.runs++
				r.stats["hang"]++
				return
			}
			log2 := db.Disarm()
			r.emitWrites("rec", log2)
			if crashed2 {
				r.emit(tr.M{"ev": "Crash", "ph": "rec", "i": len(log2), "clean": false, "lost": lostKind(db), "step": "Boot"})
				continue
			}
			if cp != nil {
				unresolved = true
			}
			if n2 == nil || n2.BootErr != nil {
				e := ""
				if n2 != nil {
					e = errStr(n2.BootErr)
				}
				r.emit(tr.M{"ev": "Restart", "ok": false, "err": e, "pre": before, "obs": emptyObs()})
				r.emit(tr.M{"ev": "Final", "reached": false, "why": "boot failed", "obs": emptyObs(), "ledger": ""})
				r.runs++
				return
			}
			n = n2
			crashed = false
			restarted = true
			r.emit(tr.M{"ev": "Restart", "ok": true, "err": "", "pre": before, "obs": observe(n, lo, hi)})
		}
		// ---- continuation: the interrupted and the following blocks, then the rollback probe
		cont, known := sc.sync(n)
		if !known {
			r.emit(tr.M{"ev": "Final", "reached": false, "why": "head on no known chain", "obs": observe(n, lo, hi), "ledger": ledgerDigest(n)})
			r.runs++
			return
		}
		if restarted {
			cont = append(cont, sc.probe(n)...)
		}
		planned := []tr.M{}
		for _, s := range cont {
			planned = append(planned, stepRec(s))
		}
		r.emit(tr.M{"ev": "Plan", "steps": planned, "probe": restarted})
		cp = next("cont")
		arm(db, cp)
		var failed *step
		var ferr error
		// Apply events are emitted after the phase (the writes of the phase come first in the trace)
		var applied []tr.M
		crashed = safe(func() {
			for i := range cont {
				s := cont[i]
				cur = s.What
				err := doStep(n, s)
				a := tr.M{"ev": "Apply", "what": s.What, "to": int64(s.To), "b": blkRec(s.B), "ok": err == nil, "err": errStr(err), "head": hobs(n.Chain.Head)}
				applied = append(applied, a)
				if err != nil {
					failed, ferr = &s, err
					return
				}
			}
		})
		log3 := db.Disarm()
		r.emitWrites("cont", log3)
		for _, a := range applied {
			r.emit(a)
		}
		if crashed {
			r.emit(tr.M{"ev": "Crash", "ph": "cont", "i": len(log3), "clean": false, "lost": lostKind(db), "step": cur})
			continue
		}
		if cp != nil {
			unresolved = true
		}
		why := ""
		if failed != nil {
			why = "step rejected: " + errStr(ferr)
		}
		r.emit(tr.M{"ev": "Final", "reached": failed == nil, "why": why, "obs": observe(n, lo, hi), "ledger": ledgerDigest(n), "unresolved": unresolved})
		if unresolved {
			r.stats["unresolved"]++
		}
		r.runs++
		return
	}
	panic("crash schedule does not terminate")
}

func main() {
	out := flag.String("out", "trace.ndjson", "ndjson trace")
	cases := flag.String("cases", "", "crash cases (ndjson, TLC export)")
	enum := flag.Int("enum", 0, "seeded enumeration: number of extra scenarios whose every write index is crashed")
	dbl := flag.Int("double", 0, "seeded enumeration: random double-crash schedules per enumerated scenario")
	shard := flag.String("shard", "0/1", "k/n: run the scenario groups of the case file (and the enumerated scenarios) with index = k mod n")
	eshard := flag.String("enumshard", "", "k/n: run the enumerated scenarios with index = k mod n (default: as -shard)")
	nosweep := flag.Bool("nosweep", false, "do not crash the write positions no schedule addresses")
	verbose := flag.Bool("v", false, "print scenarios")
	prof := flag.String("cpuprofile", "", "write a CPU profile")
	flag.Parse()
	defer sim.Cleanup()
	if *prof != "" {
		f, err := os.Create(*prof)
		if err != nil {
			panic(err)
		}
		pprof.StartCPUProfile(f)
		defer pprof.StopCPUProfile()
	}
	seed := tr.Seed()
	r := &runner{w: newWorld(seed), out: tr.Create(*out), stats: map[string]int{}, cache: map[string]*scenario{}, base: map[bool]*baseT{}, seed: seed, verbose: *verbose}
	var shardK, shardN int
	fmt.Sscanf(*shard, "%d/%d", &shardK, &shardN)
	if shardN < 1 {
		shardN = 1
	}
	var all []*caseT
	if *cases != "" {
		tr.ReadLines(*cases, func(raw []byte) {
			c := new(caseT)
			if err := json.Unmarshal(raw, c); err != nil {
				panic(err)
			}
			if c.Src == "" {
				c.Src = "tlc"
			}
			all = append(all, c)
		})
	}
	// group by scenario so that one process builds each pre-state once; shard by scenario
	key := func(c *caseT) string { b, _ := json.Marshal(c.Sc); return fmt.Sprint(c.Retain, string(b)) }
	sort.SliceStable(all, func(i, j int) bool { return key(all[i]) < key(all[j]) })
	groups := map[string]int{}
	for _, c := range all {
		if _, ok := groups[key(c)]; !ok {
			groups[key(c)] = len(groups)
		}
	}
	t0 := time.Now()
	// positions of the operation's REAL write sequence that no schedule of the model addresses
	// (writes the model does not know, or knows in another order) are crashed too: sweep
	covered := map[string]map[string]bool{}
	var order []*caseT
	for _, c := range all {
		if groups[key(c)]%shardN != shardK {
			continue
		}
		k := key(c)
		if covered[k] == nil {
			covered[k] = map[string]bool{}
			order = append(order, c)
		}
		if len(c.Crashes) == 1 && c.Crashes[0].Ph == "op" {
			covered[k][fmt.Sprint(c.Crashes[0].K, "/", c.Crashes[0].Occ)] = true
		}
		r.runCase(c)
	}
	for _, c0 := range order {
		if *nosweep {
			break
		}
		sc := r.scenario(c0.Sc, c0.Retain)
		occ := map[string]int{}
		for i, k := range sc.ref.kinds {
			occ[k]++
			if covered[key(c0)][fmt.Sprint(k, "/", occ[k])] || (bulkKinds[k] && occ[k] > 1) {
				continue
			}
			r.runCase(&caseT{Sc: c0.Sc, Retain: c0.Retain, Src: "sweep", Crashes: []crashPt{{Ph: "op", I: i}}})
			r.stats["sweep"]++
		}
	}
	if *enum > 0 {
		ek, en := shardK, shardN
		if *eshard != "" {
			fmt.Sscanf(*eshard, "%d/%d", &ek, &en)
			if en < 1 {
				en = 1
			}
		}
		r.enumerate(*enum, *dbl, ek, en)
	}
	r.out.Close()
	var st []string
	for k, v := range r.stats {
		st = append(st, fmt.Sprintf("%s=%d", k, v))
	}
	sort.Strings(st)
	fmt.Printf("runs=%d boots=%d scenarios=%d lines=%d wall=%.1fs %s\n", r.runs, r.boots, len(r.cache), r.out.N, time.Since(t0).Seconds(), strings.Join(st, " "))
}

var _ ipfs.Proxy
