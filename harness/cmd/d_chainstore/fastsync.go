package main

// Fast-sync scenario family: the node under test is at height h0, the network at H.  The driver
// issues, on the REAL objects, the sequence of exported calls protocol/fast.go makes (the fastSync
// type itself is unexported and tied to the gossip handler and to an ipfs download, so its call
// sequence is transcribed here; what the calls DO is the repository's code):
//
//	preConsuming      IdentityStateDB.CreatePreliminaryCopy(head)   | LoadPreliminary(preliminary head) when resuming
//	per header        identityStateDB.AddDiff + root check, CommitTree when the diff is not empty,
//	                  Blockchain.AddHeaderUnsafe, Blockchain.WriteIdentityStateDiff
//	postConsuming     StateDB.RecoverSnapshot2 (snapshot written by the proposer's StateDB.WriteSnapshot2),
//	                  identityStateDB.SaveForcedVersion, Blockchain.AtomicSwitchToPreliminary
//
// Every durable write of that sequence is a crash point; after the crash the normal start-up
// sequence runs, fast sync is resumed the way fast.go resumes it (preliminary head present ->
// LoadPreliminary, failure -> drop the preliminaries and start over) and the following blocks are
// inserted normally.

import (
	"bytes"
	"errors"
	"fmt"
	"time"

	"github.com/idena-network/idena-go/core/state"
	"github.com/idena-network/idena-go/core/state/snapshot"

	"verifh/internal/sim"
)

type fsData struct {
	H        uint64
	Snapshot []byte
	Diffs    map[uint64]*state.IdentityStateDiff
}

// waitDropped waits until the background deletion of the replaced tree databases (a goroutine
// started by AtomicSwitchToPreliminary) is complete - or the process has died inside it.
func waitDropped(h *sim.Handle, oldPrefixes [][]byte) {
	empty := func(pfx []byte) bool {
		if len(pfx) == 0 {
			return true
		}
		end := append([]byte{}, pfx...)
		end[len(end)-1]++
		it, err := h.C.DB.Iterator(pfx, end)
		if err != nil {
			return true
		}
		defer it.Close()
		return !it.Valid()
	}
	for i := 0; i < 20000; i++ {
		if h.C.Dead() {
			// the cleaner's remaining deletes are discarded; give it the time to run out
			last, same := -1, 0
			for j := 0; j < 4000 && same < 20; j++ {
				time.Sleep(500 * time.Microsecond)
				if c := h.C.Calls(); c == last {
					same++
				} else {
					last, same = c, 0
				}
			}
			return
		}
		done := true
		for _, p := range oldPrefixes {
			if !empty(p) {
				done = false
			}
		}
		if done {
			return
		}
		time.Sleep(200 * time.Microsecond)
	}
	panic("replaced databases are not deleted")
}

func dropPreliminaries(n *sim.Node) {
	n.Chain.RemovePreliminaryHead(nil)
	n.Chain.RemovePreliminaryConsensusVersion()
	n.Chain.RemovePreliminaryIntermediateGenesis()
	n.App.IdentityState.DropPreliminary()
}

func fastSync(n *sim.Node, sc *scenario) error {
	fs := sc.fs
	chain := n.Chain
	var idb *state.IdentityStateDB
	var err error
	var from uint64
	// preConsuming
	for attempt := 0; ; attempt++ {
		if chain.PreliminaryHead == nil {
			head := chain.Head
			chain.PreliminaryHead = head
			if idb, err = n.App.IdentityState.CreatePreliminaryCopy(head.Height()); err != nil {
				return err
			}
			from = head.Height() + 1
			break
		}
		if idb, err = n.App.IdentityState.LoadPreliminary(chain.PreliminaryHead.Height()); err != nil {
			if attempt > 0 {
				return err
			}
			dropPreliminaries(n)
			continue
		}
		from = chain.PreliminaryHead.Height() + 1
		break
	}
	// headers (applyDeferredBlocks)
	for h := from; h <= fs.H; h++ {
		b := sc.Target.b[h]
		hdr := sim.Decode(b.Data).Header
		diff := fs.Diffs[h]
		if diff == nil {
			diff = new(state.IdentityStateDiff)
		}
		idb.AddDiff(h, diff)
		if idb.Root() != hdr.IdentityRoot() {
			idb.Reset()
			return errors.New("identity root is invalid")
		}
		if !diff.Empty() {
			idb.CommitTree(int64(h))
		}
		if err := chain.AddHeaderUnsafe(hdr); err != nil {
			return err
		}
		chain.WriteIdentityStateDiff(h, diff)
	}
	// postConsuming
	if chain.PreliminaryHead.Height() != fs.H {
		return errors.New("preliminary head is lower than manifest's head")
	}
	if err := n.App.State.RecoverSnapshot2(fs.H, chain.PreliminaryHead.Root(), bytes.NewReader(fs.Snapshot)); err != nil {
		return err
	}
	if err := idb.SaveForcedVersion(chain.PreliminaryHead.Height()); err != nil {
		return err
	}
	oldS, _ := n.DB.Get([]byte{1})
	oldI, _ := n.DB.Get([]byte{2})
	if err := chain.AtomicSwitchToPreliminary(&snapshot.Manifest{Height: fs.H, Root: chain.PreliminaryHead.Root()}); err != nil {
		return err
	}
	if h, ok := n.DB.(*sim.Handle); ok {
		waitDropped(h, [][]byte{oldS, oldI})
	}
	return nil
}

// buildFastSync completes a FastSync scenario: blocks h0+1..H of the given kinds, identity diffs as
// served by the proposer, the snapshot of the state at H written by the proposer's own code.
func buildFastSync(sc *scenario, pa *producer, A *chainT, h0 uint64, kinds []string) {
	H := h0 + uint64(len(kinds))
	fs := &fsData{H: H, Diffs: map[uint64]*state.IdentityStateDiff{}}
	for h := h0 + 1; h <= H; h++ {
		if d := pa.n.Chain.GetIdentityDiff(h); d != nil && !d.Empty() {
			fs.Diffs[h] = d
			if !A.b[h].Diff {
				panic("identity diff for a block that is not of kind idupd")
			}
		} else if A.b[h].Diff {
			panic(fmt.Sprintf("no identity diff stored for block %d", h))
		}
	}
	var buf bytes.Buffer
	root, err := pa.n.App.State.WriteSnapshot2(H, &buf)
	if err != nil {
		panic(err)
	}
	if hx(root[:]) != A.b[H].Root {
		panic("snapshot root differs from the block root")
	}
	fs.Snapshot = buf.Bytes()
	sc.fs = fs
	sc.Op = []step{{What: "FastSync", B: A.b[H]}}
	sc.Target, sc.End = A, H+2
}
