// d_fork: conformance driver of the fork-adoption check (C08).
//
// For every case (a fork SHAPE exported by TLC from spec/ForkStore.tla, or a seeded random one) the
// driver builds the two branches with real nodes on top of a common chain, fabricates the fork the
// way the shape says (invalid blocks, certificates of every kind), ships it as the bytes of a real
// BlocksRange message, and feeds it to the REAL consensus.ForkResolver of an adopter node
// (checkForkSize, processBlocks -> ValidateSubChain, ApplyFork -> ResetTo/AddBlock/WriteCertificate).
// A reference replica follows the fork from the ancestor.  Everything that happened is written as an
// ndjson trace; the verdict is TLC's (spec/Trace_ForkStore.tla).
package main

import (
	"flag"
	"fmt"
	"math/rand"
	"os"
	"runtime"
	"runtime/debug"
	"strings"

	"encoding/json"

	"github.com/idena-network/idena-go/blockchain/attachments"
	"github.com/idena-network/idena-go/blockchain/types"
	"github.com/idena-network/idena-go/common"
	"github.com/idena-network/idena-go/consensus"
	"github.com/idena-network/idena-go/core/state"
	"github.com/idena-network/idena-go/stats/collector"
	dbm "github.com/tendermint/tm-db"

	"verifh/internal/sim"
	"verifh/internal/tr"
)

// ---------------------------------------------------------------------------------------------
// cases

type OwnBlk struct {
	K string `json:"k"` // plain | empty | txs | kill | online
}
type ForkBlk struct {
	K string `json:"k"` // plain | empty | txs | kill | online
	V string `json:"v"` // valid | badroot | badtx | badflags
	C string `json:"c"` // nil | empty | under | forged | valid
}
type Case struct {
	Id   int       `json:"id"`
	Own  []OwnBlk  `json:"own"`
	Fork []ForkBlk `json:"fork"`
	Seed string    `json:"seed"` // better | worse | equal (first fork block vs first own block)
	Anc  int       `json:"anc"`  // which common prefix (parity of the ancestor height)
	Src  string    `json:"src"`
}

// roles (key indexes of the world)
const (
	kGod    = 0 // god, verified, online
	kV1     = 1 // verified, online
	kV2     = 2 // verified, online
	kVictim = 3 // verified, online; kills itself in "kill" blocks
	kJoiner = 4 // verified, offline; goes online in "online" blocks
	kPayA   = 5 // plain accounts
	kPayB   = 6
	kStrng1 = 7 // strangers (never identities): sign forged certificates
	kStrng2 = 8
	kStrng3 = 9
	nKeys   = 10
)

type env struct {
	w      *sim.World
	rnd    *rand.Rand
	prefix []dbm.DB             // snapshots of the common chain (two ancestor heights)
	seeds  []map[int]types.Seed // per prefix: seed of a block proposed by key k on top of it
	eseed  []types.Seed         // per prefix: seed of the empty block on top of it
	out    *tr.W
	stats  map[string]int
}

func must(err error) {
	if err != nil {
		panic(err)
	}
}

func (e *env) buildWorld(seed int64) {
	w := sim.NewWorld(seed, nKeys)
	w.Cons.StatusSwitchRange = 2
	for _, k := range []int{kGod, kV1, kV2, kVictim, kJoiner} {
		w.Allocs = append(w.Allocs, sim.Alloc{Key: k, State: state.Verified, Balance: sim.Dna(8000, 1), Stake: sim.Dna(500, 1)})
	}
	for _, k := range []int{kPayA, kPayB} {
		w.Allocs = append(w.Allocs, sim.Alloc{Key: k, State: state.Undefined, Balance: sim.Dna(9000, 1)})
	}
	e.w = w
	g := w.NewNode(kGod)
	must(g.BootErr)
	br := w.NewBranch(g.DB)
	g.Close()
	// block 2: god proposes (nobody is online yet); god, V1, V2 and the victim go online (height 2 is a
	// status-switch height, so the block itself carries IdentityUpdate)
	var txs []*types.Transaction
	for _, k := range []int{kGod, kV1, kV2, kVictim} {
		txs = append(txs, w.Tx(sim.TxSpec{From: k, Type: types.OnlineStatusTx, MaxFee: sim.Dna(100, 1), Nonce: 1,
			Payload: attachments.CreateOnlineStatusAttachment(true)}))
	}
	_, err := br.Propose(kGod, txs, 20)
	must(err)
	if on := br.State.App.ValidatorsCache.OnlineSize(); on != 4 {
		panic(fmt.Sprintf("prefix: expected 4 online validators, have %d", on))
	}
	// blocks 3..6: ordinary traffic by rotating proposers
	// (snapshots at heights 6..11: three ancestors of each parity, so that a requested seed relation
	// that one ancestor cannot realise is realised on another)
	props := []int{kV1, kV2, kVictim, kGod}
	for i := 0; i < 9; i++ {
		tx := e.payTx(br, kPayA, kPayB, int64(3+i))
		_, err := br.Propose(props[i%4], []*types.Transaction{tx}, 20)
		must(err)
		if i >= 3 {
			e.prefix = append(e.prefix, sim.CopyDB(br.State.DB))
		}
	}
	br.Close()
	// candidate seeds on top of each prefix
	for _, db := range e.prefix {
		m := map[int]types.Seed{}
		for _, k := range []int{kGod, kV1, kV2, kVictim} {
			b := w.NewBranch(db)
			bb, err := b.Propose(k, nil, 20)
			must(err)
			m[k] = bb.Block.Seed()
			b.Close()
		}
		b := w.NewBranch(db)
		bb, err := b.EmptyBlock()
		must(err)
		e.eseed = append(e.eseed, bb.Block.Seed())
		b.Close()
		e.seeds = append(e.seeds, m)
	}
}

func (e *env) payTx(br *sim.Branch, from, to int, amount int64) *types.Transaction {
	st := br.State.App.State
	return e.w.Tx(sim.TxSpec{From: from, To: &e.w.Addrs[to], Type: types.SendTx, Amount: sim.Dna(amount, 1), MaxFee: sim.Dna(100, 1),
		Nonce: st.GetNonce(e.w.Addrs[from]) + 1, Epoch: st.Epoch()})
}

// content returns the transactions of a block of the given kind on the current branch state; the
// realised kind may degrade (e.g. a second kill on the same branch becomes plain traffic).
func (e *env) content(br *sim.Branch, kind string, variant int) ([]*types.Transaction, string) {
	st := br.State.App.State
	vc := br.State.App.ValidatorsCache
	w := e.w
	switch kind {
	case "kill":
		if vc.IsValidated(w.Addrs[kVictim]) {
			return []*types.Transaction{w.Tx(sim.TxSpec{From: kVictim, Type: types.KillTx, MaxFee: sim.Dna(100, 1),
				Nonce: st.GetNonce(w.Addrs[kVictim]) + 1, Epoch: st.Epoch()})}, "kill"
		}
		kind = "txs"
	case "online":
		a := w.Addrs[kJoiner]
		if !st.HasStatusSwitchAddresses(a) {
			return []*types.Transaction{w.Tx(sim.TxSpec{From: kJoiner, Type: types.OnlineStatusTx, MaxFee: sim.Dna(100, 1),
				Nonce: st.GetNonce(a) + 1, Epoch: st.Epoch(), Payload: attachments.CreateOnlineStatusAttachment(!vc.IsOnlineIdentity(a))})}, "online"
		}
		kind = "txs"
	}
	if kind == "txs" {
		if variant%2 == 0 {
			return []*types.Transaction{e.payTx(br, kPayA, kPayB, 7)}, "txs"
		}
		t1 := e.payTx(br, kPayB, kPayA, 5)
		return []*types.Transaction{t1, e.payTx(br, kPayA, kPayB, int64(11+variant))}, "txs"
	}
	return nil, kind
}

// proposers that are online validators on the branch right now (victim excluded once killed)
func (e *env) onlineProposers(br *sim.Branch) []int {
	var res []int
	for _, k := range []int{kGod, kV1, kV2, kVictim, kJoiner} {
		if br.State.App.ValidatorsCache.IsOnlineIdentity(e.w.Addrs[k]) {
			res = append(res, k)
		}
	}
	return res
}

// firstProposers picks the proposers of the first own / first fork block so that the fork's seed
// relates to the own seed as requested (when the kinds allow it).
func (e *env) firstProposers(c *Case, px int) (po, pf int, ok bool) {
	cand := []int{kGod, kV1, kV2, kVictim}
	e.rnd.Shuffle(len(cand), func(i, j int) { cand[i], cand[j] = cand[j], cand[i] })
	seeds := e.seeds[px]
	ownEmpty, forkEmpty := c.Own[0].K == "empty", c.Fork[0].K == "empty"
	want := map[string]int{"better": 1, "worse": -1, "equal": 0}[c.Seed]
	// a kill block must not be proposed by the victim itself?  (it may: the proposer is checked on the pre-state)
	switch {
	case ownEmpty && forkEmpty:
		return -1, -1, want == 0
	case ownEmpty:
		for _, k := range cand {
			if sgn(sim.SeedCmp(seeds[k], e.eseed[px])) == want {
				return -1, k, true
			}
		}
		return -1, cand[0], false
	case forkEmpty:
		for _, k := range cand {
			if sgn(sim.SeedCmp(e.eseed[px], seeds[k])) == want {
				return k, -1, true
			}
		}
		return cand[0], -1, false
	}
	for _, a := range cand {
		for _, b := range cand {
			if sgn(sim.SeedCmp(seeds[b], seeds[a])) == want {
				return a, b, true
			}
		}
	}
	return cand[0], cand[1], false
}

// choosePrefix picks a common chain whose ancestor height has the requested parity and on which the
// requested seed relation can be realised.
func (e *env) choosePrefix(c *Case) (px, po, pf int) {
	var idx []int
	for i := range e.prefix {
		if i%2 == c.Anc%2 {
			idx = append(idx, i)
		}
	}
	e.rnd.Shuffle(len(idx), func(i, j int) { idx[i], idx[j] = idx[j], idx[i] })
	for _, i := range idx {
		if a, b, ok := e.firstProposers(c, i); ok {
			return i, a, b
		}
	}
	a, b, _ := e.firstProposers(c, idx[0])
	return idx[0], a, b
}

func sgn(x int) int {
	if x > 0 {
		return 1
	}
	if x < 0 {
		return -1
	}
	return 0
}

// ---------------------------------------------------------------------------------------------

type blkRec struct {
	K     string   `json:"k"`
	V     string   `json:"v"`
	C     string   `json:"c"`
	Sub   string   `json:"sub"` // how the validity / certificate class was realised
	Empty bool     `json:"empty"`
	IdUpd bool     `json:"idupd"`
	H     uint64   `json:"h"`
	Hash  string   `json:"hash"`
	Txs   []string `json:"txs"`
	Prop  int      `json:"prop"`
	Need  int      `json:"need"`
	Sigs  int      `json:"sigs"`
}

func hx(h common.Hash) string { return fmt.Sprintf("%x", h[:8]) }

func errStr(err error) string {
	if err == nil {
		return ""
	}
	s := err.Error()
	if len(s) > 160 {
		s = s[:160]
	}
	return s
}

// buildBranch builds the honest chain of a branch from the kinds.
func (e *env) buildBranch(db dbm.DB, kinds []string, first int, variant int) (*sim.Branch, []string) {
	br := e.w.NewBranch(db)
	var real []string
	for i, k := range kinds {
		var bb *sim.Built
		var err error
		if k == "empty" {
			bb, err = br.EmptyBlock()
			real = append(real, "empty")
		} else {
			txs, rk := e.content(br, k, variant+i)
			p := first
			if i > 0 || p < 0 {
				on := e.onlineProposers(br)
				p = on[(variant+i)%len(on)]
			}
			bb, err = br.Propose(p, txs, 20)
			if err == nil && len(bb.TxIds) != len(txs) {
				err = fmt.Errorf("proposer dropped scenario txs: %d of %d included", len(bb.TxIds), len(txs))
			}
			real = append(real, rk)
		}
		if err != nil {
			panic(fmt.Sprintf("branch block %d (%s): %v", i, k, err))
		}
		_ = bb
	}
	return br, real
}

func (e *env) run(c *Case) {
	w := e.w
	px, po, pf := e.choosePrefix(c)
	base := e.prefix[px]
	variant := e.rnd.Intn(1000)

	// --- own branch (honest) and the adopter that lives on it
	var okinds, fkinds []string
	for _, b := range c.Own {
		okinds = append(okinds, b.K)
	}
	for _, b := range c.Fork {
		fkinds = append(fkinds, b.K)
	}
	own, oreal := e.buildBranch(base, okinds, po, variant)
	defer own.Close()
	fork, freal := e.buildBranch(base, fkinds, pf, variant+1)
	defer fork.Close()

	adopter := w.Boot(kV1, sim.CopyDB(base), nil)
	must(adopter.BootErr)
	defer adopter.Close()
	anc := adopter.Chain.Head.Height()
	var ownRecs []blkRec
	for i, bb := range own.Blocks {
		must(adopter.Add(bb.Data))
		cert := w.CertFor(pick(bb.Signers, bb.Need), bb.Block.Height(), bb.Block.Header.ParentHash(), bb.Block.Hash())
		adopter.Chain.WriteCertificate(bb.Block.Hash(), cert, bb.IdUpd)
		ownRecs = append(ownRecs, blkRec{K: oreal[i], V: "valid", C: "valid", Empty: bb.Empty, IdUpd: bb.IdUpd, H: bb.Block.Height(),
			Hash: hx(bb.Block.Hash()), Txs: bb.TxIds, Prop: bb.Proposer, Need: bb.Need, Sigs: bb.Need})
	}

	// --- fabricate the fork as the peer sends it
	var blocks []*types.Block
	var certs []*types.BlockCert
	var forkRecs []blkRec
	parent := fork.State.Chain.GetBlockHeaderByHeight(anc).Hash()
	patched := false
	for i, bb := range fork.Blocks {
		blk := sim.Decode(bb.Data)
		rec := blkRec{K: freal[i], V: c.Fork[i].V, C: c.Fork[i].C, Empty: bb.Empty, H: blk.Height(), Prop: bb.Proposer, Need: bb.Need}
		if patched {
			sim.Reparent(blk, parent)
		}
		switch c.Fork[i].V {
		case "badroot":
			which := e.rnd.Intn(2)
			sim.TamperRoot(blk, which)
			rec.Sub = []string{"stateroot", "idroot"}[which]
			patched = true
		case "badtx":
			if bb.Empty {
				sim.TamperRoot(blk, 0)
				rec.V, rec.Sub = "badroot", "stateroot"
			} else {
				tx, sub := e.badTx(fork, i)
				fork.State.AppendTx(blk, tx)
				rec.Sub = sub
			}
			patched = true
		case "badflags":
			sim.FlipFlag(blk, types.IdentityUpdate)
			rec.Sub = "idupd-flipped"
			patched = true
		}
		blk = sim.Decode(sim.Encode(blk)) // drop cached hashes
		rec.IdUpd = blk.Header.Flags().HasFlag(types.IdentityUpdate)
		rec.Hash = hx(blk.Hash())
		rec.Txs = []string{}
		for _, tx := range blk.Body.Transactions {
			rec.Txs = append(rec.Txs, hx(tx.Hash()))
		}
		cert, realC, sub, sigs := e.makeCert(c.Fork[i].C, bb, blk, parent, own, fork, i)
		rec.C = realC
		if sub != "" {
			rec.Sub = strings.TrimPrefix(rec.Sub+"+"+sub, "+")
		}
		rec.Sigs = sigs
		blocks = append(blocks, blk)
		certs = append(certs, cert)
		forkRecs = append(forkRecs, rec)
		parent = blk.Hash()
	}

	sc := &scenario{c: c, base: base, adopter: adopter, anc: anc, own: own, fork: fork, ownRecs: ownRecs, patched: patched, variant: variant,
		resolver: consensus.NewForkResolver([]consensus.ForkDetector{}, nil, adopter.Chain, collector.NewStatsCollector())}

	// --- history: now and then the same resolver has first been offered (and must have refused) a spoiled
	// copy of the fork: the tip's state root is tampered, whatever certificate travelled with it no
	// longer matches
	if c.Src == "random" && e.rnd.Intn(3) == 0 {
		db := make([]*types.Block, len(blocks))
		dc := append([]*types.BlockCert(nil), certs...)
		dr := append([]blkRec(nil), forkRecs...)
		copy(db, blocks)
		last := len(blocks) - 1
		t := sim.Decode(sim.Encode(blocks[last]))
		sim.TamperRoot(t, 0)
		t = sim.Decode(sim.Encode(t))
		db[last] = t
		if dr[last].V == "valid" {
			dr[last].V, dr[last].Sub = "badroot", "stateroot(decoy)"
		}
		if dr[last].C == "valid" || dr[last].C == "under" {
			dr[last].C = "forged"
		}
		dr[last].Hash = hx(t.Hash())
		if adoptedDecoy := e.offer(sc, c.Id, "decoy", db, dc, dr); adoptedDecoy {
			return
		}
	}
	e.offer(sc, c.Id, c.Src, blocks, certs, forkRecs)
}

type scenario struct {
	c        *Case
	base     dbm.DB
	adopter  *sim.Node
	resolver *consensus.ForkResolver
	anc      uint64
	own      *sim.Branch
	fork     *sim.Branch
	ownRecs  []blkRec
	patched  bool
	variant  int
}

// offer ships the fork to the adopter's resolver and records everything that happens.
func (e *env) offer(sc *scenario, id int, src string, blocks []*types.Block, certs []*types.BlockCert, forkRecs []blkRec) (moved bool) {
	w, adopter, resolver, anc, own, fork, c := e.w, sc.adopter, sc.resolver, sc.anc, sc.own, sc.fork, sc.c

	// --- what the weight rule looks at
	headH := adopter.Chain.Head.Height()
	lastH := blocks[len(blocks)-1].Height()
	seedRel := []string{"worse", "equal", "better"}[sgn(sim.SeedCmp(blocks[0].Seed(), own.Blocks[0].Block.Seed()))+1]
	top := headH
	if lastH > top {
		top = lastH
	}
	top++
	pre := adopter.Summarise(anc, top, false)

	wire := sim.PackFork(blocks, certs)
	bundles, err := wire.Unpack()
	must(err)
	// wall clock: after every block of both branches
	maxT := adopter.Chain.Head.Time()
	for _, b := range blocks {
		if b.Header.Time() > maxT {
			maxT = b.Header.Time()
		}
	}
	w.SetNow(maxT + 1)

	e.out.Emit(tr.M{"ev": "Offer", "id": id, "src": src, "anc": anc, "head": headH, "own": sc.ownRecs, "fork": forkRecs,
		"seed": seedRel, "reqseed": c.Seed, "pre": pre})

	sizeErr := resolver.VerifCheckForkSize(bundles)
	e.out.Emit(tr.M{"ev": "CheckSize", "id": id, "ok": sizeErr == nil, "err": errStr(sizeErr)})

	ch := make(chan types.BlockBundle, len(bundles)+1)
	// the peer's answer arrives in arbitrary order: processBlocks sorts by height
	perm := e.rnd.Perm(len(bundles))
	for _, i := range perm {
		ch <- bundles[i]
	}
	close(ch)
	var perr error
	pan := guard(func() { perr = resolver.VerifProcessBlocks(ch, "peer") })
	_, _, loaded := resolver.VerifLoadedFork()
	stage := ""
	if perr != nil {
		switch {
		case strings.HasPrefix(perr.Error(), "fork is smaller"):
			stage = "size"
		case strings.HasPrefix(perr.Error(), "unacceptable fork"):
			stage = "validate"
		default:
			stage = "other"
		}
	}
	mid := adopter.Summarise(anc, top, false)
	e.out.Emit(tr.M{"ev": "Process", "id": id, "loaded": loaded, "stage": stage, "err": errStr(perr), "panic": pan, "st": mid})
	e.stats["offers"]++

	if !loaded {
		e.stats["refused"]++
		return pan != ""
	}
	e.stats["loaded"]++
	var reverted []*types.Transaction
	var aerr error
	pan = guard(func() { reverted, aerr = resolver.ApplyFork() })
	rev := []string{}
	for _, tx := range reverted {
		rev = append(rev, hx(tx.Hash()))
	}
	post := adopter.Summarise(anc, top, true)
	postAccts := post.State.Accts
	post.State.Accts = []*sim.Acct{}
	e.out.Emit(tr.M{"ev": "Apply", "id": id, "err": errStr(aerr), "panic": pan, "reverted": rev, "still": resolver.HasLoadedFork(), "st": post})

	// --- reference replica: follows the fork from the ancestor (full-sync style insertion)
	ref := w.Boot(kV2, sim.CopyDB(sc.base), nil)
	must(ref.BootErr)
	defer ref.Close()
	refErr := ""
	for i, b := range bundles {
		if err := ref.Add(sim.Encode(b.Block)); err != nil {
			refErr = fmt.Sprintf("block %d: %s", i, errStr(err))
			break
		}
		if !b.Cert.Empty() {
			ref.Chain.WriteCertificate(b.Block.Hash(), b.Cert, true)
		}
	}
	rs := ref.Summarise(anc, top, true)
	// diagnostics only: the accounts in which the two ledgers differ (the verdict uses the digests)
	diff := []tr.M{}
	if rs.State.Ledger != post.State.Ledger {
		ra := map[string]*sim.Acct{}
		for _, a := range rs.State.Accts {
			ra[a.A] = a
		}
		for _, a := range postAccts {
			ja, _ := json.Marshal(a)
			jr, _ := json.Marshal(ra[a.A])
			if string(ja) != string(jr) && len(diff) < 4 {
				diff = append(diff, tr.M{"adopter": a, "reference": ra[a.A]})
			}
		}
	}
	rs.State.Accts = []*sim.Acct{}
	e.out.Emit(tr.M{"ev": "Sync", "id": id, "err": refErr, "st": rs, "acctdiff": diff})

	// --- life goes on: the next honest block of the fork's chain must land identically on both
	if aerr == nil && pan == "" && refErr == "" && !sc.patched && src != "decoy" {
		on := e.onlineProposers(fork)
		txs, _ := e.content(fork, "txs", sc.variant)
		nb, err := fork.Propose(on[sc.variant%len(on)], txs, 20)
		must(err)
		ea := adopter.Add(nb.Data)
		er := ref.Add(nb.Data)
		e.out.Emit(tr.M{"ev": "Extend", "id": id, "aerr": errStr(ea), "rerr": errStr(er),
			"a": adopter.Summarise(anc, top+1, false), "r": ref.Summarise(anc, top+1, false)})
	}
	return true
}

func pick(signers []int, n int) []int {
	if n > len(signers) {
		n = len(signers)
	}
	return signers[:n]
}

func guard(fn func()) (pan string) {
	defer func() {
		if r := recover(); r != nil {
			st := string(debug.Stack())
			where := ""
			for _, l := range strings.Split(st, "\n") {
				if strings.Contains(l, "idena-go/") && !strings.Contains(l, "verif") {
					where = strings.TrimSpace(l)
					break
				}
			}
			pan = fmt.Sprintf("%v @ %s", r, where)
		}
	}()
	fn()
	return ""
}

// badTx returns a transaction that cannot be applied on top of fork block i.
func (e *env) badTx(fork *sim.Branch, i int) (*types.Transaction, string) {
	w := e.w
	st := fork.State.App.State
	switch e.rnd.Intn(3) {
	case 0: // far too large amount
		return w.Tx(sim.TxSpec{From: kPayB, To: &w.Addrs[kPayA], Type: types.SendTx, Amount: sim.Dna(1000000, 1), MaxFee: sim.Dna(100, 1),
			Nonce: st.GetNonce(w.Addrs[kPayB]) + 50, Epoch: st.Epoch()}), "overspend"
	case 1: // nonce from the past
		return w.Tx(sim.TxSpec{From: kPayA, To: &w.Addrs[kPayB], Type: types.SendTx, Amount: sim.Dna(1, 1), MaxFee: sim.Dna(100, 1),
			Nonce: 1, Epoch: st.Epoch()}), "stale-nonce"
	default: // a stranger pretending to be an identity
		return w.Tx(sim.TxSpec{From: kStrng1, Type: types.OnlineStatusTx, MaxFee: sim.Dna(100, 1), Nonce: 1, Epoch: st.Epoch(),
			Payload: attachments.CreateOnlineStatusAttachment(true)}), "stranger-online"
	}
}

// makeCert realises a certificate class for fork block i (blk is the block as sent).
func (e *env) makeCert(class string, bb *sim.Built, blk *types.Block, parent common.Hash, own, fork *sim.Branch, i int) (*types.BlockCert, string, string, int) {
	w := e.w
	h := blk.Height()
	signers := append([]int(nil), bb.Signers...)
	e.rnd.Shuffle(len(signers), func(a, b int) { signers[a], signers[b] = signers[b], signers[a] })
	switch class {
	case "nil":
		return nil, "nil", "", 0
	case "empty":
		if e.rnd.Intn(2) == 0 {
			return &types.BlockCert{}, "empty", "zero", 0
		}
		return &types.BlockCert{Round: h, Step: types.Final, VotedHash: blk.Hash()}, "empty", "header-only", 0
	case "under":
		if bb.Need < 2 {
			return &types.BlockCert{}, "empty", "zero", 0
		}
		n := 1 + e.rnd.Intn(bb.Need-1)
		return w.CertFor(signers[:n], h, parent, blk.Hash()), "under", fmt.Sprintf("%dof%d", n, bb.Need), n
	case "valid":
		n := bb.Need + e.rnd.Intn(len(signers)-bb.Need+1)
		return w.CertFor(signers[:n], h, parent, blk.Hash()), "valid", fmt.Sprintf("%dof%d", n, bb.Need), n
	}
	// forged
	need := bb.Need
	opts := []string{"strangers", "wronghash", "wrongparent", "wronground", "onestranger"}
	if need >= 2 {
		opts = append(opts, "dupvoter")
	}
	killed := !fork.State.App.ValidatorsCache.IsValidated(w.Addrs[kVictim]) && !contains(bb.Signers, kVictim)
	if killed {
		opts = append(opts, "killedvoter")
	}
	switch o := opts[e.rnd.Intn(len(opts))]; o {
	case "strangers":
		return w.CertFor([]int{kStrng1, kStrng2, kStrng3, kPayA}[:max(need, 1)], h, parent, blk.Hash()), "forged", o, need
	case "wronghash":
		other := bb.Block.Hash()
		if other == blk.Hash() {
			if i < len(own.Blocks) {
				other = own.Blocks[i].Block.Hash()
			} else {
				other = parent
			}
		}
		if other == blk.Hash() {
			other = parent
		}
		return w.CertFor(signers[:need], h, parent, other), "forged", o, need
	case "wrongparent":
		return w.CertFor(signers[:need], h, blk.Hash(), blk.Hash()), "forged", o, need
	case "wronground":
		return w.CertFor(signers[:need], h+1, parent, blk.Hash()), "forged", o, need
	case "onestranger":
		s := append([]int{}, signers[:need]...)
		s[e.rnd.Intn(len(s))] = kStrng1
		return w.CertFor(s, h, parent, blk.Hash()), "forged", o, need
	case "dupvoter":
		s := make([]int, need)
		for j := range s {
			s[j] = signers[0]
		}
		return w.CertFor(s, h, parent, blk.Hash()), "forged", o, need
	default: // killedvoter: quorum only if the identity killed earlier in the fork still counted
		s := append([]int{kVictim}, signers[:need-1]...)
		return w.CertFor(s, h, parent, blk.Hash()), "forged", "killedvoter", need
	}
}

func contains(a []int, x int) bool {
	for _, y := range a {
		if y == x {
			return true
		}
	}
	return false
}

func max(a, b int) int {
	if a > b {
		return a
	}
	return b
}

// ---------------------------------------------------------------------------------------------

func (e *env) randomCase(id int, maxLen int) *Case {
	r := e.rnd
	kinds := []string{"plain", "plain", "empty", "txs", "txs", "kill", "online"}
	c := &Case{Id: id, Src: "random", Anc: r.Intn(2), Seed: []string{"better", "worse", "equal"}[r.Intn(3)]}
	d, l := 1+r.Intn(maxLen), 1+r.Intn(maxLen)
	for i := 0; i < d; i++ {
		c.Own = append(c.Own, OwnBlk{K: kinds[r.Intn(len(kinds))]})
	}
	// mostly acceptable forks, with one defect placed somewhere
	for i := 0; i < l; i++ {
		cc := []string{"valid", "valid", "nil", "empty"}[r.Intn(4)]
		if i == l-1 {
			cc = "valid"
		}
		c.Fork = append(c.Fork, ForkBlk{K: kinds[r.Intn(len(kinds))], V: "valid", C: cc})
	}
	switch r.Intn(4) {
	case 0:
		i := r.Intn(l)
		c.Fork[i].C = []string{"nil", "empty", "under", "forged"}[r.Intn(4)]
	case 1:
		i := r.Intn(l)
		c.Fork[i].V = []string{"badroot", "badtx", "badflags"}[r.Intn(3)]
	}
	return c
}

func main() {
	cases := flag.String("cases", "", "file with one JSON case per line (exported by TLC)")
	out := flag.String("out", "trace.ndjson", "trace output")
	nrand := flag.Int("random", 0, "number of seeded random cases")
	maxLen := flag.Int("maxlen", 5, "maximal branch length of random cases")
	shard := flag.Int("shard", 0, "shard number (decorrelates the random choices of parallel drivers)")
	flag.Parse()
	defer sim.Cleanup()
	seed := tr.Seed()
	e := &env{rnd: rand.New(rand.NewSource(seed*1000 + int64(*shard))), stats: map[string]int{}}
	e.out = tr.Create(*out)
	defer e.out.Close()
	e.buildWorld(seed)
	n := 0
	runCase := func(c *Case) {
		defer func() {
			if r := recover(); r != nil {
				fmt.Fprintf(os.Stderr, "case %d (%s): harness failure: %v\n%s\n", c.Id, c.Src, r, debug.Stack())
				os.Exit(3)
			}
		}()
		e.run(c)
		n++
	}
	if *cases != "" {
		tr.ReadLines(*cases, func(raw []byte) {
			c := &Case{}
			must(json.Unmarshal(raw, c))
			if c.Src == "" {
				c.Src = "tlc"
			}
			runCase(c)
		})
	}
	for i := 0; i < *nrand; i++ {
		runCase(e.randomCase(1000000+*shard*100000+i, *maxLen))
	}
	var ms runtime.MemStats
	runtime.GC()
	runtime.ReadMemStats(&ms)
	fmt.Printf("cases=%d offers=%d loaded=%d refused=%d lines=%d heapMB=%d goroutines=%d\n", n, e.stats["offers"], e.stats["loaded"], e.stats["refused"],
		e.out.N, ms.HeapAlloc>>20, runtime.NumGoroutine())
}
