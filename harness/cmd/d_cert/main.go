// d_cert drives the real certificate code of idena-go for C07 and records what happened.
//
// For every case (validator-set shape + vote list, exported by TLC from spec/MC_Cert, or generated
// here for larger registries) it
//   - writes the shape into a real state.IdentityStateDB, commits it and loads a real
//     validators.ValidatorsCache from it (identities are mapped to real secp256k1 keys in a seeded
//     random order, so that the address order varies),
//   - signs real votes with those keys (stale rounds/steps/hashes/parents, flag variants, byte
//     duplicates, malleated duplicates, unrecoverable signatures),
//   - builds the certificate with the real FullBlockCert.Compress, sends it through its wire codec,
//     reads the real committee for the certificate's step from the cache and calls the real
//     Blockchain.ValidateBlockCert with a nil signer cache, with a shared signer cache that was warmed by
//     validating other certificates first (every vote of the case as a one-vote certificate under its own
//     header - fast sync keeps one cache across blocks), and through ValidateBlockCertOnHead,
//   - offers the same votes to a real pengings.Votes (AddVote) in two orders, runs the real
//     consensus countVotes (through the verif shim, virtual clock) and feeds every emitted certificate
//     back into ValidateBlockCert.
//
// Nothing is judged here: one ndjson line per case goes to the trace, which TLC validates against
// spec/Trace_Cert (the specification is the oracle).
//
//	d_cert -cases <file> -out <trace>          cases exported by TLC (MC_Cert)
//	d_cert -sized <file> -out <trace>          registry sizes / vote counts exported by TLC (MC_CertCount)
//	d_cert -random N -out <trace>              seeded random larger cases
//	d_cert -det N -out <trace>                 committee determinism: fresh loads vs incremental update
package main

import (
	"crypto/ecdsa"
	"encoding/binary"
	"encoding/json"
	"flag"
	"fmt"
	"math/big"
	"math/rand"
	"os"
	"runtime"
	"sort"
	"sync"
	"time"

	mapset "github.com/deckarep/golang-set"
	"github.com/idena-network/idena-go/blockchain"
	"github.com/idena-network/idena-go/blockchain/types"
	"github.com/idena-network/idena-go/common"
	"github.com/idena-network/idena-go/common/eventbus"
	"github.com/idena-network/idena-go/common/verifclock"
	"github.com/idena-network/idena-go/config"
	"github.com/idena-network/idena-go/consensus"
	"github.com/idena-network/idena-go/core/appstate"
	"github.com/idena-network/idena-go/core/state"
	"github.com/idena-network/idena-go/core/upgrade"
	"github.com/idena-network/idena-go/core/validators"
	"github.com/idena-network/idena-go/crypto"
	"github.com/idena-network/idena-go/pengings"
	"github.com/idena-network/idena-go/secstore"
	"github.com/idena-network/idena-go/stats/collector"
	dbm "github.com/tendermint/tm-db"

	"verifh/internal/tr"
)

// ------------------------------------------------------------------------------------------------
// case vocabulary (mirrors spec/Cert.tla)

type ident struct {
	V   bool `json:"v"`
	O   bool `json:"o"`
	D   bool `json:"d"`
	Del int  `json:"del"`
}

type vote struct {
	Voter  int    `json:"voter"`
	Round  int    `json:"round"`  // 0 = H, 1 = H-1, 2 = H+40, 3 = H-5
	Step   int    `json:"step"`   // real step number
	Hash   int    `json:"hash"`   // 0 = proposed block, 1 = empty block, 9 = zero hash
	Parent int    `json:"parent"` // 0 = previous block, 1 = another hash
	Flag   int    `json:"flag"`   // per-signature fields: 1 = TurnOffline set, 2 = Upgrade set
	Sig    string `json:"sig"`    // good | mall | forged
}

type tcase struct {
	Ids   []ident `json:"ids"`
	God   int     `json:"god"`
	Votes []vote  `json:"votes"`
	Bh    int     `json:"bh"`
	Src   string  `json:"src"`
	// sized cases (MC_CertCount): the votes are built here from the real committee
	Sized *sized `json:"sized,omitempty"`
}

type sized struct {
	N     int    `json:"n"`     // registry size (validated online identities)
	U     int    `json:"u"`     // committee members that are not approved (discriminated)
	Final bool   `json:"final"` // step Final or ReductionOne
	K     int    `json:"k"`     // distinct approved committee members that sign
	Pool  int    `json:"pool"`  // of the n identities, this many are delegators of one online pool
	Dev   string `json:"dev"`   // one deviating vote: none dup mall flag discr outsider round step hash parent forged
	Front bool   `json:"front"` // the deviating vote comes first (it then defines the certificate header)
}

const zeroCode = 9

// ------------------------------------------------------------------------------------------------
// virtual clock for consensus/engine.go (countVotes polls with a 500 ms sleep)

type autoClock struct {
	mu sync.Mutex
	t  time.Time
}

func (c *autoClock) Now() time.Time { c.mu.Lock(); defer c.mu.Unlock(); return c.t }
func (c *autoClock) Sleep(d time.Duration) {
	c.mu.Lock()
	c.t = c.t.Add(d)
	c.mu.Unlock()
}
func (c *autoClock) After(d time.Duration) <-chan time.Time {
	c.Sleep(d)
	ch := make(chan time.Time, 1)
	ch <- c.Now()
	return ch
}

var (
	clk       = &autoClock{t: time.Unix(1700000000, 0)}
	counterMu sync.Mutex // countVotes runs are serialised: the clock is process-global
)

// ------------------------------------------------------------------------------------------------
// keys

var curveN, _ = new(big.Int).SetString("fffffffffffffffffffffffffffffffebaaedce6af48a03bbfd25e8cd0364141", 16)

type keyT struct {
	priv *ecdsa.PrivateKey
	addr common.Address
}

func mkKey(seed int64, i int) keyT {
	var b [16]byte
	binary.LittleEndian.PutUint64(b[:8], uint64(seed))
	binary.LittleEndian.PutUint64(b[8:], uint64(i))
	for ctr := byte(0); ; ctr++ {
		h := crypto.Hash(append([]byte("verif-c07-key"), append(b[:], ctr)...))
		k, err := crypto.ToECDSA(h[:])
		if err == nil {
			return keyT{k, crypto.PubkeyToAddress(k.PublicKey)}
		}
	}
}

var (
	keyMu    sync.Mutex
	keyCache = map[int]keyT{}
	keySeed  int64
)

func key(i int) keyT {
	keyMu.Lock()
	defer keyMu.Unlock()
	k, ok := keyCache[i]
	if !ok {
		k = mkKey(keySeed, i)
		keyCache[i] = k
	}
	return k
}

// ------------------------------------------------------------------------------------------------
// rig: one real chain per worker

type rig struct {
	chain    *blockchain.TestBlockchain
	appState *appstate.AppState
	cfg      *config.Config
	secStore *secstore.SecStore
	prev     *types.Header
	blocks   [2]*types.Header // 0 = proposed block on top of prev, 1 = empty block on top of prev
	H        uint64
	od       *blockchain.OfflineDetector
	up       *upgrade.Upgrader
	odUse    int
	signers  map[string]common.Address // the shared signer cache (fast sync keeps one across blocks)
}

func newRig(seed int64) *rig {
	ck := mkKey(seed, -1)
	chain, appState := blockchain.NewCustomTestBlockchain(5, 3, ck.priv)
	r := &rig{chain: chain, appState: appState, cfg: chain.Config(), signers: map[string]common.Address{}}
	r.secStore = chain.SecStore()
	r.prev = chain.Head
	r.H = r.prev.Height() + 1
	p := chain.ProposeBlock([]byte{})
	if p == nil || p.Block == nil {
		panic("ProposeBlock returned nothing")
	}
	r.blocks[0] = p.Block.Header
	r.blocks[1] = chain.GenerateEmptyBlock().Header
	if r.blocks[0].Hash() == r.blocks[1].Hash() || r.blocks[0].Height() != r.H || r.blocks[1].Height() != r.H {
		panic("candidate blocks are not two distinct blocks of height H")
	}
	return r
}

func (r *rig) detectors() (*blockchain.OfflineDetector, *upgrade.Upgrader) {
	if r.od == nil || r.odUse > 1500 {
		db := dbm.NewMemDB()
		r.od = blockchain.NewOfflineDetector(r.cfg, db, r.appState, r.secStore, eventbus.New())
		r.up = upgrade.NewUpgrader(r.cfg, r.appState, db)
		r.odUse = 0
	}
	r.odUse++
	return r.od, r.up
}

func (r *rig) realRound(code int) uint64 {
	switch code {
	case 0:
		return r.H
	case 1:
		return r.H - 1
	case 2:
		return r.H + 40
	default:
		return r.H - 5
	}
}

func (r *rig) realHash(code int) common.Hash {
	switch code {
	case 0:
		return r.blocks[0].Hash()
	case 1:
		return r.blocks[1].Hash()
	}
	return common.Hash{}
}

func (r *rig) realParent(code int) common.Hash {
	if code == 0 {
		return r.prev.Hash()
	}
	return r.prev.ParentHash()
}

// ------------------------------------------------------------------------------------------------
// signatures

func malleate(sig []byte) []byte {
	out := append([]byte(nil), sig...)
	s := new(big.Int).SetBytes(sig[32:64])
	s.Sub(curveN, s)
	sb := s.Bytes()
	for i := 32; i < 64; i++ {
		out[i] = 0
	}
	copy(out[64-len(sb):64], sb)
	out[64] ^= 1
	return out
}

func unrecoverable(good []byte, variant int) []byte {
	switch variant % 3 {
	case 0:
		return make([]byte, 65)
	case 1:
		return append([]byte(nil), good[:64]...)
	default:
		out := append([]byte(nil), good...)
		out[64] = 7
		return out
	}
}

func (r *rig) mkVote(v vote, k keyT, variant int) *types.Vote {
	res := &types.Vote{Header: &types.VoteHeader{
		Round:       r.realRound(v.Round),
		Step:        uint8(v.Step),
		ParentHash:  r.realParent(v.Parent),
		VotedHash:   r.realHash(v.Hash),
		TurnOffline: v.Flag == 1,
	}}
	if v.Flag == 2 {
		res.Header.Upgrade = 7
	}
	h := crypto.SignatureHash(res)
	sig, err := crypto.Sign(h[:], k.priv)
	if err != nil {
		panic(err)
	}
	switch v.Sig {
	case "good":
	case "mall":
		sig = malleate(sig)
	case "forged":
		sig = unrecoverable(sig, variant)
	default:
		panic("unknown signature class " + v.Sig)
	}
	res.Signature = sig
	return res
}

// selfCheck confirms the assumptions the signature classes rest on (else the driver is dead, exit 3).
func selfCheck(r *rig) {
	k := key(0)
	v := vote{Voter: 0, Step: 1, Sig: "good"}
	g := r.mkVote(v, k, 0)
	if g.VoterAddr() != k.addr {
		fatal("self-check: good signature does not recover to its signer")
	}
	v.Sig = "mall"
	m := r.mkVote(v, k, 0)
	if string(m.Signature) == string(g.Signature) || m.VoterAddr() != k.addr {
		fatal("self-check: malleated signature is not a different encoding of the same signer")
	}
	v.Sig = "forged"
	for i := 0; i < 3; i++ {
		f := r.mkVote(v, k, i)
		if _, err := f.PubKey(); err == nil {
			fatal(fmt.Sprintf("self-check: forged variant %d is recoverable", i))
		}
	}
}

func fatal(s string) {
	fmt.Fprintln(os.Stderr, "d_cert: "+s)
	os.Exit(3)
}

// ------------------------------------------------------------------------------------------------
// identity state

type world struct {
	n      int
	keys   []keyT // index = identity id; 0 = god key, n+1 = stranger
	god    common.Address
	byAddr map[common.Address]int
	ids    *state.IdentityStateDB
	vc     *validators.ValidatorsCache
}

// assign picks keys for ids 0..n+1 from a universe in a seeded random order.
func assign(rng *rand.Rand, n int, universe int) []keyT {
	if universe < n+2 {
		universe = n + 2
	}
	perm := rng.Perm(universe)
	ks := make([]keyT, n+2)
	for i := range ks {
		ks[i] = key(perm[i])
	}
	return ks
}

func writeIdentity(s *state.IdentityStateDB, addr common.Address, id ident, keys []keyT) {
	if !id.V && !id.O {
		return // no entry: empty objects are removed from the identity state
	}
	if id.V {
		s.SetValidated(addr, true)
	}
	if id.O {
		s.SetOnline(addr, true)
	}
	if id.D {
		s.SetDiscriminated(addr, true)
	}
	if id.Del != 0 {
		s.SetDelegatee(addr, keys[id.Del].addr)
	}
}

func newWorld(rng *rand.Rand, ids []ident, god int, universe int) *world {
	n := len(ids)
	w := &world{n: n, keys: assign(rng, n, universe), byAddr: map[common.Address]int{}}
	for i := n + 1; i >= 0; i-- {
		w.byAddr[w.keys[i].addr] = i
	}
	w.god = w.keys[god].addr
	s, err := state.NewLazyIdentityState(dbm.NewMemDB())
	if err != nil {
		panic(err)
	}
	for i, id := range ids {
		writeIdentity(s, w.keys[i+1].addr, id, w.keys)
	}
	if _, _, _, err := s.Commit(true); err != nil {
		panic(err)
	}
	w.ids = s
	w.vc = validators.NewValidatorsCache(s, w.god)
	w.vc.Load()
	return w
}

func (w *world) idsOf(set mapset.Set) []int {
	res := []int{}
	if set == nil {
		return res
	}
	for _, x := range set.ToSlice() {
		if id, ok := w.byAddr[x.(common.Address)]; ok {
			res = append(res, id)
		} else {
			res = append(res, -2)
		}
	}
	sort.Ints(res)
	return res
}

type committee struct {
	O []int `json:"o"` // StepValidators.Original
	V []int `json:"v"` // StepValidators.Validators
	P []int `json:"p"` // StepValidators.ApprovedValidators
}

func (r *rig) committee(w *world, vc *validators.ValidatorsCache, seed types.Seed, round uint64, step uint8) (committee, *validators.StepValidators) {
	sv := vc.GetOnlineValidators(seed, round, step, r.chain.GetCommitteeSize(vc, step == types.Final))
	if sv == nil {
		return committee{O: []int{-3}, V: []int{-3}, P: []int{-3}}, nil
	}
	return committee{w.idsOf(sv.Original), w.idsOf(sv.Validators), w.idsOf(sv.ApprovedValidators)}, sv
}

// ------------------------------------------------------------------------------------------------
// one case

func errStr(err error) string {
	if err == nil {
		return ""
	}
	s := err.Error()
	if len(s) > 24 {
		s = s[:24]
	}
	return s
}

func wire(c *types.BlockCert) *types.BlockCert {
	b, err := c.ToBytes()
	if err != nil {
		panic(err)
	}
	res := &types.BlockCert{}
	if err := res.FromBytes(b); err != nil {
		panic(err)
	}
	return res
}

func wireVote(v *types.Vote) *types.Vote {
	b, err := v.ToBytes()
	if err != nil {
		panic(err)
	}
	res := &types.Vote{}
	if err := res.FromBytes(b); err != nil {
		panic(err)
	}
	return res
}

// warm validates, with the shared signer cache, the one-vote certificate of every vote of the case under
// the vote's OWN header (as fast sync does for the blocks before this one): afterwards the cache has seen
// every signature of the case in the context in which it is genuine.
func (r *rig) warm(w *world, c *tcase, real []*types.Vote) {
	for i, v := range c.Votes {
		if v.Sig == "forged" {
			continue
		}
		prev := r.prev
		if v.Parent != 0 {
			if p := r.chain.GetBlockHeaderByHeight(r.prev.Height() - 1); p != nil {
				prev = p
			}
		}
		hdr := r.prev
		if v.Round == 0 && v.Hash < 2 {
			hdr = r.blocks[v.Hash]
		}
		one := (&types.FullBlockCert{Votes: []*types.Vote{real[i]}}).Compress()
		_ = r.chain.ValidateBlockCert(prev, hdr, wire(one), w.vc, r.signers)
	}
}

func (r *rig) validate3(w *world, cert *types.BlockCert, bh int) tr.M {
	hdr := r.blocks[bh]
	e1 := r.chain.ValidateBlockCert(r.prev, hdr, wire(cert), w.vc, nil)
	e2 := r.chain.ValidateBlockCert(r.prev, hdr, wire(cert), w.vc, r.signers)
	r.appState.ValidatorsCache = w.vc
	e3 := r.chain.ValidateBlockCertOnHead(hdr, wire(cert))
	return tr.M{"acc": e1 == nil, "accC": e2 == nil, "accH": e3 == nil, "err": errStr(e1), "errC": errStr(e2)}
}

func (r *rig) runCase(idx int, c *tcase, seed int64, universe int) tr.M {
	rng := rand.New(rand.NewSource(seed*1000003 + int64(idx)))
	w := newWorld(rng, c.Ids, c.God, universe)
	if c.Sized != nil {
		r.buildSized(rng, w, c)
	}

	if c.Votes == nil {
		c.Votes = []vote{}
	}
	real := make([]*types.Vote, len(c.Votes))
	for i, v := range c.Votes {
		if v.Voter < 0 || v.Voter > w.n+1 {
			panic("voter out of range")
		}
		real[i] = r.mkVote(v, w.keys[v.Voter], idx+i)
	}
	// byte-identical duplicates in the case are byte-identical in the certificate
	for i := range c.Votes {
		for j := 0; j < i; j++ {
			if c.Votes[i] == c.Votes[j] {
				real[i] = real[j]
			}
		}
	}

	cert := (&types.FullBlockCert{Votes: real}).Compress()
	cstep := cert.Step
	com, sv := r.committee(w, w.vc, r.prev.Seed(), r.H, cstep)
	line := tr.M{"ev": "Case", "id": idx, "src": c.Src, "ids": c.Ids, "god": c.God, "votes": c.Votes, "bh": c.Bh,
		"cstep": int(cstep), "comm": com, "cnt": w.vc.ValidatorsSize(),
		"csize": r.chain.GetCommitteeSize(w.vc, cstep == types.Final),
		"thr":   r.chain.GetCommitteeVotesThreshold(w.vc, cstep == types.Final)}
	if sv != nil {
		line["sub"] = sv.VotesCountSubtrahend(r.cfg.Consensus.AgreementThreshold)
	} else {
		line["sub"] = 0
	}
	r.warm(w, c, real)
	for k, v := range r.validate3(w, cert, c.Bh) {
		line[k] = v
	}

	// the vote counter
	step := uint8(1)
	if len(c.Votes) > 0 {
		step = uint8(c.Votes[0].Step)
		if c.Votes[0].Step != c.Votes[len(c.Votes)-1].Step && len(c.Votes) > 1 {
			step = uint8(c.Votes[len(c.Votes)-1].Step) // the deviating vote is first: count for the honest step
		}
	}
	ccom, _ := r.committee(w, w.vc, r.prev.Seed(), r.H, step)
	counts := []tr.M{}
	for run := 0; run < 2; run++ {
		order := make([]int, len(real))
		for i := range order {
			order[i] = i
		}
		if run == 1 {
			rng.Shuffle(len(order), func(i, j int) { order[i], order[j] = order[j], order[i] })
		}
		counts = append(counts, r.count(w, c, real, order, step, ccom, run == 1))
	}
	line["counts"] = counts
	return line
}

// count offers the votes to a fresh real vote pool in the given order and runs the real countVotes.
func (r *rig) count(w *world, c *tcase, real []*types.Vote, order []int, step uint8, ccom committee, fresh bool) tr.M {
	r.appState.ValidatorsCache = w.vc
	od, up := r.detectors()
	pool := pengings.NewVotes(r.appState, eventbus.New(), od, up)
	pool.Initialize(r.prev)
	offered := make([]*types.Vote, len(real))
	admitted := make([]bool, len(real))
	for _, i := range order {
		offered[i] = real[i]
		if fresh {
			offered[i] = wireVote(real[i]) // as received from the network: no cached hash / signer
		}
		admitted[i] = pool.AddVote(offered[i])
	}
	eng := consensus.VerifNewCountingEngine(r.chain.Blockchain, r.cfg, r.appState, pool, od, collector.NewStatsCollector())
	final := step == types.Final
	need := r.chain.GetCommitteeVotesThreshold(w.vc, final) // as at the call sites of countVotes in engine.go
	counterMu.Lock()
	hash, fc, err := eng.VerifCountVotes(r.H, step, r.prev.Hash(), need, time.Second)
	counterMu.Unlock()

	sub := 0
	if sv := w.vc.GetOnlineValidators(r.prev.Seed(), r.H, step, r.chain.GetCommitteeSize(w.vc, final)); sv != nil {
		sub = sv.VotesCountSubtrahend(r.cfg.Consensus.AgreementThreshold)
	}
	res := tr.M{"step": int(step), "order": order, "adm": admitted, "comm": ccom, "found": err == nil && fc != nil, "emit": []int{}, "h": 0,
		"accE": false, "accEC": false, "thr": need, "sub": sub}
	if err == nil && fc != nil {
		emit := []int{}
		for _, v := range fc.Votes {
			at := -1
			for i, o := range offered {
				if o == v && (at < 0 || (admitted[i] && !admitted[at])) {
					at = i // a byte-identical duplicate is the same object: prefer the admitted offer
				}
			}
			emit = append(emit, at)
		}
		res["emit"] = emit
		h := -1
		for code := 0; code < 2; code++ {
			if r.blocks[code].Hash() == hash {
				h = code
			}
		}
		res["h"] = h
		if h >= 0 {
			cert := fc.Compress()
			e1 := r.chain.ValidateBlockCert(r.prev, r.blocks[h], wire(cert), w.vc, nil)
			e2 := r.chain.ValidateBlockCert(r.prev, r.blocks[h], wire(cert), w.vc, r.signers)
			res["accE"], res["accEC"] = e1 == nil, e2 == nil
		}
	}
	return res
}

// buildSized realises a (registry size, non-approved members, vote count) case: the committee is the
// real draw; u of its members are then discriminated (which does not change the sorted registry, so
// the draw stays the same) and k distinct approved members sign.
func (r *rig) buildSized(rng *rand.Rand, w *world, c *tcase) {
	sz := c.Sized
	step := uint8(1)
	if sz.Final {
		step = types.Final
	}
	com, _ := r.committee(w, w.vc, r.prev.Seed(), r.H, step)
	members := append([]int(nil), com.O...)
	rng.Shuffle(len(members), func(i, j int) { members[i], members[j] = members[j], members[i] })
	u := sz.U
	if u > len(members) {
		u = len(members)
	}
	if w.vc.OnlineSize() > 0 {
		for _, m := range members[:u] {
			if m >= 1 && m <= w.n {
				c.Ids[m-1].D = true
				w.ids.SetDiscriminated(w.keys[m].addr, true)
			}
		}
		if u > 0 {
			if _, _, _, err := w.ids.Commit(true); err != nil {
				panic(err)
			}
			w.vc = validators.NewValidatorsCache(w.ids, w.god)
			w.vc.Load()
		}
	}
	_, sv := r.committee(w, w.vc, r.prev.Seed(), r.H, step)
	if sv == nil {
		return
	}
	approved := w.idsOf(sv.ApprovedValidators)
	rng.Shuffle(len(approved), func(i, j int) { approved[i], approved[j] = approved[j], approved[i] })
	k := sz.K
	if k > len(approved) {
		k = len(approved)
	}
	c.Votes = c.Votes[:0]
	for _, a := range approved[:k] {
		c.Votes = append(c.Votes, vote{Voter: a, Step: int(step), Sig: "good"})
	}
	// the deviating vote
	spare := w.n + 1 // an approved member that has not signed, else the stranger
	if k < len(approved) {
		spare = approved[k]
	}
	d := vote{Voter: spare, Step: int(step), Sig: "good"}
	switch sz.Dev {
	case "", "none":
		return
	case "dup", "mall", "flag":
		if k == 0 {
			return
		}
		d = c.Votes[rng.Intn(k)]
		if sz.Dev == "mall" {
			d.Sig = "mall"
		} else if sz.Dev == "flag" {
			d.Flag = 1
		}
	case "discr":
		d.Voter = w.n + 1
		for _, m := range members {
			if m >= 1 && m <= w.n && c.Ids[m-1].D {
				d.Voter = m
				break
			}
		}
	case "outsider":
		d.Voter = w.n + 1
	case "round":
		d.Round = 1
	case "step":
		d.Step = otherStep(int(step))
	case "hash":
		d.Hash = 1
	case "parent":
		d.Parent = 1
	case "forged":
		d.Sig = "forged"
	default:
		panic("unknown deviation " + sz.Dev)
	}
	if sz.Front {
		c.Votes = append([]vote{d}, c.Votes...)
	} else {
		c.Votes = append(c.Votes, d)
	}
}

// ------------------------------------------------------------------------------------------------
// random larger cases

func randomShape(rng *rand.Rand, n int) []ident {
	ids := make([]ident, n)
	npools := rng.Intn(3)
	if n < 4 {
		npools = rng.Intn(2)
	}
	for i := range ids {
		x := rng.Intn(100)
		switch {
		case x < 55:
			ids[i] = ident{V: true, O: true}
		case x < 65:
			ids[i] = ident{V: true, O: true, D: true}
		case x < 73:
			ids[i] = ident{V: true}
		case x < 76:
			ids[i] = ident{V: true, D: true}
		case x < 79:
			ids[i] = ident{}
		default:
			if npools > 0 && i >= npools {
				ids[i] = ident{V: true, D: rng.Intn(4) == 0, Del: 1 + rng.Intn(npools)}
			} else {
				ids[i] = ident{V: true, O: true}
			}
		}
	}
	for p := 0; p < npools && p < n; p++ { // pool owners: no delegatee themselves, mostly online
		switch rng.Intn(6) {
		case 0:
			ids[p] = ident{O: true}
		case 1:
			ids[p] = ident{V: true, O: true, D: true}
		case 2:
			ids[p] = ident{V: true}
		default:
			ids[p] = ident{V: true, O: true}
		}
	}
	return ids
}

func (r *rig) randomCase(idx int, seed int64) *tcase {
	rng := rand.New(rand.NewSource(seed*7919 + int64(idx)*31 + 17))
	var n int
	switch rng.Intn(4) {
	case 0:
		n = 4 + rng.Intn(6)
	case 1:
		n = 9 + rng.Intn(12)
	case 2:
		n = 20 + rng.Intn(40)
	default:
		n = 60 + rng.Intn(80)
	}
	c := &tcase{Ids: randomShape(rng, n), God: 0, Src: "rand"}
	// the votes are chosen against the real committee of a probe world with the same shape; the keys
	// differ from the world of the run, so only ids are carried over when the registry is <= 8
	// (whole registry) - otherwise votes are re-targeted in runRandom.
	return c
}

// runRandom builds the votes of a random case against the REAL committee of its own world, then runs it.
func (r *rig) runRandom(idx int, seed int64) tr.M {
	c := r.randomCase(idx, seed)
	rng := rand.New(rand.NewSource(seed*1000003 + int64(idx)))
	probe := newWorld(rng, c.Ids, c.God, len(c.Ids)+12) // same rng seed as runCase => same key assignment
	step := uint8(1)
	switch rng.Intn(3) {
	case 1:
		step = 2
	case 2:
		step = types.Final
	}
	_, sv := r.committee(probe, probe.vc, r.prev.Seed(), r.H, step)
	approved := probe.idsOf(sv.ApprovedValidators)
	others := []int{}
	isAppr := map[int]bool{}
	for _, a := range approved {
		isAppr[a] = true
	}
	for i := 0; i <= probe.n+1; i++ {
		if !isAppr[i] {
			others = append(others, i)
		}
	}
	rng.Shuffle(len(approved), func(i, j int) { approved[i], approved[j] = approved[j], approved[i] })
	need := r.chain.GetCommitteeVotesThreshold(probe.vc, step == types.Final) - sv.VotesCountSubtrahend(r.cfg.Consensus.AgreementThreshold)
	k := need + rng.Intn(4) - 2
	if rng.Intn(6) == 0 {
		k = rng.Intn(len(approved) + 1)
	}
	if k < 0 {
		k = 0
	}
	if k > len(approved) {
		k = len(approved)
	}
	hash := 0
	if rng.Intn(8) == 0 {
		hash = 1
	}
	for _, a := range approved[:k] {
		c.Votes = append(c.Votes, vote{Voter: a, Step: int(step), Hash: hash, Flag: b2i(rng.Intn(5) == 0) * (1 + rng.Intn(2)), Sig: "good"})
	}
	// deviating votes
	for d := rng.Intn(3); d > 0; d-- {
		v := vote{Voter: others[rng.Intn(len(others))], Step: int(step), Hash: hash, Sig: "good"}
		switch rng.Intn(10) {
		case 0: // duplicate of an honest vote
			if len(c.Votes) > 0 {
				v = c.Votes[rng.Intn(len(c.Votes))]
			}
		case 1: // malleated duplicate
			if len(c.Votes) > 0 {
				v = c.Votes[rng.Intn(len(c.Votes))]
				v.Sig = "mall"
			}
		case 2: // same voter, other flag
			if len(c.Votes) > 0 {
				v = c.Votes[rng.Intn(len(c.Votes))]
				v.Flag = (v.Flag + 1 + rng.Intn(2)) % 3
			}
		case 3:
			v.Sig = "forged"
		case 4:
			v.Round = 1 + rng.Intn(3)
		case 5:
			v.Step = otherStep(int(step))
		case 6:
			v.Hash = 1 - hash
		case 7:
			v.Parent = 1
		case 8: // an approved member over another header
			if len(approved) > 0 {
				v.Voter = approved[rng.Intn(len(approved))]
				v.Parent = 1
			}
		}
		if rng.Intn(3) == 0 {
			c.Votes = append([]vote{v}, c.Votes...)
		} else {
			c.Votes = append(c.Votes, v)
		}
	}
	if rng.Intn(10) == 0 {
		c.Bh = 1
	}
	return r.runCase(idx, c, seed, len(c.Ids)+12)
}

func otherStep(s int) int {
	if s == int(types.Final) {
		return 1
	}
	if s == 1 {
		return 2
	}
	return 1
}

func b2i(b bool) int {
	if b {
		return 1
	}
	return 0
}

// ------------------------------------------------------------------------------------------------
// committee determinism: two fresh loads and one incrementally updated cache

type detOp struct {
	Op string `json:"op"`
	I  int    `json:"i"`
	P  int    `json:"p"`
}

// applyOps performs chain-like changes on the real identity state and mirrors them on the abstract shape.
// The mirror follows the semantics of the state objects exactly: the setters change one field each
// (IdentityStateDB.Remove clears validated and online but leaves discriminated / delegatee in the object),
// and an object that is neither validated nor online when the block is committed is deleted.  The guards keep
// the invariants the chain keeps (a delegator is never online or a pool, a pool owner never delegates): on
// identity states outside them (e.g. a non-validated online entry that still carries a delegatee) Load and the
// incremental update are known to disagree, which is C10's subject, not a committee-determinism verdict.
func applyOps(rng *rand.Rand, w *world, ids []ident, nops int) []detOp {
	ops := []detOp{}
	n := len(ids)
	isPool := func(p int) bool {
		for _, x := range ids {
			if (x.V || x.O) && x.Del == p {
				return true
			}
		}
		return false
	}
	for tries := 0; len(ops) < nops && tries < 50; tries++ {
		i := 1 + rng.Intn(n)
		id := &ids[i-1]
		addr := w.keys[i].addr
		switch rng.Intn(8) {
		case 0: // newly validated (epoch result)
			if !id.V {
				id.V, id.D = true, rng.Intn(3) == 0
				w.ids.SetValidated(addr, true)
				w.ids.SetDiscriminated(addr, id.D)
				ops = append(ops, detOp{"validate", i, 0})
			}
		case 1: // killed / failed validation: IdentityStateDB.Remove
			if id.V && !isPool(i) {
				id.V, id.O = false, false
				w.ids.Remove(addr)
				ops = append(ops, detOp{"remove", i, 0})
			}
		case 2: // goes online: a validated non-delegator, or the owner of a pool
			if !id.O && id.Del == 0 && (id.V || isPool(i)) { // an identity with a delegatee cannot send the online tx
				id.O = true
				w.ids.SetOnline(addr, true)
				ops = append(ops, detOp{"online", i, 0})
			}
		case 3: // goes offline
			if id.O {
				id.O = false
				w.ids.SetOnline(addr, false)
				ops = append(ops, detOp{"offline", i, 0})
			}
		case 4: // delegation switch
			p := 1 + rng.Intn(n)
			if id.V && id.Del == 0 && !isPool(i) && p != i && ids[p-1].Del == 0 { // no delegation to a delegator, none by a pool
				id.Del, id.O, id.D = p, false, rng.Intn(4) == 0
				w.ids.SetDelegatee(addr, w.keys[p].addr)
				w.ids.SetDiscriminated(addr, id.D)
				w.ids.SetOnline(addr, false)
				ops = append(ops, detOp{"delegate", i, p})
			}
		case 5: // undelegation
			if id.V && id.Del != 0 {
				id.Del, id.D = 0, rng.Intn(4) == 0
				w.ids.RemoveDelegatee(addr)
				w.ids.SetDiscriminated(addr, id.D)
				ops = append(ops, detOp{"undelegate", i, 0})
			}
		default: // discrimination switch
			if id.V {
				id.D = !id.D
				w.ids.SetDiscriminated(addr, id.D)
				ops = append(ops, detOp{"discriminate", i, 0})
			}
		}
	}
	return ops
}

// afterCommit mirrors Precommit(deleteEmptyObjects): objects that are neither validated nor online are gone.
func afterCommit(ids []ident) {
	for i := range ids {
		if !ids[i].V && !ids[i].O {
			ids[i] = ident{}
		}
	}
}

func (r *rig) runDet(idx int, seed int64, out func(tr.M)) {
	rng := rand.New(rand.NewSource(seed*104729 + int64(idx)))
	var n int
	switch rng.Intn(3) {
	case 0:
		n = 2 + rng.Intn(7)
	case 1:
		n = 9 + rng.Intn(16)
	default:
		n = 25 + rng.Intn(50)
	}
	ids := randomShape(rng, n)
	w := newWorld(rng, ids, 0, n+6)
	inc := w.vc // loaded once, then only updated incrementally
	for round := 0; round < 4; round++ {
		ops := []detOp{}
		if round > 0 {
			ops = applyOps(rng, w, ids, 1+rng.Intn(4))
			_, _, diff, err := w.ids.Commit(true)
			if err != nil {
				panic(err)
			}
			afterCommit(ids)
			inc.UpdateFromIdentityStateDiff(diff)
		}
		a := validators.NewValidatorsCache(w.ids, w.god)
		a.Load()
		b := validators.NewValidatorsCache(w.ids, w.god)
		b.Load()
		grid := []tr.M{}
		for g := 0; g < 6; g++ {
			var seedv types.Seed
			rng.Read(seedv[:])
			rnd := uint64(2 + rng.Intn(1000))
			step := []uint8{1, 2, types.Final, 3}[g%4]
			ca, _ := r.committee(w, a, seedv, rnd, step)
			cb, _ := r.committee(w, b, seedv, rnd, step)
			ci, _ := r.committee(w, inc, seedv, rnd, step)
			grid = append(grid, tr.M{"seed": g, "round": rnd, "step": int(step), "a": ca, "b": cb, "inc": ci,
				"cnt": [3]int{a.ValidatorsSize(), b.ValidatorsSize(), inc.ValidatorsSize()}})
		}
		cp := append([]ident(nil), ids...)
		out(tr.M{"ev": "Det", "id": idx*10 + round, "ids": cp, "god": 0, "ops": ops, "grid": grid})
	}
}

// ------------------------------------------------------------------------------------------------

func main() {
	casesF := flag.String("cases", "", "cases exported by TLC (one JSON object per line)")
	sizedF := flag.String("sized", "", "sized cases exported by TLC (one JSON object per line)")
	nrand := flag.Int("random", 0, "number of seeded random larger cases")
	ndet := flag.Int("det", 0, "number of committee-determinism scenarios")
	outF := flag.String("out", "", "trace file")
	workers := flag.Int("workers", 0, "parallel workers (default: cores, max 12)")
	flag.Parse()
	if *outF == "" {
		fatal("need -out")
	}
	seed := tr.Seed()
	keySeed = seed
	verifclock.Set(clk)
	nw := *workers
	if nw <= 0 {
		nw = runtime.NumCPU()
		if nw > 12 {
			nw = 12
		}
	}

	var cases []*tcase
	load := func(path, src string, sizedCase bool) {
		tr.ReadLines(path, func(raw []byte) {
			c := &tcase{Src: src}
			if sizedCase {
				s := &sized{}
				if err := json.Unmarshal(raw, s); err != nil {
					fatal("bad sized case: " + err.Error())
				}
				c.Sized = s
				c.Ids = make([]ident, s.N)
				for i := range c.Ids {
					c.Ids[i] = ident{V: true, O: true}
				}
				// the first `pool` identities after the owner delegate to identity 1
				for i := 1; i <= s.Pool && i < s.N; i++ {
					c.Ids[i] = ident{V: true, Del: 1}
				}
			} else if err := json.Unmarshal(raw, c); err != nil {
				fatal("bad case: " + err.Error())
			}
			cases = append(cases, c)
		})
	}
	if *casesF != "" {
		load(*casesF, "mc", false)
	}
	if *sizedF != "" {
		load(*sizedF, "sized", true)
	}
	nmc := len(cases)
	total := nmc + *nrand

	rigs := make([]*rig, nw)
	var wg sync.WaitGroup
	for i := range rigs {
		wg.Add(1)
		go func(i int) { defer wg.Done(); rigs[i] = newRig(seed) }(i)
	}
	wg.Wait()
	selfCheck(rigs[0])

	out := tr.Create(*outF)
	c0 := rigs[0].cfg.Consensus
	out.Emit(tr.M{"ev": "Config", "pctN": int(c0.CommitteePercent*10000 + 0.5), "pctF": int(c0.FinalCommitteePercent*10000 + 0.5),
		"agree": int(c0.AgreementThreshold*10000 + 0.5), "maxc": c0.MaxCommitteeSize, "H": rigs[0].H})

	lines := make([]tr.M, total)
	jobs := make(chan int, 1024)
	for wi := 0; wi < nw; wi++ {
		wg.Add(1)
		go func(r *rig) {
			defer wg.Done()
			for i := range jobs {
				if i < nmc {
					universe := 12
					if cases[i].Sized != nil {
						universe = len(cases[i].Ids) + 6
					}
					lines[i] = r.runCase(i, cases[i], seed, universe)
				} else {
					lines[i] = r.runRandom(i, seed)
				}
			}
		}(rigs[wi])
	}
	for i := 0; i < total; i++ {
		jobs <- i
	}
	close(jobs)
	wg.Wait()
	for _, l := range lines {
		out.Emit(l)
	}
	for i := 0; i < *ndet; i++ {
		rigs[0].runDet(i, seed, func(m tr.M) { out.Emit(m) })
	}
	out.Close()
	fmt.Printf("d_cert: %d model cases, %d random cases, %d determinism scenarios, %d trace lines, H=%d\n", nmc, *nrand, *ndet, out.N, rigs[0].H)
}
