// d_wire (C12): instantiates every frame / message / transaction / block SHAPE exported by TLC from
// spec/MC_Wire with seeded filler bytes and pushes it through the REAL entry points of the node:
//
//   - the peer read path: msgio framing, protocol.Decode, Msg.FromBytes and the handle() switch of the
//     real IdenaGossipHandler (built by its real constructor, nil host) with the real Proposals, Votes,
//     TxPool, KeysPool, Flipper and PushPullManager behind it; the handshake reader readStatus;
//   - what the node does next with an accepted object: GetProposedBlock -> ValidateBlock for proposals,
//     the real full-sync applier (processBatch -> ValidateHeader / ValidateBlockCert / AddBlock) and
//     ValidateSubChain for block ranges, the flipper's write-loop body for flips;
//   - validation.ValidateTx in its three modes, Blockchain.ValidateBlock / AddBlock / ValidateSubChain on
//     blocks assembled from individually decodable parts.
//
// Every case runs under recover, a watchdog and an allocation meter (runtime.MemStats.TotalAlloc delta).
// The driver decides nothing: it writes one ndjson line per case (shape echoed verbatim, outcome class,
// bytes allocated, bytes on the wire) for validation by TLC against spec/Trace_Wire.
package main

import (
	"encoding/json"
	"flag"
	"fmt"
	"math/rand"
	"os"
	"runtime"
	"runtime/debug"
	"strings"
	"time"

	"github.com/idena-network/idena-go/common/verifclock"

	"verifh/internal/sim"
	"verifh/internal/tr"
	"verifh/internal/vclock"
)

// Case is one exported shape.
type Case struct {
	Id int             `json:"id"`
	C  json.RawMessage `json:"c"`
	m  map[string]interface{}
}

func (c *Case) s(k string) string {
	v, _ := c.m[k].(string)
	return v
}

func (c *Case) i(k string) int64 {
	v, _ := c.m[k].(float64)
	return int64(v)
}

// devs returns the deviation pairs of a block shape.
func (c *Case) devs() [][2]string {
	var res [][2]string
	arr, _ := c.m["devs"].([]interface{})
	for _, x := range arr {
		p, _ := x.([]interface{})
		if len(p) == 2 {
			a, _ := p[0].(string)
			b, _ := p[1].(string)
			res = append(res, [2]string{a, b})
		}
	}
	return res
}

// Result is what really happened.
type Result struct {
	Verdict string
	Alloc   int64
	Frame   int64
	Err     string
	Site    string
	Ms      float64
	runaway bool // no verdict within the general watchdog (not one of the short, expected-to-block waits)
	dirty   bool // the rig must be rebuilt (head moved, or a panic / hang left shared objects in an unknown state)
}

// an exec closure returns the verdict class and a short reason; everything it calls is real code.
type execFn func() (verdict string, why string)

type prepared struct {
	frame   int64
	exec    execFn
	timeout time.Duration
	shared  bool // touches the rig's shared objects (handler, pools, chain)
}

var (
	clock       *vclock.Clock
	rigs        = map[string]*rig{}
	seed        int64
	watchdog    = 20 * time.Second
	hangTimeout = 3 * time.Second
)

// panicSite returns the innermost repository frame below the panic; harness = the panic was raised by
// harness code (or by a library called directly from it), i.e. it says nothing about the node.
func panicSite(stack []byte) (site string, harness bool) {
	lines := strings.Split(string(stack), "\n")
	seenPanic := false
	for i := 0; i < len(lines); i++ {
		l := lines[i]
		if strings.HasPrefix(l, "panic(") || strings.HasPrefix(l, "runtime.") {
			if strings.HasPrefix(l, "panic(") || strings.HasPrefix(l, "runtime.panic") || strings.HasPrefix(l, "runtime.sigpanic") || strings.HasPrefix(l, "runtime.goPanic") {
				seenPanic = true
			}
			continue
		}
		if !seenPanic || strings.HasPrefix(l, "\t") || strings.HasPrefix(l, "goroutine ") || l == "" {
			continue
		}
		if strings.HasPrefix(l, "main.") || strings.HasPrefix(l, "verifh/") {
			return "", true
		}
		if strings.HasPrefix(l, "github.com/idena-network/idena-go/") {
			fn := l
			if j := strings.LastIndex(fn, "("); j > 0 {
				fn = fn[:j]
			}
			fn = strings.TrimPrefix(fn, "github.com/idena-network/idena-go/")
			loc := ""
			if i+1 < len(lines) {
				loc = strings.TrimSpace(lines[i+1])
				if j := strings.Index(loc, " +0x"); j > 0 {
					loc = loc[:j]
				}
				for _, dir := range []string{"blockchain/", "protocol/", "core/", "pengings/", "common/", "crypto/", "vm/", "consensus/", "database/", "ipfs/", "secstore/", "config/", "stats/"} {
					if j := strings.LastIndex(loc, "/"+dir); j >= 0 {
						loc = loc[j+1:]
						break
					}
				}
			}
			return fn + " " + loc, false
		}
	}
	return "", false
}

// forwardedPanic carries a panic of a helper goroutine (playing a goroutine of the node) to the case goroutine.
type forwardedPanic struct {
	val   interface{}
	stack []byte
}

// guarded runs exec under recover + watchdog + allocation meter.
func guarded(p *prepared) Result {
	done := make(chan Result, 1)
	var m0, m1 runtime.MemStats
	t0 := time.Now()
	runtime.ReadMemStats(&m0)
	go func() {
		defer func() {
			if r := recover(); r != nil {
				st := debug.Stack()
				if f, ok := r.(*forwardedPanic); ok {
					st, r = f.stack, f.val
				}
				site, harness := panicSite(st)
				if harness {
					fmt.Printf("HARNESS-ERROR: panic raised by harness code: %v\n%s\n", r, st)
					os.Exit(3)
				}
				done <- Result{Verdict: "PANIC", Err: trunc(fmt.Sprint(r), 300), Site: site}
			}
		}()
		v, why := p.exec()
		done <- Result{Verdict: v, Err: trunc(why, 300)}
	}()
	var r Result
	to := p.timeout
	if to == 0 {
		to = watchdog
	}
	select {
	case r = <-done:
	case <-time.After(to):
		r = Result{Verdict: "TIMEOUT", Err: fmt.Sprintf("no verdict after %v", to), Site: hungSite(), runaway: p.timeout == 0}
	}
	runtime.ReadMemStats(&m1)
	r.Alloc = int64(m1.TotalAlloc - m0.TotalAlloc)
	if r.Alloc > 2147483647 {
		r.Alloc = 2147483647
	}
	r.Frame = p.frame
	r.Ms = float64(time.Since(t0).Microseconds()) / 1000
	if r.Verdict == "PANIC" || r.Verdict == "TIMEOUT" {
		r.dirty = p.shared
	}
	if r.Alloc > 64<<20 {
		debug.FreeOSMemory()
	}
	return r
}

// hungSite names the repository function a goroutine of this process is blocked in while executing a case
// (best effort, for the report only).
func hungSite() string {
	buf := make([]byte, 4<<20)
	n := runtime.Stack(buf, true)
	first := func(g string) string {
		lines := strings.Split(g, "\n")
		for i, l := range lines {
			if strings.HasPrefix(l, "github.com/idena-network/idena-go/") {
				fn := l
				if j := strings.LastIndex(fn, "("); j > 0 {
					fn = fn[:j]
				}
				loc := ""
				if i+1 < len(lines) {
					loc = strings.TrimSpace(lines[i+1])
					if j := strings.Index(loc, " +0x"); j > 0 {
						loc = loc[:j]
					}
					if j := strings.LastIndex(loc, "/"); j >= 0 {
						loc = loc[j+1:]
					}
				}
				return strings.TrimPrefix(fn, "github.com/idena-network/idena-go/") + " " + loc
			}
		}
		return ""
	}
	best, bestId := "", -1
	for _, g := range strings.Split(string(buf[:n]), "\n\n") {
		var id int
		fmt.Sscanf(g, "goroutine %d ", &id)
		if strings.Contains(g, "main.guarded.func1") {
			if s := first(g); s != "" && id > bestId {
				best, bestId = s, id
			}
		}
	}
	if best != "" {
		return best
	}
	for _, g := range strings.Split(string(buf[:n]), "\n\n") {
		var id int
		fmt.Sscanf(g, "goroutine %d ", &id)
		if strings.Contains(g, "(*IdenaGossipHandler).handle") && id > bestId {
			if s := first(g); s != "" {
				best, bestId = s, id
			}
		}
	}
	return best
}

func trunc(s string, n int) string {
	if len(s) > n {
		return s[:n]
	}
	return s
}

func getRig(class string) *rig {
	r := rigs[class]
	if r == nil {
		switch class {
		case "empty":
			r = buildEmpty(seed)
		default:
			r = buildPopulated(seed, class)
		}
		// one virtual clock for every world of the process (NewWorld installs its own)
		r.w.Clock = clock
		verifclock.Set(clock)
		r.setup()
		rigs[class] = r
	}
	r.syncClock()
	return r
}

func caseRand(id int) *rand.Rand {
	return rand.New(rand.NewSource(seed*1000003 + int64(id)))
}

func main() {
	casesPath := flag.String("cases", "", "ndjson file of cases {id, c}")
	out := flag.String("out", "", "trace output (ndjson)")
	details := flag.String("details", "", "side file with reasons / panic sites per case id")
	inflight := flag.String("inflight", "", "file that always holds the id of the case being executed")
	shard := flag.Int("shard", 0, "")
	of := flag.Int("of", 1, "")
	after := flag.Int("after", -1, "skip case ids <= after (resume after a crash of the driver process)")
	probe := flag.String("probe", "", "run one ad-hoc JSON shape and print the result")
	wd := flag.Float64("watchdog", 20, "seconds without a verdict after which a case is a TIMEOUT")
	hang := flag.Float64("hang", 3, "the same for the cases that wait on something that may never come (over-long block range)")
	flag.Parse()
	watchdog = time.Duration(*wd * float64(time.Second))
	hangTimeout = time.Duration(*hang * float64(time.Second))
	seed = tr.Seed()
	defer sim.Cleanup()

	clock = vclock.New(time.Unix(0, 0), time.Second)
	verifclock.Set(clock)
	go releaser()

	if *probe != "" {
		c := &Case{Id: 0, C: json.RawMessage(*probe)}
		if err := json.Unmarshal(c.C, &c.m); err != nil {
			panic(err)
		}
		r := runCase(c)
		fmt.Printf("%+v\n", r)
		return
	}

	var cases []*Case
	line := -1
	tr.ReadLines(*casesPath, func(raw []byte) {
		line++
		c := &Case{}
		if err := json.Unmarshal(raw, c); err != nil {
			panic(err)
		}
		if err := json.Unmarshal(c.C, &c.m); err != nil {
			panic(err)
		}
		// shards go by position in the file (ids may be sparse); the file is sorted by id
		if line%*of == *shard && c.Id > *after {
			cases = append(cases, c)
		}
	})
	w := tr.Create(*out)
	defer w.Close()
	var dw *tr.W
	if *details != "" {
		dw = tr.Create(*details)
		defer dw.Close()
	}
	var inf *os.File
	if *inflight != "" {
		var err error
		inf, err = os.OpenFile(*inflight, os.O_CREATE|os.O_WRONLY|os.O_TRUNC, 0o644)
		if err != nil {
			panic(err)
		}
		defer inf.Close()
	}
	t0 := time.Now()
	counts := map[string]int{}
	for _, c := range cases {
		if inf != nil {
			inf.WriteAt([]byte(fmt.Sprintf("%-12d", c.Id)), 0)
		}
		r := runCase(c)
		counts[r.Verdict]++
		w.Emit(map[string]interface{}{"ev": "Case", "id": c.Id, "c": c.C, "verdict": r.Verdict, "alloc": r.Alloc, "frame": r.Frame})
		if dw != nil {
			dw.Emit(map[string]interface{}{"id": c.Id, "verdict": r.Verdict, "why": r.Err, "site": r.Site, "ms": r.Ms, "alloc": r.Alloc, "frame": r.Frame})
		}
		// every line is made durable at once: if a later case kills the process nothing recorded is lost
		w.Flush()
		if dw != nil {
			dw.Flush()
		}
		if r.Verdict == "TIMEOUT" && r.runaway {
			// the goroutine that did not come back may be spinning or allocating: leave it behind with the process
			fmt.Printf("RESTART-AFTER-TIMEOUT case %d\n", c.Id)
			w.Close()
			if dw != nil {
				dw.Close()
			}
			os.Exit(4)
		}
	}
	// background goroutines of the node get a moment to fail while the last case is still the one in flight
	time.Sleep(100 * time.Millisecond)
	if inf != nil {
		inf.WriteAt([]byte(fmt.Sprintf("%-12s", "done")), 0)
	}
	fmt.Printf("d_wire shard %d/%d: %d cases in %.1fs %v\n", *shard, *of, len(cases), time.Since(t0).Seconds(), counts)
}

// releaser emulates the passage of time for code parked on the virtual clock: short sleeps (the
// full-sync applier sleeps 1 s after an invalid block) are released at once, long timers (its 20 s
// wait for the next header) after a real 2 ms (nothing else is going to arrive while a case runs).
func releaser() {
	for s := range clock.Parked {
		if s.D <= 2*time.Second {
			clock.Release(s)
		} else {
			go func(s *vclock.Sleeper) {
				time.Sleep(2 * time.Millisecond)
				clock.Release(s)
			}(s)
		}
	}
}

func runCase(c *Case) Result {
	class := c.s("state")
	var r *rig
	var p *prepared
	func() {
		defer func() {
			if x := recover(); x != nil {
				// the honest node could not be brought into the state class: nothing can be said about hostile input
				fmt.Printf("HARNESS-ERROR: world of state class %s could not be built: %v\n%s\n", class, x, debug.Stack())
				os.Exit(3)
			}
		}()
		r = getRig(class)
	}()
	func() {
		defer func() {
			if x := recover(); x != nil {
				fmt.Printf("HARNESS-ERROR: case %d %s: %v\n%s\n", c.Id, string(c.C), x, debug.Stack())
				os.Exit(3)
			}
		}()
		p = prepare(c, r)
	}()
	res := guarded(p)
	if p.shared && res.Verdict != "TIMEOUT" {
		// whatever the case left in the flipper's queue is worked off while the case is still the one in flight:
		// a failure of that goroutine kills the process, and is then charged to this case
		r.fp.VerifWaitIdle(5 * time.Second)
	}
	if res.dirty || r.headMoved() {
		rigs[class] = nil
	}
	return res
}
