package main

import (
	"fmt"
	"math/big"
	"time"

	"github.com/idena-network/idena-go/blockchain/attachments"
	"github.com/idena-network/idena-go/blockchain/types"
	"github.com/idena-network/idena-go/blockchain/validation"
	"github.com/idena-network/idena-go/common"
	"github.com/idena-network/idena-go/config"
	"github.com/idena-network/idena-go/core/flip"
	"github.com/idena-network/idena-go/core/mempool"
	"github.com/idena-network/idena-go/core/state"
	"github.com/idena-network/idena-go/pengings"
	"github.com/idena-network/idena-go/protocol"
	"github.com/idena-network/idena-go/stats/collector"
	"github.com/idena-network/idena-go/vm/embedded"
	"github.com/idena-network/idena-go/vm/env"
	"github.com/ipfs/go-cid"
	mh "github.com/multiformats/go-multihash"

	"verifh/internal/sim"
)

// Key roles of a world (indexes into World.Keys).  The same key set is used for both state classes;
// in the empty state only god has an allocation.
const (
	kGod       = 0
	kVerified  = 1 // Verified, goes online in the populated state (the proposer there)
	kPool      = 2 // Verified, offline; receives a delegation
	kNewbie    = 3
	kCandidate = 4
	kInvite    = 5 // state Invite with a balance (may send ActivationTx)
	kFunded    = 6 // plain account with a balance, no identity
	kHuman     = 7
	kStranger  = 8 // no allocation at all
	kStranger2 = 9 // no allocation; used as "stranger" recipient
	kInvitee   = 10
	nKeys      = 11
)

// rig is one real node of a state class with everything the peer read path dispatches to.
type rig struct {
	class    string
	w        *sim.World
	n        *sim.Node
	props    *pengings.Proposals
	votes    *pengings.Votes
	keys     *mempool.KeysPool
	fp       *flip.Flipper
	h        *protocol.IdenaGossipHandler
	peer     *protocol.VerifPeer
	peerSeq  int
	contract common.Address
	flipCid  []byte
	proposer int // key of a node that may propose on the head
	tpl      *templates
}

func dna(n int64) *big.Int { return sim.Dna(n, 1) }

// ceremony timeline of every world (virtual seconds since genesis): long windows, so that a few extra
// blocks never leave a period
const (
	firstCeremony = 10000
	periodWindow  = 2000
)

func newWorld(seed int64) *sim.World {
	w := sim.NewWorld(seed, nKeys)
	w.Cons.StatusSwitchRange = 5
	w.Cons.DelegationSwitchRange = 5
	w.FirstCeremony = firstCeremony
	w.ValCfg = &config.ValidationConfig{FlipLotteryDuration: periodWindow * time.Second, ShortSessionDuration: periodWindow * time.Second,
		LongSessionDuration: periodWindow * time.Second}
	return w
}

// attach builds the handler side of a node: proposals, votes, key pool, flipper, gossip handler, peer.
func attach(class string, w *sim.World, n *sim.Node, proposer int) *rig {
	r := &rig{class: class, w: w, n: n, proposer: proposer}
	r.props, _ = pengings.NewProposals(n.Chain, n.App, n.Offline, n.Upgrader, collector.NewStatsCollector())
	r.votes = pengings.NewVotes(n.App, n.Bus, n.Offline, n.Upgrader)
	r.votes.Initialize(n.Chain.Head)
	r.keys = mempool.NewKeysPool(n.DB, n.App, n.Bus, n.Sec)
	r.keys.Initialize(n.Chain.Head)
	r.fp = flip.NewFlipper(n.DB, n.Ipfs, r.keys, n.Pool, n.Sec, n.App, n.Bus)
	r.fp.Initialize()
	r.h = protocol.VerifNewHandler(config.P2P{MaxInboundPeers: 12, MaxOutboundPeers: 6}, n.Chain, r.props, r.votes, n.Pool, r.fp, n.Bus, r.keys, "1.1.0", true)
	r.newPeer()
	return r
}

func (r *rig) newPeer() {
	if r.peer != nil {
		r.peer.Close()
	}
	r.peerSeq++
	r.peer = r.h.VerifNewPeer(fmt.Sprintf("peer-%s-%d", r.class, r.peerSeq))
}

// buildEmpty: a fresh genesis, god only, head = genesis.  The world seed is searched so that god's
// proposer sortition passes on the genesis seed (a proposal can then get past the proof check).
func buildEmpty(seed int64) *rig {
	for try := int64(0); try < 64; try++ {
		w := newWorld(seed*1000 + try)
		w.Allocs = []sim.Alloc{{Key: kGod, State: state.Verified, Balance: dna(100000), Stake: dna(1000)}}
		n := w.NewNode(kGod)
		if n.BootErr != nil {
			panic(n.BootErr)
		}
		if ok, _ := n.Chain.GetProposerSortition(); ok {
			return attach("empty", w, n, kGod)
		}
	}
	panic("no world seed with a passing god sortition")
}

func mustAdd(n *sim.Node, tx *types.Transaction) {
	if err := n.Pool.AddExternalTxs(validation.InboundTx, tx); err != nil {
		panic(fmt.Sprintf("world builder: tx type %d refused: %v", tx.Type, err))
	}
}

func mineOn(nodes []*sim.Node, proposer *sim.Node, wantTxs int) *types.Block {
	blk := proposer.Propose(20)
	if len(blk.Body.Transactions) != wantTxs {
		panic(fmt.Sprintf("world builder: block %d has %d txs, want %d", blk.Height(), len(blk.Body.Transactions), wantTxs))
	}
	data := sim.Encode(blk)
	for _, n := range nodes {
		if err := n.Add(data); err != nil {
			panic(fmt.Sprintf("world builder: block %d refused: %v", blk.Height(), err))
		}
	}
	return blk
}

func flipCidOf(data []byte) []byte {
	c, _ := cid.NewPrefixV1(cid.Raw, mh.SHA2_256).Sum(data)
	return c.Bytes()
}

// buildPopulated: identities in several states, an online validator, a pool with a delegator, an invite,
// a flip, an embedded contract, several blocks with transactions.
func buildPopulated(seed int64, class string) *rig {
	for try := int64(0); try < 64; try++ {
		if r := tryPopulated(seed*1000+try, class); r != nil {
			return r
		}
	}
	panic("no world seed with a passing proposer sortition on the head of state class " + class)
}

// periodOf: the validation period a state class is in (state.ValidationPeriod) and the block times that lead there.
var periodTimes = map[string][]int64{
	"populated": nil,
	"lottery":   {firstCeremony - periodWindow + 1},
	"short":     {firstCeremony - periodWindow + 1, firstCeremony},
	"long":      {firstCeremony - periodWindow + 1, firstCeremony, firstCeremony + periodWindow + 1},
	"afterlong": {firstCeremony - periodWindow + 1, firstCeremony, firstCeremony + periodWindow + 1, firstCeremony + 2*periodWindow + 1},
}

var periodWant = map[string]state.ValidationPeriod{"populated": state.NonePeriod, "lottery": state.FlipLotteryPeriod,
	"short": state.ShortSessionPeriod, "long": state.LongSessionPeriod, "afterlong": state.AfterLongSessionPeriod}

func tryPopulated(seed int64, class string) *rig {
	w := newWorld(seed)
	w.Allocs = []sim.Alloc{
		{Key: kGod, State: state.Verified, Balance: dna(100000), Stake: dna(1000)},
		{Key: kVerified, State: state.Verified, Balance: dna(10000), Stake: dna(1000)},
		{Key: kPool, State: state.Verified, Balance: dna(10000), Stake: dna(500)},
		{Key: kNewbie, State: state.Newbie, Balance: dna(5000), Stake: dna(100)},
		{Key: kCandidate, State: state.Candidate, Balance: dna(5000)},
		{Key: kInvite, State: state.Invite, Balance: dna(5000)},
		{Key: kFunded, State: state.Undefined, Balance: dna(5000)},
		{Key: kHuman, State: state.Human, Balance: dna(5000000), Stake: dna(2000)},
	}
	a := w.NewNode(kGod)
	if a.BootErr != nil {
		panic(a.BootErr)
	}
	fee := dna(100)
	// block 2
	mustAdd(a, w.Tx(sim.TxSpec{From: kGod, To: &w.Addrs[kFunded], Type: types.SendTx, Amount: dna(10), MaxFee: fee, Nonce: 1}))
	mustAdd(a, w.Tx(sim.TxSpec{From: kVerified, Type: types.OnlineStatusTx, MaxFee: fee, Nonce: 1, Payload: attachments.CreateOnlineStatusAttachment(true)}))
	mustAdd(a, w.Tx(sim.TxSpec{From: kGod, To: &w.Addrs[kInvitee], Type: types.InviteTx, Amount: dna(50), MaxFee: fee, Nonce: 2}))
	mineOn([]*sim.Node{a}, a, 3)
	// block 3
	flipData := []byte("verif-flip-public-part")
	fcid := flipCidOf(flipData)
	mustAdd(a, w.Tx(sim.TxSpec{From: kGod, Type: types.SubmitFlipTx, MaxFee: fee, Nonce: 3, Payload: attachments.CreateFlipSubmitAttachment(fcid, 0)}))
	deploy := attachments.CreateDeployContractAttachment(embedded.TimeLockContract, nil, nil, common.ToBytes(uint64(4070908800)))
	dp, _ := deploy.ToBytes()
	minStake := new(big.Int).Mul(a.App.State.FeePerGas(), big.NewInt(3000000))
	deployTx := w.Tx(sim.TxSpec{From: kHuman, Type: types.DeployContractTx, Amount: new(big.Int).Add(minStake, dna(1)), MaxFee: dna(2000), Nonce: 1, Payload: dp})
	mustAdd(a, deployTx)
	mustAdd(a, w.Tx(sim.TxSpec{From: kPool, Type: types.BurnTx, Amount: dna(1), MaxFee: fee, Nonce: 1, Payload: attachments.CreateBurnAttachment("k")}))
	mineOn([]*sim.Node{a}, a, 3)
	// block 4
	mustAdd(a, w.Tx(sim.TxSpec{From: kNewbie, To: &w.Addrs[kPool], Type: types.DelegateTx, MaxFee: fee, Nonce: 1}))
	mustAdd(a, w.Tx(sim.TxSpec{From: kHuman, To: &w.Addrs[kHuman], Type: types.ReplenishStakeTx, Amount: dna(5), MaxFee: fee, Nonce: 2}))
	mineOn([]*sim.Node{a}, a, 2)
	// block 5: status + delegation switch (IdentityUpdate)
	b5 := mineOn([]*sim.Node{a}, a, 0)
	if !b5.Header.Flags().HasFlag(types.IdentityUpdate) {
		panic("world builder: block 5 carries no IdentityUpdate")
	}
	if !a.App.ValidatorsCache.IsOnlineIdentity(w.Addrs[kVerified]) {
		panic("world builder: the verified identity did not come online")
	}
	// from here the proposer has to be the online identity
	b := a.Clone(kVerified)
	if b.BootErr != nil {
		panic(b.BootErr)
	}
	mustAdd(b, w.Tx(sim.TxSpec{From: kVerified, To: &w.Addrs[kFunded], Type: types.SendTx, Amount: dna(3), MaxFee: fee, Nonce: 2}))
	mineOn([]*sim.Node{b}, b, 1)
	mineOn([]*sim.Node{b}, b, 0)
	times, known := periodTimes[class]
	if !known {
		panic("unknown state class " + class)
	}
	for _, t := range times {
		blk := b.Propose(t - b.Chain.Head.Time())
		if err := b.Add(sim.Encode(blk)); err != nil {
			panic(fmt.Sprintf("world builder: period block refused: %v", err))
		}
	}
	if got := b.App.State.ValidationPeriod(); got != periodWant[class] {
		panic(fmt.Sprintf("world builder: state class %s is in period %d", class, got))
	}
	// a proposal of this node has to get past the proof check: move on until its sortition passes
	for i := 0; ; i++ {
		if ok, _ := b.Chain.GetProposerSortition(); ok {
			break
		}
		if i == 40 {
			return nil
		}
		mineOn([]*sim.Node{b}, b, 0)
	}
	if got := b.App.State.ValidationPeriod(); got != periodWant[class] {
		return nil
	}
	r := attach(class, w, b, kVerified)
	sender, _ := types.Sender(deployTx)
	r.contract = env.ComputeContractAddr(deployTx, sender)
	if b.App.State.GetCodeHash(r.contract) == nil {
		panic("world builder: contract was not deployed")
	}
	r.flipCid = fcid
	if len(b.App.State.GetIdentity(w.Addrs[kGod]).Flips) == 0 {
		panic("world builder: god has no flip")
	}
	return r
}
