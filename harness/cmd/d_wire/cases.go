package main

import (
	"bytes"
	"encoding/binary"
	"fmt"
	"math"
	"math/rand"
	"runtime/debug"
	"strings"
	"time"

	"github.com/idena-network/idena-go/blockchain/attachments"
	"github.com/idena-network/idena-go/blockchain/fee"
	"github.com/idena-network/idena-go/blockchain/types"
	"github.com/idena-network/idena-go/blockchain/validation"
	"github.com/idena-network/idena-go/common"
	"github.com/idena-network/idena-go/core/flip"
	"github.com/idena-network/idena-go/crypto"
	"github.com/idena-network/idena-go/pengings"
	models "github.com/idena-network/idena-go/protobuf"
	"github.com/idena-network/idena-go/protocol"
	"github.com/idena-network/idena-go/stats/collector"
	"github.com/klauspost/compress/s2"
)

// message codes (protocol/codes.go)
const (
	cHandshake = 1 + iota
	cProposeBlock
	cProposeProof
	cVote
	cNewTx
	cGetBlockByHash
	cGetBlocksRange
	cBlocksRange
	cFlipBody
	cFlipKey
	cSnapshotManifest
	cGetForkBlockRange
	cFlipKeysPackage
	cPush
	cPull
	cBlock
	cUpdateShardId
	cBatchPush
	cBatchFlipKey
	cDisconnect
)

// classify maps the error of the peer read path to a verdict class.  handle() tags its own rejections
// "1 - .." (DecodeErr) and "2 - .." (ValidationErr); everything else that makes ReadMsg fail (msgio,
// Decode, Msg.FromBytes) is a decode rejection.
func classify(err error) (string, string) {
	if err == nil {
		return "", ""
	}
	s := err.Error()
	if strings.HasPrefix(s, "2 - ") {
		return "rejectValidation", s
	}
	return "rejectDecode", s
}

func prepare(c *Case, r *rig) *prepared {
	rnd := caseRand(c.Id)
	r.peer.Forget()
	r.peer.Outbox()
	switch c.s("layer") {
	case "frame":
		return prepFrame(c, r, rnd)
	case "raw":
		return prepRaw(c, r, rnd)
	case "msg":
		return prepMsg(c, r, rnd)
	case "tx":
		return prepTx(c, r, rnd)
	case "block":
		return prepBlock(c, r, rnd)
	}
	panic("unknown layer " + c.s("layer"))
}

// handleExec: one iteration of the real read loop on the given stream bytes; effect() tells accept from ignore.
func handleExec(r *rig, raw []byte, effect func() bool) execFn {
	return func() (string, string) {
		err := r.peer.HandleStream(raw)
		if v, why := classify(err); v != "" {
			return v, why
		}
		pulls := r.h.VerifDrainPullRequests()
		if r.peer.Outbox() > 0 || pulls > 0 || (effect != nil && effect()) {
			return "accept", ""
		}
		return "ignore", ""
	}
}

// ---------------------------------------------------------------------------------------------
// layer "frame"

func prepFrame(c *Case, r *rig, rnd *rand.Rand) *prepared {
	push := pm(&models.ProtoPullPushHash{Type: 6, Hash: rbytes(rnd, 16)})
	inner := envelope(cPush, push)
	var env []byte
	switch c.s("env") {
	case "ok":
		env = inner
	case "empty":
		env = []byte{}
	case "garbage":
		env = append([]byte{0xff, 0xff, 0xff}, rbytes(rnd, 37)...)
	case "trunc":
		env = inner[:len(inner)-3]
	}
	var frame []byte
	switch c.s("comp") {
	case "none":
		frame = frameNone(env)
	case "unknown":
		frame = append([]byte{byte(2 + rnd.Intn(254))}, env...)
	case "s2":
		block := s2.Encode(nil, env)
		_, n := binary.Uvarint(block)
		body := block[n:]
		switch c.s("dlen") {
		case "ok":
			frame = append([]byte{1}, block...)
		case "larger":
			frame = append(append([]byte{1}, uvarint(uint64(len(env)+65536))...), body...)
		case "huge":
			frame = append(append([]byte{1}, uvarint(1<<30)...), body...)
		case "badvarint":
			frame = append(append([]byte{1}, 0xff, 0xff, 0xff, 0xff, 0xff, 0xff, 0xff, 0xff, 0xff, 0xff, 0xff), body...)
		}
	}
	var raw []byte
	switch c.s("prefix") {
	case "ok":
		raw = protocol.VerifLenPrefixed(frame)
	case "zero":
		raw = []byte{0, 0, 0, 0}
	case "short":
		raw = protocol.VerifLenPrefixed(frame)
		binary.BigEndian.PutUint32(raw, uint32(len(frame)+100))
	case "max":
		raw = protocol.VerifLenPrefixed(frame)
		binary.BigEndian.PutUint32(raw, 8*1024*1024)
	case "overmax":
		raw = protocol.VerifLenPrefixed(frame)
		binary.BigEndian.PutUint32(raw, 8*1024*1024+1)
	}
	return &prepared{frame: int64(len(raw)), exec: handleExec(r, raw, nil), shared: true}
}

// ---------------------------------------------------------------------------------------------
// layer "raw"

func prepRaw(c *Case, r *rig, rnd *rand.Rand) *prepared {
	code := uint64(c.i("code"))
	var payload []byte
	switch c.s("raw") {
	case "empty":
	case "garbage":
		payload = rbytes(rnd, 1+rnd.Intn(200))
	case "trunc":
		v := r.sample(rnd, code)
		if len(v) > 1 {
			payload = v[:1+rnd.Intn(len(v)-1)]
		}
	case "padded":
		payload = padField(rnd, r.sample(rnd, code), 2000+rnd.Intn(48000))
	case "mutated":
		payload = mutate(rnd, r.sample(rnd, code))
	case "confused":
		other := code%20 + 1
		if other == code {
			other = cVote
		}
		payload = r.sample(rnd, other)
	}
	env := envelope(code, payload)
	var frame []byte
	if c.s("comp") == "s2" {
		frame = frameS2(env)
	} else {
		frame = frameNone(env)
	}
	raw := protocol.VerifLenPrefixed(frame)
	return &prepared{frame: int64(len(raw)), exec: handleExec(r, raw, nil), shared: true}
}

// mutate applies one to four byte-level mutations to a well-formed payload.
func mutate(rnd *rand.Rand, v []byte) []byte {
	b := append([]byte(nil), v...)
	for n := 1 + rnd.Intn(4); n > 0 && len(b) > 0; n-- {
		i := rnd.Intn(len(b))
		switch rnd.Intn(7) {
		case 0:
			b[i] ^= 1 << uint(rnd.Intn(8))
		case 1:
			b[i] = []byte{0, 0x7f, 0x80, 0xff}[rnd.Intn(4)]
		case 2: // drop a run
			j := i + 1 + rnd.Intn(8)
			if j > len(b) {
				j = len(b)
			}
			b = append(b[:i], b[j:]...)
		case 3: // repeat a run
			j := i + 1 + rnd.Intn(16)
			if j > len(b) {
				j = len(b)
			}
			run := append([]byte(nil), b[i:j]...)
			b = append(b[:j], append(run, b[j:]...)...)
		case 4: // a length / varint byte grows
			b[i] |= 0x80
		case 5: // insert random bytes
			b = append(b[:i], append(rbytes(rnd, 1+rnd.Intn(6)), b[i:]...)...)
		case 6:
			b[i] = byte(rnd.Intn(256))
		}
	}
	return b
}

// sample returns a well-formed payload of a code (the all-valid point of its lattice).
func (r *rig) sample(rnd *rand.Rand, code uint64) []byte {
	mk := func(kv ...string) *Case {
		m := map[string]interface{}{"code": float64(code), "state": r.class}
		for i := 0; i+1 < len(kv); i += 2 {
			m[kv[i]] = kv[i+1]
		}
		return &Case{m: m}
	}
	switch code {
	case cHandshake:
		return r.msgHandshake(rnd, mk("intgen", "none", "net", "ok", "genesis", "ok", "oldgen", "absent", "ts", "now", "ver", "ok"))
	case cProposeBlock:
		b, _ := r.msgProposeBlock(rnd, mk("data", "present", "hdr", "proposed", "body", "empty", "sig", "proposer", "proof", "valid", "height", "round"))
		return b
	case cProposeProof:
		return r.msgProposeProof(rnd, mk("data", "present", "proof", "valid", "sig", "proposer", "round", "round"))
	case cVote:
		b, _ := r.msgVote(rnd, mk("hdr", "present", "sig", "validator", "round", "round", "step", "final", "off", "no", "upg", "zero"))
		return b
	case cNewTx:
		b, _ := r.tpl.pooledTx.ToBytes()
		return b
	case cGetBlockByHash:
		return pm(&models.ProtoGetBlockByHashRequest{Hash: r.tpl.head.Hash().Bytes()})
	case cGetBlocksRange:
		return pm(&models.ProtoGetBlocksRangeRequest{BatchId: 1, From: 1, To: r.tpl.head.Height()})
	case cBlocksRange:
		return pm(&models.ProtoGossipBlockRange{BatchId: 7, Blocks: []*models.ProtoGossipBlockRange_Block{{Header: r.tpl.empty.Header.ToProto()}}})
	case cFlipBody:
		b, _ := r.msgFlip(rnd, mk("tx", "present", "ftype", "flip", "to", "absent", "attach", "match", "pub", "small", "sender", "author"))
		return b
	case cFlipKey:
		return r.msgKey(rnd, mk("data", "present", "size", "ok", "sig", "author", "epoch", "current"), cFlipKey)
	case cFlipKeysPackage:
		return r.msgKey(rnd, mk("data", "present", "size", "ok", "sig", "author", "epoch", "current"), cFlipKeysPackage)
	case cSnapshotManifest:
		return pm(&models.ProtoManifest{Height: r.tpl.head.Height(), Root: r.tpl.head.Root().Bytes(), CidV2: flipCidOf(rbytes(rnd, 10))})
	case cGetForkBlockRange:
		return pm(&models.ProtoGetForkBlockRangeRequest{BatchId: 1, Blocks: [][]byte{r.tpl.head.Hash().Bytes()}})
	case cPush, cPull:
		return pm(&models.ProtoPullPushHash{Type: 6, Hash: rbytes(rnd, 16)})
	case cBlock:
		b, _ := r.tpl.empty.Block.ToBytes()
		return b
	case cUpdateShardId:
		return pm(&models.ProtoUpdateShardId{ShardId: 1})
	case cBatchPush:
		return pm(&models.ProtoMsgBatch{Data: []*models.ProtoMsgBatch_BatchItem{{Payload: pm(&models.ProtoPullPushHash{Type: 6, Hash: rbytes(rnd, 16)})}}})
	case cBatchFlipKey:
		return pm(&models.ProtoMsgBatch{Data: []*models.ProtoMsgBatch_BatchItem{{Payload: r.msgKey(rnd, mk("data", "present", "size", "ok", "sig", "author", "epoch", "current"), cFlipKey)}}})
	case cDisconnect:
		return pm(&models.ProtoDisconnect{Reason: "bye"})
	}
	// unknown codes: some bytes
	return pm(&models.ProtoDisconnect{Reason: "unknown code"})
}

// ---------------------------------------------------------------------------------------------
// layer "msg"

func prepMsg(c *Case, r *rig, rnd *rand.Rand) *prepared {
	code := uint64(c.i("code"))
	p := &prepared{shared: true}
	var payload []byte
	var effect func() bool
	var after func() (string, string) // what the node does next with an accepted object
	switch code {
	case cHandshake:
		// "intgen = has": the receiving node has an intermediate genesis - the two assignments AddBlock performs
		// for a NewGenesis block (and AtomicSwitchToPreliminary / InitializeChain for a synced or restarted node)
		withGenesis := func(f func()) {
			gi := r.n.Chain.GenesisInfo()
			g, o := gi.Genesis, gi.OldGenesis
			if c.s("intgen") == "has" {
				gi.OldGenesis, gi.Genesis = gi.Genesis, r.tpl.head
			}
			defer func() { gi.Genesis, gi.OldGenesis = g, o }()
			f()
		}
		withGenesis(func() { payload = r.msgHandshake(rnd, c) })
		raw := protocol.VerifLenPrefixed(frameNatural(code, payload))
		p.frame = int64(len(raw))
		p.exec = func() (verdict string, detail string) {
			var err error
			withGenesis(func() { err = r.peer.ReadStatus(raw) })
			if err != nil {
				if strings.HasPrefix(err.Error(), "can't decode") {
					return "rejectDecode", err.Error()
				}
				return "rejectValidation", err.Error()
			}
			return "accept", ""
		}
		return p
	case cProposeBlock:
		props, _ := pengings.NewProposals(r.n.Chain, r.n.App, r.n.Offline, r.n.Upgrader, collector.NewStatsCollector())
		r.props = props
		r.h.VerifSetProposals(props)
		var prop *types.BlockProposal
		payload, prop = r.msgProposeBlock(rnd, c)
		after = func() (string, string) {
			if prop == nil || prop.Block == nil || prop.Block.Header == nil || prop.Block.Header.ProposedHeader == nil {
				return "ignore", ""
			}
			round := prop.Block.Height()
			if _, err := props.GetBlockByHash(round, prop.Block.Hash()); err != nil {
				return "ignore", "not stored"
			}
			// the consensus engine's next step with a stored proposal
			if _, err := props.GetProposedBlock(round, prop.Block.Header.ProposedHeader.ProposerPubKey, 50*time.Millisecond); err != nil {
				return "rejectValidation", err.Error()
			}
			return "accept", ""
		}
	case cProposeProof:
		props, _ := pengings.NewProposals(r.n.Chain, r.n.App, r.n.Offline, r.n.Upgrader, collector.NewStatsCollector())
		r.props = props
		r.h.VerifSetProposals(props)
		payload = r.msgProposeProof(rnd, c)
		round := r.n.Chain.Round()
		effect = func() bool { _, _, ok := props.ProposerByRound(round); return ok }
	case cVote:
		var vote *types.Vote
		payload, vote = r.msgVote(rnd, c)
		effect = func() bool {
			if vote == nil || vote.Header == nil {
				return false
			}
			m := r.votes.GetVotesOfRound(vote.Header.Round)
			if m == nil {
				return false
			}
			_, ok := m.Load(vote.Hash())
			return ok
		}
	case cGetBlockByHash:
		q := &models.ProtoGetBlockByHashRequest{}
		switch c.s("hash") {
		case "short":
			q.Hash = rbytes(rnd, 5)
		case "known":
			q.Hash = r.tpl.head.Hash().Bytes()
		case "unknown":
			q.Hash = rbytes(rnd, 32)
		case "long":
			q.Hash = rbytes(rnd, 100)
		}
		payload = pm(q)
	case cGetBlocksRange:
		q := &models.ProtoGetBlocksRangeRequest{BatchId: rnd.Uint32()}
		h := r.tpl.head.Height()
		switch c.s("range") {
		case "normal":
			q.From, q.To = 1, h
		case "inverted":
			q.From, q.To = h, 1
		case "all":
			q.From, q.To = 1, math.MaxUint64
		case "beyond":
			q.From, q.To = h+10, h+20
		}
		payload = pm(q)
	case cGetForkBlockRange:
		q := &models.ProtoGetForkBlockRangeRequest{BatchId: rnd.Uint32()}
		switch c.s("blocks") {
		case "unknown":
			for i := 0; i < 3; i++ {
				q.Blocks = append(q.Blocks, rbytes(rnd, 32))
			}
		case "known":
			for _, h := range r.n.Chain.GetTopBlockHashes(5) {
				q.Blocks = append(q.Blocks, h.Bytes())
			}
		case "short":
			for i := 0; i < 3; i++ {
				q.Blocks = append(q.Blocks, rbytes(rnd, 5))
			}
		case "many":
			for i := 0; i < 5000; i++ {
				q.Blocks = append(q.Blocks, rbytes(rnd, 32))
			}
		}
		payload = pm(q)
	case cBlocksRange:
		return r.prepBlocksRange(rnd, c)
	case cFlipBody:
		var f *types.Flip
		payload, f = r.msgFlip(rnd, c)
		raw := protocol.VerifLenPrefixed(frameNatural(code, payload))
		p.frame = int64(len(raw))
		p.exec = func() (string, string) {
			// the write-loop body first, on this goroutine (see core/flip/verif_shim.go), behind the same gate as handle()
			var syncErr error
			if f != nil && f.IsValid() {
				syncErr = r.fp.VerifAddNewFlipSync(f)
			}
			err := r.peer.HandleStream(raw)
			// the write loop works on what handle() queued while this case is still the one in flight
			r.fp.VerifWaitIdle(5 * time.Second)
			if v, why := classify(err); v != "" {
				return v, why
			}
			if f == nil || !f.IsValid() {
				return "ignore", ""
			}
			if syncErr != nil {
				return "ignore", syncErr.Error()
			}
			return "accept", ""
		}
		return p
	case cFlipKey, cFlipKeysPackage:
		payload = r.msgKey(rnd, c, code)
		signer := r.addr(kGod)
		if c.s("sig") == "stranger" {
			signer = r.addr(kStranger)
		}
		if code == cFlipKey {
			had := r.keys.GetPublicFlipKey(signer) != nil
			effect = func() bool { return !had && r.keys.GetPublicFlipKey(signer) != nil }
		} else {
			pk := new(types.PrivateFlipKeysPackage)
			if err := pk.FromBytes(payload); err == nil {
				h128 := pk.Hash128()
				had := r.keys.Has(h128)
				effect = func() bool { return !had && r.keys.Has(h128) }
			}
		}
	case cBatchPush, cBatchFlipKey:
		payload = r.msgBatch(rnd, c, code)
	case cPush, cPull:
		q := &models.ProtoPullPushHash{Type: uint32(c.i("ptype"))}
		switch c.s("hash") {
		case "short":
			q.Hash = rbytes(rnd, 5)
		case "unknown":
			q.Hash = rbytes(rnd, 16)
		case "known":
			h := r.tpl.pooledTx.Hash128()
			q.Hash = h[:]
		case "long":
			q.Hash = rbytes(rnd, 100)
		}
		payload = pm(q)
	case cBlock:
		b := r.baseBlock(c.s("hdr"), c.s("body"))
		if c.s("approved") == "yes" && b.Header != nil && (b.Header.ProposedHeader != nil || b.Header.EmptyBlockHeader != nil) {
			r.props.ApproveBlock(b.Header.Hash())
		}
		payload, _ = b.ToBytes()
		hdr := b.Header
		effect = func() bool {
			return hdr != nil && (hdr.ProposedHeader != nil || hdr.EmptyBlockHeader != nil) && r.props.GetBlock(hdr.Hash()) != nil
		}
	case cSnapshotManifest:
		q := &models.ProtoManifest{}
		switch c.s("root") {
		case "ok":
			q.Root = r.tpl.head.Root().Bytes()
		case "long":
			q.Root = rbytes(rnd, 100)
		}
		switch c.s("cid") {
		case "garbage":
			q.CidV2 = rbytes(rnd, 20)
		case "valid":
			q.CidV2 = flipCidOf(rbytes(rnd, 10))
		}
		switch c.s("height") {
		case "mid":
			q.Height = r.tpl.head.Height()
		case "max":
			q.Height = math.MaxUint64
		}
		payload = pm(q)
		effect = func() bool { return true }
	case cUpdateShardId:
		q := &models.ProtoUpdateShardId{}
		switch c.s("shard") {
		case "one":
			q.ShardId = 1
		case "max":
			q.ShardId = math.MaxUint32
		}
		payload = pm(q)
		effect = func() bool { return true }
	case cDisconnect:
		q := &models.ProtoDisconnect{}
		switch c.s("reason") {
		case "short":
			q.Reason = "bye"
		case "long":
			q.Reason = strings.Repeat("x", 100000)
		}
		payload = pm(q)
		effect = func() bool { return true }
	default:
		panic(fmt.Sprintf("no builder for code %d", code))
	}
	raw := protocol.VerifLenPrefixed(frameNatural(code, payload))
	p.frame = int64(len(raw))
	inner := handleExec(r, raw, effect)
	if after == nil {
		p.exec = inner
	} else {
		p.exec = func() (string, string) {
			v, why := inner()
			if v == "rejectDecode" || v == "rejectValidation" {
				return v, why
			}
			return after()
		}
	}
	return p
}

func (r *rig) msgHandshake(rnd *rand.Rand, c *Case) []byte {
	q := &models.ProtoHandshake{NetworkId: r.n.Chain.Network(), Height: r.tpl.head.Height(), Peers: 3}
	if c.s("net") == "other" {
		q.NetworkId++
	}
	switch c.s("genesis") {
	case "short":
		q.Genesis = rbytes(rnd, 5)
	case "ok":
		q.Genesis = r.n.Chain.GenesisInfo().Genesis.Hash().Bytes()
	case "wrong":
		q.Genesis = rbytes(rnd, 32)
	case "ownold":
		q.Genesis = r.n.Chain.GenesisInfo().OldGenesis.Hash().Bytes()
	}
	switch c.s("oldgen") {
	case "ok":
		q.OldGenesis = rbytes(rnd, 32)
	case "long":
		q.OldGenesis = rbytes(rnd, 100)
	case "owngen":
		q.OldGenesis = r.n.Chain.GenesisInfo().Genesis.Hash().Bytes()
	case "ownold":
		q.OldGenesis = r.n.Chain.GenesisInfo().OldGenesis.Hash().Bytes()
	case "zero":
		q.OldGenesis = make([]byte, 32)
	}
	switch c.s("ts") {
	case "now":
		q.Timestamp = time.Now().UTC().Unix() // readStatus compares with the real clock
	case "skewed":
		q.Timestamp = time.Now().UTC().Unix() + 1000
	case "min":
		q.Timestamp = math.MinInt64
	case "max":
		q.Timestamp = math.MaxInt64
	}
	switch c.s("ver") {
	case "ok":
		q.AppVersion = "1.1.0"
	case "garbage":
		q.AppVersion = "@@not.a/version@@"
	case "long":
		q.AppVersion = strings.Repeat("9", 10000)
	}
	data := pm(q)
	if c.s("ver") == "garbage" {
		// invalid UTF-8 cannot be marshalled by an honest encoder; a hostile one writes the bytes itself
		data = bytes.Replace(data, []byte("@@not.a/version@@"), []byte("\x00\xffnot.a/version\xc3\x28"), 1)
	}
	return data
}

func (r *rig) msgProposeBlock(rnd *rand.Rand, c *Case) ([]byte, *types.BlockProposal) {
	if c.s("data") == "absent" {
		return pm(&models.ProtoBlockProposal{Signature: sigOf(rnd, c.s("sig"), [32]byte{}, nil)}), nil
	}
	b := r.baseBlock(c.s("hdr"), c.s("body"))
	r.applyDevs(rnd, b, c.devs())
	if b.Header != nil {
		var hp *uint64
		if b.Header.ProposedHeader != nil {
			hp = &b.Header.ProposedHeader.Height
		} else if b.Header.EmptyBlockHeader != nil {
			hp = &b.Header.EmptyBlockHeader.Height
		}
		if hp != nil {
			switch c.s("height") {
			case "future":
				*hp += 5
			case "far":
				*hp += 1000
			case "past":
				*hp -= 1
			}
		}
		if b.Header.ProposedHeader != nil && b.Header.EmptyBlockHeader != nil {
			b.Header.EmptyBlockHeader.Height = b.Header.ProposedHeader.Height
		}
	}
	prop := &types.BlockProposal{Block: b}
	switch c.s("proof") {
	case "garbage":
		prop.Proof = rbytes(rnd, 129)
	case "valid":
		prop.Proof = r.tpl.proof
	}
	hash := crypto.SignatureHash(prop)
	k := r.key(r.proposer)
	if c.s("sig") == "other" {
		k = r.key(kStranger)
	}
	prop.Signature = sigOf(rnd, c.s("sig"), hash, k)
	data, err := prop.ToBytes()
	if err != nil {
		panic(err)
	}
	// what the receiver will hold: the decoded proposal
	dec := new(types.BlockProposal)
	if err := dec.FromBytes(data); err != nil {
		panic(err)
	}
	return data, dec
}

func (r *rig) msgProposeProof(rnd *rand.Rand, c *Case) []byte {
	if c.s("data") == "absent" {
		return pm(&models.ProtoProposeProof{Signature: sigOf(rnd, c.s("sig"), [32]byte{}, nil)})
	}
	p := &types.ProofProposal{}
	switch c.s("proof") {
	case "short":
		p.Proof = rbytes(rnd, 10)
	case "garbage":
		p.Proof = rbytes(rnd, 129)
	case "valid":
		p.Proof = r.tpl.proof
	}
	round := r.n.Chain.Round()
	switch c.s("round") {
	case "round":
		p.Round = round
	case "future":
		p.Round = round + 3
	case "far":
		p.Round = round + 1000
	case "past":
		p.Round = 0
	}
	k := r.key(r.proposer)
	if c.s("sig") == "other" {
		k = r.key(kStranger)
	}
	p.Signature = sigOf(rnd, c.s("sig"), crypto.SignatureHash(p), k)
	data, _ := p.ToBytes()
	return data
}

func (r *rig) msgVote(rnd *rand.Rand, c *Case) ([]byte, *types.Vote) {
	if c.s("hdr") == "absent" {
		class := c.s("sig")
		if class == "validator" {
			class = "garbage"
		}
		return pm(&models.ProtoVote{Signature: sigOf(rnd, class, [32]byte{}, nil)}), nil
	}
	head := r.tpl.head
	v := &types.Vote{Header: &types.VoteHeader{ParentHash: head.Hash(), VotedHash: common.BytesToHash(rbytes(rnd, 32))}}
	switch c.s("round") {
	case "round":
		v.Header.Round = head.Height() + 1
	case "lag":
		if head.Height() > 5 {
			v.Header.Round = head.Height() - 5
		}
	case "future":
		v.Header.Round = head.Height() + 4
	case "far":
		v.Header.Round = head.Height() + 1000
	}
	switch c.s("step") {
	case "final":
		v.Header.Step = types.Final
	case "reduction":
		v.Header.Step = types.ReductionOne
	}
	v.Header.TurnOffline = c.s("off") == "yes"
	if c.s("upg") == "one" {
		v.Header.Upgrade = 1
	}
	k := r.key(r.proposer)
	class := c.s("sig")
	if class == "stranger" {
		k = r.key(kStranger)
	}
	v.Signature = sigOf(rnd, class, crypto.SignatureHash(v), k)
	data, _ := v.ToBytes()
	dec := new(types.Vote)
	if err := dec.FromBytes(data); err != nil {
		panic(err)
	}
	return data, dec
}

func (r *rig) msgFlip(rnd *rand.Rand, c *Case) ([]byte, *types.Flip) {
	q := &models.ProtoFlip{}
	switch c.s("pub") {
	case "small":
		q.PublicPart = rbytes(rnd, 100)
		q.PrivatePart = rbytes(rnd, 50)
	case "big":
		q.PublicPart = rbytes(rnd, common.MaxFlipSize+1000)
	}
	if c.s("tx") == "present" {
		k := r.senderKey(c.s("sender"))
		typ := types.SubmitFlipTx
		switch c.s("ftype") {
		case "activation":
			typ = types.ActivationTx
		case "send":
			typ = types.SendTx
		case "unknown":
			typ = 99
		}
		tx := &types.Transaction{AccountNonce: r.nextNonce(k), Epoch: r.n.App.State.Epoch(), Type: typ, MaxFee: dna(100)}
		if c.s("sender") == "unfunded" {
			tx.MaxFee = nil // a sender without funds offers no fee (the minimum fee of several types is zero)
		}
		if c.s("to") == "known" {
			a := r.addr(kPool)
			tx.To = &a
		}
		// the cid the flipper will compute: over IpfsFlip{public, private, sender pubkey}
		pub := crypto.FromECDSAPub(&r.key(k).PublicKey)
		ipf := &flip.IpfsFlip{PublicPart: q.PublicPart, PrivatePart: q.PrivatePart, PubKey: pub}
		data, _ := ipf.ToBytes()
		cd, _ := r.n.Ipfs.Cid(data)
		switch c.s("attach") {
		case "match":
			tx.Payload = attachments.CreateFlipSubmitAttachment(cd.Bytes(), 1)
		case "mismatch":
			tx.Payload = attachments.CreateFlipSubmitAttachment(flipCidOf(rbytes(rnd, 10)), 1)
		case "garbage":
			tx.Payload = rbytes(rnd, 30)
		}
		if c.s("sender") != "nosig" {
			tx.Signature = sign(crypto.SignatureHash(tx), r.key(k))
		}
		q.Transaction = tx.ToProto()
	}
	data := pm(q)
	f := new(types.Flip)
	if err := f.FromBytes(data); err != nil {
		panic(err)
	}
	return data, f
}

func (r *rig) msgKey(rnd *rand.Rand, c *Case, code uint64) []byte {
	sigClass := c.s("sig")
	k := r.key(kGod) // god is the identity with a flip in the populated state
	if sigClass == "stranger" {
		k = r.key(kStranger)
	}
	epoch := r.n.App.State.Epoch()
	if c.s("epoch") == "other" {
		epoch += 3
	}
	if code == cFlipKey {
		if c.s("data") == "absent" {
			return pm(&models.ProtoFlipKey{Signature: sigOf(rnd, sigClass, [32]byte{}, nil)})
		}
		fk := &types.PublicFlipKey{Epoch: epoch}
		switch c.s("size") {
		case "ok":
			fk.Key = rbytes(rnd, 32)
		case "long":
			fk.Key = rbytes(rnd, 5000)
		case "zeroscalar":
			fk.Key = make([]byte, 32)
		case "order":
			fk.Key = crypto.S256().Params().N.Bytes()
		case "allones":
			fk.Key = bytes.Repeat([]byte{0xff}, 32)
		}
		fk.Signature = sigOf(rnd, sigClass, crypto.SignatureHash(fk), k)
		data, _ := fk.ToBytes()
		return data
	}
	if c.s("data") == "absent" {
		return pm(&models.ProtoPrivateFlipKeysPackage{Signature: sigOf(rnd, sigClass, [32]byte{}, nil)})
	}
	fk := &types.PrivateFlipKeysPackage{Epoch: epoch}
	switch c.s("size") {
	case "ok":
		fk.Data = rbytes(rnd, 200)
	case "long":
		fk.Data = rbytes(rnd, 1024*100+100)
	}
	fk.Signature = sigOf(rnd, sigClass, crypto.SignatureHash(fk), k)
	data, _ := fk.ToBytes()
	return data
}

func (r *rig) msgBatch(rnd *rand.Rand, c *Case, code uint64) []byte {
	q := &models.ProtoMsgBatch{}
	n := 0
	switch c.s("items") {
	case "one":
		n = 1
	case "many":
		n = 150
	}
	valid := func() []byte {
		if code == cBatchPush {
			return pm(&models.ProtoPullPushHash{Type: uint32(1 + rnd.Intn(6)), Hash: rbytes(rnd, 16)})
		}
		fk := &types.PublicFlipKey{Epoch: r.n.App.State.Epoch(), Key: rbytes(rnd, 32)}
		fk.Signature = sign(crypto.SignatureHash(fk), r.key(kGod))
		data, _ := fk.ToBytes()
		return data
	}
	for i := 0; i < n; i++ {
		class := c.s("item")
		if class == "mixed" {
			class = []string{"valid", "garbage", "empty", "badtype"}[i%4]
		}
		var pl []byte
		switch class {
		case "valid":
			pl = valid()
		case "garbage":
			pl = rbytes(rnd, 1+rnd.Intn(60))
		case "badtype":
			if code == cBatchPush {
				pl = pm(&models.ProtoPullPushHash{Type: 9, Hash: rbytes(rnd, 16)})
			} else {
				fk := &types.PublicFlipKey{Epoch: r.n.App.State.Epoch(), Key: rbytes(rnd, 7)}
				fk.Signature = sign(crypto.SignatureHash(fk), r.key(kGod))
				pl, _ = fk.ToBytes()
			}
		}
		q.Data = append(q.Data, &models.ProtoMsgBatch_BatchItem{Payload: pl, ShardId: uint32(i % 3)})
	}
	return pm(q)
}

// ---------------------------------------------------------------------------------------------
// BlocksRange and its consumers

const rangeCap = 3

func (r *rig) rangeItem(rnd *rand.Rand, hdr, cert, diff string) (*models.ProtoGossipBlockRange_Block, *types.Block) {
	it := &models.ProtoGossipBlockRange_Block{}
	var blk *types.Block
	switch hdr {
	case "proposed":
		blk = cloneBlock(r.tpl.empty.Block)
		it.Header = blk.Header.ToProto()
	case "empty":
		blk = cloneBlock(r.tpl.emptyBlk)
		it.Header = blk.Header.ToProto()
	case "both":
		blk = r.baseBlock("both", "empty")
		it.Header = blk.Header.ToProto()
	}
	if c := r.certOf(rnd, cert, blk); c != nil {
		it.Cert = c.ToProto()
	}
	switch diff {
	case "empty":
		it.Diff = &models.ProtoIdentityStateDiff{}
	case "garbage":
		it.Diff = &models.ProtoIdentityStateDiff{}
		for i := 0; i < 4; i++ {
			it.Diff.Values = append(it.Diff.Values, &models.ProtoIdentityStateDiff_IdentityStateDiffValue{
				Address: rbytes(rnd, []int{0, 5, 20, 40}[i]), Deleted: i%2 == 0, Value: rbytes(rnd, rnd.Intn(30))})
		}
	}
	return it, blk
}

func (r *rig) prepBlocksRange(rnd *rand.Rand, c *Case) *prepared {
	head := r.tpl.head.Height()
	q := &models.ProtoGossipBlockRange{BatchId: rnd.Uint32() | 1<<30}
	var vb *protocol.VerifBatch
	if c.s("batch") == "pending" {
		vb = r.peer.ExpectBlocks(head+1, head+rangeCap)
		r.peer.Outbox()
		q.BatchId = vb.Id
	}
	n := 0
	switch c.s("n") {
	case "one":
		n = 1
	case "exact":
		n = rangeCap
	case "over":
		n = 2*rangeCap + 2 // more than the batch buffer plus everything its consumer will ever take
	}
	for i := 0; i < n; i++ {
		it, _ := r.rangeItem(rnd, c.s("hdr"), c.s("cert"), c.s("diff"))
		q.Blocks = append(q.Blocks, it)
	}
	raw := protocol.VerifLenPrefixed(frameNatural(cBlocksRange, pm(q)))
	p := &prepared{frame: int64(len(raw)), shared: true}
	consumer := c.s("consumer")
	if c.s("n") == "over" {
		p.timeout = hangTimeout
	}
	p.exec = func() (string, string) {
		type hres struct {
			v, why string
			fwd    *forwardedPanic
		}
		hdone := make(chan hres, 1)
		go func() {
			// the read loop of this peer; a panic here is a panic of the node: forwarded to the case goroutine
			defer func() {
				if x := recover(); x != nil {
					hdone <- hres{fwd: &forwardedPanic{val: x, stack: debug.Stack()}}
				}
			}()
			v, why := classify(r.peer.HandleStream(raw))
			hdone <- hres{v: v, why: why}
		}()
		var hr hres
		if c.s("n") != "over" {
			hr = <-hdone // the consumer runs after the answer was delivered
			if hr.fwd != nil {
				panic(hr.fwd)
			}
			if hr.v != "" {
				return hr.v, hr.why
			}
		}
		var cerr error
		switch consumer {
		case "fullsync":
			if vb != nil {
				cerr = vb.FullSync(r.n.Chain, r.n.Ipfs, r.n.App, collector.NewStatsCollector())
			}
		case "subchain":
			if vb != nil {
				if bundles := vb.Bundles(r.n.Chain, r.n.Ipfs, r.n.App); len(bundles) > 0 {
					cerr = r.n.Chain.ValidateSubChain(head, bundles)
				}
			}
		}
		if c.s("n") == "over" {
			hr = <-hdone // the read loop has to come back for the next message
			if hr.fwd != nil {
				panic(hr.fwd)
			}
			if hr.v != "" {
				return hr.v, hr.why
			}
		}
		if cerr != nil {
			return "rejectValidation", cerr.Error()
		}
		if vb == nil {
			return "ignore", ""
		}
		return "accept", ""
	}
	return p
}

// ---------------------------------------------------------------------------------------------
// layer "tx"

func prepTx(c *Case, r *rig, rnd *rand.Rand) *prepared {
	data := r.buildTx(rnd, c)
	p := &prepared{}
	switch c.s("entry") {
	case "validate":
		tx := new(types.Transaction)
		if err := tx.FromBytes(data); err != nil {
			panic(err)
		}
		st, err := r.n.App.ForCheck(r.tpl.head.Height())
		if err != nil {
			panic(err)
		}
		mode := map[string]validation.TxType{"inblock": validation.InBlockTx, "mempool": validation.MempoolTx, "inbound": validation.InboundTx}[c.s("mode")]
		minFee := fee.GetFeePerGasForNetwork(st.ValidatorsCache.NetworkSize())
		p.frame = int64(len(data))
		p.exec = func() (string, string) {
			if err := validation.ValidateTx(st, tx, minFee, mode); err != nil {
				return "rejectValidation", err.Error()
			}
			return "accept", ""
		}
	case "wire":
		tx := new(types.Transaction)
		if err := tx.FromBytes(data); err != nil {
			panic(err)
		}
		hash := tx.Hash()
		raw := protocol.VerifLenPrefixed(frameNatural(cNewTx, data))
		p.frame = int64(len(raw))
		p.shared = true
		p.exec = handleExec(r, raw, func() bool { return r.n.Pool.GetTx(hash) != nil })
	case "block":
		tx := new(types.Transaction)
		if err := tx.FromBytes(data); err != nil {
			panic(err)
		}
		b := cloneBlock(r.tpl.empty.Block)
		r.setBody(b, []*types.Transaction{tx})
		enc, _ := b.ToBytes()
		blk := new(types.Block)
		if err := blk.FromBytes(enc); err != nil {
			panic(err)
		}
		p.frame = int64(len(enc))
		p.exec = func() (string, string) {
			if !blk.IsValid() {
				return "rejectValidation", "IsValid"
			}
			if _, err := r.n.Chain.ValidateBlock(blk, nil, collector.NewStatsCollector()); err != nil {
				return "rejectValidation", err.Error()
			}
			return "accept", ""
		}
	default:
		panic("unknown tx entry " + c.s("entry"))
	}
	return p
}

// ---------------------------------------------------------------------------------------------
// layer "block"

func prepBlock(c *Case, r *rig, rnd *rand.Rand) *prepared {
	b := r.baseBlock(c.s("hdr"), c.s("body"))
	r.applyDevs(rnd, b, c.devs())
	enc, err := b.ToBytes()
	if err != nil {
		panic(err)
	}
	blk := new(types.Block)
	if err := blk.FromBytes(enc); err != nil {
		panic(err)
	}
	cert := r.certOf(rnd, c.s("cert"), b)
	if cert != nil { // over the wire and back
		cb, _ := cert.ToBytes()
		cert = new(types.BlockCert)
		if err := cert.FromBytes(cb); err != nil {
			panic(err)
		}
	}
	head := r.tpl.head.Height()
	p := &prepared{frame: int64(len(enc))}
	switch c.s("entry") {
	case "validate":
		p.exec = func() (string, string) {
			if !blk.IsValid() {
				return "rejectValidation", "IsValid"
			}
			if _, err := r.n.Chain.ValidateBlock(blk, nil, collector.NewStatsCollector()); err != nil {
				return "rejectValidation", err.Error()
			}
			return "accept", ""
		}
	case "add":
		p.shared = true
		p.exec = func() (string, string) {
			if !blk.IsValid() {
				return "rejectValidation", "IsValid"
			}
			if err := r.n.Chain.AddBlock(blk, nil, collector.NewStatsCollector()); err != nil {
				return "rejectValidation", err.Error()
			}
			return "accept", ""
		}
	case "subchain":
		p.exec = func() (string, string) {
			if !blk.IsValid() {
				return "rejectValidation", "IsValid"
			}
			if err := r.n.Chain.ValidateSubChain(head, []types.BlockBundle{{Block: blk, Cert: cert}}); err != nil {
				return "rejectValidation", err.Error()
			}
			return "accept", ""
		}
	case "fullsync":
		// over the wire: the header (+ certificate) arrives in a block range, the body comes from ipfs
		p.shared = true
		if blk.Body != nil && blk.Header != nil && blk.Header.ProposedHeader != nil {
			r.n.Ipfs.Add(blk.Body.ToBytes(), false)
		}
		it := &models.ProtoGossipBlockRange_Block{}
		if blk.Header != nil {
			it.Header = blk.Header.ToProto()
		}
		if cert != nil {
			it.Cert = cert.ToProto()
		}
		// the batch asks for one block more than the peer will claim to have, so that a failed batch is not
		// re-requested from the same peer ten times (requestBatch needs a peer at least as high as the batch)
		vb := r.peer.ExpectBlocks(head+1, head+2)
		r.peer.Outbox()
		raw := protocol.VerifLenPrefixed(frameNatural(cBlocksRange, pm(&models.ProtoGossipBlockRange{BatchId: vb.Id, Blocks: []*models.ProtoGossipBlockRange_Block{it}})))
		p.frame = int64(len(raw))
		p.exec = func() (string, string) {
			if v, why := classify(r.peer.HandleStream(raw)); v != "" {
				return v, why
			}
			err := vb.FullSync(r.n.Chain, r.n.Ipfs, r.n.App, collector.NewStatsCollector())
			if r.n.Chain.Head.Height() != head {
				return "accept", "" // the block was inserted (the batch then ends on the missing second header)
			}
			if err != nil {
				return "rejectValidation", err.Error()
			}
			return "ignore", "deferred (no certificate)"
		}
	default:
		panic("unknown block entry " + c.s("entry"))
	}
	return p
}
