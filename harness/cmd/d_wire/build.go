package main

import (
	"crypto/ecdsa"
	"fmt"
	"math"
	"math/big"
	"math/rand"

	"github.com/golang/protobuf/proto"
	"github.com/idena-network/idena-go/blockchain/attachments"
	"github.com/idena-network/idena-go/blockchain/types"
	"github.com/idena-network/idena-go/blockchain/validation"
	"github.com/idena-network/idena-go/common"
	"github.com/idena-network/idena-go/core/state"
	"github.com/idena-network/idena-go/crypto"
	"github.com/idena-network/idena-go/crypto/ecies"
	"github.com/idena-network/idena-go/ipfs"
	models "github.com/idena-network/idena-go/protobuf"
	"github.com/idena-network/idena-go/protocol"
	"github.com/idena-network/idena-go/vm/embedded"
	"github.com/klauspost/compress/s2"

	"verifh/internal/sim"
)

// ---------------------------------------------------------------------------------------------
// rig templates

type templates struct {
	head      *types.Header
	proof     []byte               // proposer proof of the rig's key on the head
	empty     *types.BlockProposal // real proposal on the head, no transactions
	txs       *types.BlockProposal // real proposal on the head with one valid transaction
	emptyBlk  *types.Block         // the real empty block on the head
	pooledTx  *types.Transaction   // the valid transaction (stays in the pool)
	certVoter []int                // keys whose votes make a certificate
}

func (r *rig) key(k int) *ecdsa.PrivateKey { return r.w.Keys[k] }
func (r *rig) addr(k int) common.Address   { return r.w.Addrs[k] }

func (r *rig) syncClock() {
	r.w.Clock = clock
	r.w.SetNow(r.n.Chain.Head.Time() + 25)
}

func (r *rig) headMoved() bool {
	return r.tpl == nil || r.n.Chain.Head.Hash() != r.tpl.head.Hash()
}

// fundedKey is a key with a balance in this state class.
func (r *rig) fundedKey() int {
	if r.class == "empty" {
		return kGod
	}
	return kFunded
}

func (r *rig) propose() *types.BlockProposal {
	r.w.SetNow(r.n.Chain.Head.Time() + 20)
	p := r.n.Chain.ProposeBlock(r.tpl.proof)
	r.w.SetNow(r.n.Chain.Head.Time() + 25)
	return p
}

func (r *rig) setup() {
	r.syncClock()
	t := &templates{head: r.n.Chain.Head}
	r.tpl = t
	_, t.proof = r.n.Chain.GetProposerSortition()
	t.empty = r.propose()
	if len(t.empty.Body.Transactions) != 0 {
		panic("rig setup: mempool not empty")
	}
	from := r.fundedKey()
	to := r.addr(kStranger2)
	nonce := r.n.App.State.GetNonce(r.addr(from)) + 1
	if r.n.App.State.GetEpoch(r.addr(from)) < r.n.App.State.Epoch() {
		nonce = 1
	}
	t.pooledTx = r.w.Tx(sim.TxSpec{From: from, To: &to, Type: types.SendTx, Amount: dna(1), MaxFee: dna(100), Nonce: nonce, Epoch: r.n.App.State.Epoch()})
	if err := r.n.Pool.AddExternalTxs(validation.InboundTx, t.pooledTx); err == nil {
		t.txs = r.propose()
		if len(t.txs.Body.Transactions) != 1 {
			panic("rig setup: template proposal with a transaction has none")
		}
	} else {
		// during the flip lottery and the short session the pool takes ceremonial transactions only: the block
		// with a transaction is then assembled by hand (its roots are those of the empty block)
		if p := r.n.App.State.ValidationPeriod(); p != state.FlipLotteryPeriod && p != state.ShortSessionPeriod {
			panic(fmt.Sprintf("rig setup: pool refused the template transaction: %v", err))
		}
		enc, _ := t.empty.ToBytes()
		t.txs = new(types.BlockProposal)
		if err := t.txs.FromBytes(enc); err != nil {
			panic(err)
		}
		r.setBody(t.txs.Block, []*types.Transaction{t.pooledTx})
	}
	t.emptyBlk = r.n.Chain.GenerateEmptyBlock()
	if r.class == "empty" {
		t.certVoter = []int{kGod}
	} else {
		t.certVoter = []int{kVerified}
	}
}

// ---------------------------------------------------------------------------------------------
// bytes

func rbytes(rnd *rand.Rand, n int) []byte {
	b := make([]byte, n)
	rnd.Read(b)
	return b
}

func envelope(code uint64, payload []byte) []byte {
	b, err := proto.Marshal(&models.ProtoMsg{Code: code, Payload: payload})
	if err != nil {
		panic(err)
	}
	return b
}

func frameNone(b []byte) []byte { return append([]byte{0}, b...) }
func frameS2(b []byte) []byte   { return append([]byte{1}, s2.Encode(nil, b)...) }

// natural framing: what an honest peer does (protocol.Encode: s2 from 386 bytes on)
func frameNatural(code uint64, payload []byte) []byte {
	return protocol.Encode(code, envelope(code, payload))
}

func uvarint(x uint64) []byte {
	var buf [10]byte
	n := 0
	for x >= 0x80 {
		buf[n] = byte(x) | 0x80
		x >>= 7
		n++
	}
	buf[n] = byte(x)
	return buf[:n+1]
}

// padField appends an unknown length-delimited field (number 1000) of n bytes to an encoded message.
func padField(rnd *rand.Rand, b []byte, n int) []byte {
	res := append([]byte(nil), b...)
	res = append(res, uvarint(1000<<3|2)...)
	res = append(res, uvarint(uint64(n))...)
	return append(res, rbytes(rnd, n)...)
}

func pm(m proto.Message) []byte {
	b, err := proto.Marshal(m)
	if err != nil {
		panic(err)
	}
	return b
}

// ---------------------------------------------------------------------------------------------
// signatures

func sign(hash [32]byte, k *ecdsa.PrivateKey) []byte {
	sig, err := crypto.Sign(hash[:], k)
	if err != nil {
		panic(err)
	}
	return sig
}

// sigOf returns a signature of the class: none, garbage, or by the given key.
func sigOf(rnd *rand.Rand, class string, hash [32]byte, k *ecdsa.PrivateKey) []byte {
	switch class {
	case "none":
		return nil
	case "garbage":
		return rbytes(rnd, 65)
	}
	return sign(hash, k)
}

// ---------------------------------------------------------------------------------------------
// blocks

func cloneBlock(b *types.Block) *types.Block {
	data, err := b.ToBytes()
	if err != nil {
		panic(err)
	}
	c := new(types.Block)
	if err := c.FromBytes(data); err != nil {
		panic(err)
	}
	return c
}

func bloomOf(txs []*types.Transaction) []byte {
	if len(txs) == 0 {
		return []byte{}
	}
	values := map[string]struct{}{}
	for _, tx := range txs {
		sender, _ := types.Sender(tx)
		values[string(sender.Bytes())] = struct{}{}
		if tx.To != nil {
			values[string(tx.To.Bytes())] = struct{}{}
		}
	}
	bloom := common.NewSerializableBF(len(values))
	for a := range values {
		bloom.Add([]byte(a))
	}
	data, _ := bloom.Serialize()
	return data
}

// setBody replaces the transactions of a proposed block and re-derives what a sender of the block can
// derive without executing it: the transaction hash, the body cid, the bloom, the IdentityUpdate flag.
func (r *rig) setBody(b *types.Block, txs []*types.Transaction) {
	b.Body = &types.Body{Transactions: txs}
	h := b.Header.ProposedHeader
	h.TxHash = types.DeriveSha(types.Transactions(txs))
	c, _ := r.n.Ipfs.Cid(b.Body.ToBytes())
	h.IpfsHash = nil
	if c != ipfs.EmptyCid {
		h.IpfsHash = c.Bytes()
	}
	h.TxBloom = bloomOf(txs)
	for _, tx := range txs {
		if tx.Type == types.KillTx || tx.Type == types.KillInviteeTx || tx.Type == types.KillDelegatorTx {
			h.Flags |= types.IdentityUpdate
		}
	}
}

// hostileTx: a Send without its recipient, signed by a funded key with the right nonce.
func (r *rig) hostileTx() *types.Transaction {
	from := r.fundedKey()
	return r.w.Tx(sim.TxSpec{From: from, Type: types.SendTx, Amount: dna(1), MaxFee: dna(100),
		Nonce: r.nextNonce(from), Epoch: r.n.App.State.Epoch()})
}

func (r *rig) nextNonce(k int) uint32 {
	st := r.n.App.State
	if st.GetEpoch(r.addr(k)) < st.Epoch() {
		return 1
	}
	return st.GetNonce(r.addr(k)) + 1
}

// baseBlock returns a fresh copy of the well-formed block on the head with the given header kind and body.
func (r *rig) baseBlock(hdr, body string) *types.Block {
	var b *types.Block
	switch hdr {
	case "empty":
		b = cloneBlock(r.tpl.emptyBlk)
		switch body {
		case "nil":
			b.Body = nil
		case "txs", "hostile":
			b.Body = &types.Body{Transactions: []*types.Transaction{r.tpl.pooledTx}}
		default:
			b.Body = &types.Body{}
		}
		return b
	case "none":
		b = cloneBlock(r.tpl.empty.Block)
		b.Header = nil
	case "both":
		b = cloneBlock(r.tpl.empty.Block)
		b.Header.EmptyBlockHeader = cloneBlock(r.tpl.emptyBlk).Header.EmptyBlockHeader
	default:
		if body == "txs" {
			b = cloneBlock(r.tpl.txs.Block)
		} else {
			b = cloneBlock(r.tpl.empty.Block)
		}
	}
	switch body {
	case "nil":
		b.Body = nil
	case "hostile":
		if b.Header != nil && b.Header.ProposedHeader != nil {
			r.setBody(b, []*types.Transaction{r.hostileTx()})
		} else {
			b.Body = &types.Body{Transactions: []*types.Transaction{r.hostileTx()}}
		}
	case "txs":
		if b.Body == nil || len(b.Body.Transactions) == 0 {
			b.Body = &types.Body{Transactions: []*types.Transaction{r.tpl.pooledTx}}
		}
	}
	return b
}

// applyDevs applies hostile deviations to a block.
func (r *rig) applyDevs(rnd *rand.Rand, b *types.Block, devs [][2]string) {
	if b.Header == nil {
		return
	}
	for _, d := range devs {
		if h := b.Header.ProposedHeader; h != nil {
			switch d[0] + "=" + d[1] {
			case "flags=offcommit":
				h.Flags |= types.OfflineCommit
			case "flags=offpropose":
				h.Flags |= types.OfflinePropose
			case "flags=idupdate":
				h.Flags |= types.IdentityUpdate
			case "flags=newgenesis":
				h.Flags |= types.NewGenesis
			case "flags=snapshot":
				h.Flags |= types.Snapshot
			case "flags=allbits":
				h.Flags = types.BlockFlag(math.MaxUint32)
			case "flags=offcommit_addr":
				h.Flags |= types.OfflineCommit
				a := r.addr(kVerified)
				h.OfflineAddr = &a
			case "flags=offpropose_addr":
				h.Flags |= types.OfflinePropose
				a := r.addr(kVerified)
				h.OfflineAddr = &a
			case "offaddr=set":
				a := r.addr(kPool)
				h.OfflineAddr = &a
			case "pubkey=empty":
				h.ProposerPubKey = nil
			case "pubkey=garbage":
				h.ProposerPubKey = rbytes(rnd, 65)
			case "pubkey=stranger":
				h.ProposerPubKey = crypto.FromECDSAPub(&r.key(kStranger).PublicKey)
			case "seedproof=empty":
				h.SeedProof = nil
			case "seedproof=garbage": // right length (64+65), wrong content
				h.SeedProof = rbytes(rnd, 129)
			case "seed=wrong":
				h.BlockSeed = types.BytesToSeed(rbytes(rnd, 32))
			case "fee=nil":
				h.FeePerGas = nil
			case "fee=zero":
				h.FeePerGas = big.NewInt(0)
			case "fee=wrong":
				h.FeePerGas = new(big.Int).Add(r.n.App.State.FeePerGas(), big.NewInt(1))
			case "parent=wrong":
				h.ParentHash = common.BytesToHash(rbytes(rnd, 32))
			case "height=plus":
				h.Height++
			case "height=zero":
				h.Height = 0
			case "height=max":
				h.Height = math.MaxUint64
			case "time=past":
				h.Time = r.tpl.head.Time()
			case "time=future":
				h.Time += 1000000
			case "time=min":
				h.Time = math.MinInt64
			case "time=max":
				h.Time = math.MaxInt64
			case "upgrade=one":
				h.Upgrade = 1
			case "upgrade=max":
				h.Upgrade = math.MaxUint32
			case "txhash=stale":
				h.TxHash = common.BytesToHash(rbytes(rnd, 32))
			case "bloom=garbage":
				h.TxBloom = rbytes(rnd, 50)
			case "bloom=long":
				h.TxBloom = rbytes(rnd, 100000)
			case "roots=wrong":
				h.Root = common.BytesToHash(rbytes(rnd, 32))
			case "ipfs=garbage":
				h.IpfsHash = rbytes(rnd, 30)
			case "ipfs=empty":
				h.IpfsHash = nil
			case "receipts=garbage":
				h.TxReceiptsCid = rbytes(rnd, 30)
			default:
				panic("unknown deviation " + d[0] + "=" + d[1])
			}
		} else if h := b.Header.EmptyBlockHeader; h != nil {
			switch d[0] + "=" + d[1] {
			case "flags=offcommit":
				h.Flags |= types.OfflineCommit
			case "flags=offpropose":
				h.Flags |= types.OfflinePropose
			case "flags=idupdate":
				h.Flags |= types.IdentityUpdate
			case "flags=newgenesis":
				h.Flags |= types.NewGenesis
			case "flags=snapshot":
				h.Flags |= types.Snapshot
			case "flags=allbits":
				h.Flags = types.BlockFlag(math.MaxUint32)
			case "flags=offcommit_addr":
				h.Flags |= types.OfflineCommit // an empty header has no room for the address
			case "flags=offpropose_addr":
				h.Flags |= types.OfflinePropose
			case "seed=wrong":
				h.BlockSeed = types.BytesToSeed(rbytes(rnd, 32))
			case "parent=wrong":
				h.ParentHash = common.BytesToHash(rbytes(rnd, 32))
			case "height=plus":
				h.Height++
			case "height=zero":
				h.Height = 0
			case "height=max":
				h.Height = math.MaxUint64
			case "time=past":
				h.Time = r.tpl.head.Time()
			case "time=future":
				h.Time += 1000000
			case "time=min":
				h.Time = math.MinInt64
			case "time=max":
				h.Time = math.MaxInt64
			case "roots=wrong":
				h.Root = common.BytesToHash(rbytes(rnd, 32))
			default:
				panic("unknown deviation for an empty header " + d[0] + "=" + d[1])
			}
		}
	}
}

// certOf builds a certificate of the class for a block.
func (r *rig) certOf(rnd *rand.Rand, class string, b *types.Block) *types.BlockCert {
	switch class {
	case "empty":
		return &types.BlockCert{}
	case "garbage":
		c := &types.BlockCert{Round: rnd.Uint64(), Step: uint8(rnd.Intn(256)), VotedHash: common.BytesToHash(rbytes(rnd, 32))}
		for i := 0; i < 3; i++ {
			c.Signatures = append(c.Signatures, &types.BlockCertSignature{TurnOffline: i == 1, Upgrade: uint32(i), Signature: rbytes(rnd, 65)})
		}
		c.Signatures = append(c.Signatures, &types.BlockCertSignature{})
		return c
	case "valid":
		if b == nil || b.Header == nil || (b.Header.ProposedHeader == nil && b.Header.EmptyBlockHeader == nil) {
			return &types.BlockCert{Signatures: []*types.BlockCertSignature{{Signature: rbytes(rnd, 65)}}}
		}
		return r.w.Cert(b, r.tpl.certVoter)
	}
	return nil
}

// ---------------------------------------------------------------------------------------------
// transactions

func (r *rig) senderKey(role string) int {
	switch role {
	case "god":
		return kGod
	case "verified":
		return kVerified
	case "newbie":
		return kNewbie
	case "candidate":
		return kCandidate
	case "invite":
		return kInvite
	case "funded":
		return kFunded
	case "author":
		return kGod
	}
	return kStranger
}

var longKey *ecies.PrivateKey

func (r *rig) validPayload(rnd *rand.Rand, typ uint16, to *common.Address) []byte {
	switch typ {
	case types.ActivationTx:
		return crypto.FromECDSAPub(&r.key(kStranger2).PublicKey)
	case types.SubmitFlipTx:
		return attachments.CreateFlipSubmitAttachment(flipCidOf(rbytes(rnd, 40)), 1)
	case types.SubmitAnswersHashTx:
		return rbytes(rnd, 32)
	case types.SubmitShortAnswersTx:
		return attachments.CreateShortAnswerAttachment(rbytes(rnd, 4), rnd.Uint64(), 0)
	case types.SubmitLongAnswersTx:
		if longKey == nil {
			longKey = ecies.ImportECDSA(sim.DetKey(seed, 99))
		}
		return attachments.CreateLongAnswerAttachment(rbytes(rnd, 8), rbytes(rnd, 129), rbytes(rnd, 16), longKey)
	case types.EvidenceTx:
		return rbytes(rnd, 8)
	case types.OnlineStatusTx:
		return attachments.CreateOnlineStatusAttachment(rnd.Intn(2) == 0)
	case types.BurnTx:
		return attachments.CreateBurnAttachment("key")
	case types.ChangeProfileTx:
		return attachments.CreateChangeProfileAttachment(flipCidOf(rbytes(rnd, 20)))
	case types.DeleteFlipTx:
		if r.flipCid != nil {
			return attachments.CreateDeleteFlipAttachment(r.flipCid)
		}
		return attachments.CreateDeleteFlipAttachment(flipCidOf(rbytes(rnd, 20)))
	case types.DeployContractTx:
		b, _ := attachments.CreateDeployContractAttachment(embedded.TimeLockContract, nil, nil, common.ToBytes(uint64(4070908800))).ToBytes()
		return b
	case types.CallContractTx:
		b, _ := attachments.CreateCallContractAttachment("transfer", r.addr(kFunded).Bytes(), dna(1).Bytes()).ToBytes()
		return b
	case types.TerminateContractTx:
		b, _ := attachments.CreateTerminateContractAttachment(r.addr(kFunded).Bytes()).ToBytes()
		return b
	case types.StoreToIpfsTx:
		return attachments.CreateStoreToIpfsAttachment(flipCidOf(rbytes(rnd, 20)), 100)
	}
	return nil
}

// buildTx instantiates a transaction shape and returns its wire encoding.
func (r *rig) buildTx(rnd *rand.Rand, c *Case) []byte {
	typ := uint16(c.i("type"))
	if typ == 23 {
		typ = 99
	}
	k := r.senderKey(c.s("sender"))
	var to *common.Address
	switch c.s("to") {
	case "zero":
		to = &common.Address{}
	case "self":
		a := r.addr(k)
		to = &a
	case "known":
		a := r.addr(kPool)
		to = &a
	case "stranger":
		a := r.addr(kStranger2)
		to = &a
	case "contract":
		a := r.contract
		if a == (common.Address{}) {
			a = common.BytesToAddress(rbytes(rnd, 20))
		}
		to = &a
	}
	var payload []byte
	switch c.s("payload") {
	case "garbage":
		payload = rbytes(rnd, 1+rnd.Intn(60))
	case "valid":
		payload = r.validPayload(rnd, typ, to)
	}
	var amount *big.Int
	switch c.s("amount") {
	case "zero":
		amount = big.NewInt(0)
	case "pos":
		amount = dna(1)
		if typ == types.DeployContractTx {
			amount = new(big.Int).Add(new(big.Int).Mul(r.n.App.State.FeePerGas(), big.NewInt(3000000)), dna(1))
		}
	}
	maxFee := dna(100)
	if typ == types.DeployContractTx || typ == types.CallContractTx || typ == types.TerminateContractTx {
		maxFee = dna(2000)
	}
	if c.s("sender") == "unfunded" {
		maxFee = nil // a sender without funds offers no fee (the minimum fee of several types is zero)
	}
	tx := &types.Transaction{AccountNonce: r.nextNonce(k), Epoch: r.n.App.State.Epoch(), Type: typ, To: to, Amount: amount,
		MaxFee: maxFee, Payload: payload}
	switch c.s("sig") {
	case "none":
	case "garbage":
		tx.Signature = rbytes(rnd, 65)
	case "rlp":
		tx.UseRlp = true
		tx.Signature = sign(crypto.SignatureHash(tx), r.key(k))
	default:
		tx.Signature = sign(crypto.SignatureHash(tx), r.key(k))
	}
	b, err := tx.ToBytes()
	if err != nil {
		panic(err)
	}
	return b
}
