package main

// Committee rule of the offline detector (verifyOfflineProposing for heads above height 3634300, the rule in force on the
// main network): a test chain cannot reach that height, so a REAL OfflineDetector over a real node's app state is given its
// head through its own event bus (the same NewBlockEvent subscription Start() installs), the validators of the round's vote
// steps through the real PushValidators, real signed votes through the real ProcessVote, and is asked through the real
// ProposeOffline on a head carrying OfflinePropose.  Cases come from TLC (MC_OfflineThr).

import (
	"encoding/json"

	mapset "github.com/deckarep/golang-set"
	"github.com/idena-network/idena-go/blockchain"
	"github.com/idena-network/idena-go/blockchain/types"
	"github.com/idena-network/idena-go/common"
	"github.com/idena-network/idena-go/common/eventbus"
	"github.com/idena-network/idena-go/core/state"
	"github.com/idena-network/idena-go/core/validators"
	"github.com/idena-network/idena-go/events"
	dbm "github.com/tendermint/tm-db"

	"verifh/internal/sim"
	"verifh/internal/tr"
)

type thrCase struct {
	Cs struct {
		N     int `json:"n"`
		K     int `json:"k"`
		F     int `json:"f"`
		X     int `json:"x"`
		Steps int `json:"steps"`
	} `json:"cs"`
	Expect bool `json:"expect"`
}

func runThr(path string, out *tr.W, seed int64) int {
	sw := sim.NewWorld(seed*31+7, 14)
	sw.Allocs = append(sw.Allocs, sim.Alloc{Key: 0, State: state.Verified, Balance: sim.Dna(1000, 1), Stake: sim.Dna(100, 1)})
	sw.Clock.Advance(1000)
	n := sw.NewNode(0)
	if n.BootErr != nil {
		panic(n.BootErr)
	}
	w := &world{w: sw, sentinel: 13}
	steps := []uint8{types.ReductionOne, types.ReductionTwo, types.Final, 1}
	i := 0
	tr.ReadLines(path, func(raw []byte) {
		var c thrCase
		if err := json.Unmarshal(raw, &c); err != nil {
			panic(err)
		}
		i++
		sw.Clock.Advance(30)
		bus := eventbus.New()
		dt := blockchain.NewOfflineDetector(n.Cfg, dbm.NewMemDB(), n.App, n.Sec, bus)
		dt.Start(n.Chain.Head)
		H := uint64(3634301 + i)
		fake := &types.Block{Header: &types.Header{EmptyBlockHeader: &types.EmptyBlockHeader{Height: H, ParentHash: n.Chain.Head.Hash(), Time: sw.Clock.Ticks()}}, Body: &types.Body{}}
		bus.Publish(&events.NewBlockEvent{Block: fake})
		w.waitFor("the head event", func() bool { return dt.VerifSnapshot().LastPersist == H })
		// validators: keys 1..n, spread over the steps with overlaps (key 1 sits in every step)
		for si := 0; si < c.Cs.Steps; si++ {
			set := mapset.NewSet()
			set.Add(sw.Addrs[1])
			for k := 1; k <= c.Cs.N; k++ {
				if k%4 == si || (k+1)%4 == si {
					set.Add(sw.Addrs[k])
				}
			}
			dt.PushValidators(H, steps[si], &validators.StepValidators{Original: set, Validators: set, ApprovedValidators: set})
		}
		if c.Cs.Steps == 3 {
			// the members of the missing step still belong to the round: n counts the recorded union only when 4 steps exist; with a
			// step missing the rule answers no whatever the votes are
		}
		target := sw.Addrs[12]
		headP := &types.Header{ProposedHeader: &types.ProposedHeader{Height: H, ParentHash: n.Chain.Head.Hash(), Time: sw.Clock.Ticks(),
			Flags: types.OfflinePropose, OfflineAddr: &target}}
		hash := headP.Hash()
		send := func(key int, turnOffline bool, step uint8) {
			sw.Clock.Advance(1)
			dt.ProcessVote(w.mkVote(key, H, step, n.Chain.Head.Hash(), hash, turnOffline))
			dt.ProcessVote(w.mkVote(w.sentinel, H, types.Final, n.Chain.Head.Hash(), common.Hash{}, false))
			now := sw.Clock.Ticks()
			sa := sw.Addrs[w.sentinel]
			w.waitFor("a vote", func() bool {
				t, ok := dt.GetActivityMap()[sa]
				return ok && t.Unix() == now
			})
		}
		// recorded union with 4 steps = keys 1..n (every residue is covered); with 3 steps some keys are in no recorded step
		for k := 1; k <= c.Cs.K; k++ {
			send(k, true, steps[k%3])
		}
		for k := c.Cs.K + 1; k <= c.Cs.K+c.Cs.F; k++ {
			send(k, false, types.Final)
		}
		for x := 0; x < c.Cs.X; x++ {
			send(9+x, true, types.Final) // TurnOffline voters that are no validators of the round
		}
		addr, flag := dt.ProposeOffline(headP)
		res := flag == types.OfflineCommit && addr != nil && *addr == target
		out.Emit(tr.M{"ev": "Thr", "n": c.Cs.N, "k": c.Cs.K, "f": c.Cs.F, "x": c.Cs.X, "steps": c.Cs.Steps, "res": res, "expect": c.Expect, "hh": int(H - 3634300)})
	})
	n.Close()
	return i
}
