// d_offline drives real multi-node idena-go worlds through offline detection, offline penalties and online status
// switching and records one ndjson trace for validation against spec/Trace_Offline.tla (growth module "OD" of C10).
//
// Every validated identity owns a real node (Blockchain + AppState + TxPool + a STARTED OfflineDetector + a real
// pengings.Votes pool feeding the detector); an observer node without identity follows the chain.  A round is:
//
//	transactions (real OnlineStatusTx through the proposer's real mempool)  ->  proposal (real ProposeBlock: the proposer
//	consults its detector; or a block crafted by a malicious proposer with Offline flags / address of its choosing)  ->
//	judgement of the proposal by every awake node on BOTH paths (OfflineDetector.ValidateBlock = what pengings.Proposals
//	runs before a validator votes; Blockchain.ValidateBlock = what block insertion / sync / fork adoption run)  ->
//	votes (TurnOffline decided by each voter's real VoteForOffline, or set by a Byzantine voter), delivered through the
//	real Votes.AddVote -> detector.ProcessVote of every node that is not deaf in this round  ->  real certificate
//	(Compress / encode / decode / ValidateBlockCert)  ->  insertion on every node  ->  observation.
//
// Time is virtual (blockchain.go and offline_detector.go read the harness clock).  It passes in "Wait" steps that stand
// for stretches of uneventful blocks: at their end every awake online identity is heard (a real vote of the current
// round), silent identities are not.  Nothing of the node is re-implemented; the driver decides nothing about the
// property: all clauses are evaluated by TLC on the recorded trace.
package main

import (
	"crypto/sha256"
	"encoding/hex"
	"encoding/json"
	"flag"
	"fmt"
	"math/rand"
	"os"
	"runtime"
	"sort"
	"time"

	"github.com/idena-network/idena-go/blockchain/attachments"
	"github.com/idena-network/idena-go/blockchain/types"
	"github.com/idena-network/idena-go/blockchain/validation"
	"github.com/idena-network/idena-go/common"
	"github.com/idena-network/idena-go/core/ceremony"
	"github.com/idena-network/idena-go/core/state"
	"github.com/idena-network/idena-go/core/validators"
	"github.com/idena-network/idena-go/crypto"
	"github.com/idena-network/idena-go/pengings"
	"github.com/idena-network/idena-go/stats/collector"

	"verifh/internal/sim"
	"verifh/internal/tr"
)

// step is one environment choice of a scenario (exported by TLC from MC_Offline or drawn by the seeded generator).
type step struct {
	K     string   `json:"k"`     // wait | round | val | restart | silent
	D     int      `json:"d"`     // wait: length in units of 900 s (0 = a short wait of ~2 minutes)
	P     int      `json:"p"`     // round: proposer key (-1 = any eligible awake node, -2 = nobody: empty block)
	Txs   [][]int  `json:"txs"`   // round: [from, online(0/1)] submitted to the proposer's mempool
	Craft []int    `json:"craft"` // round: [] = honest proposal; [flags, addr]: flags 0 none / 1 propose / 2 commit / 3 both, addr = key or -1 (nil)
	Force int      `json:"force"` // round: 1 = a Byzantine committee certifies the block although validators refuse it (chain path only)
	Byz   []int    `json:"byz"`   // round: voters that set TurnOffline regardless of their detector
	Deaf  []int    `json:"deaf"`  // round / wait: nodes that do not receive the votes of this step
	S     []int    `json:"s"`     // silent: the identities whose nodes are silent from now on
	Fail  []int    `json:"fail"`  // val: identities that fail the validation
	N     int      `json:"n"`     // restart: node key
	X     []string `json:"x"`     // free-form tags (scenario kind), copied to the trace
}

type scenario struct {
	Kind  string `json:"kind"`
	NVal  int    `json:"nval"`
	Steps []step `json:"steps"`
}

type node struct {
	key   int
	n     *sim.Node
	props *pengings.Proposals
	votes *pengings.Votes
	vc    *ceremony.ValidationCeremony
}

type world struct {
	w        *sim.World
	rnd      *rand.Rand
	out      *tr.W
	hid      string
	nVal     int
	cand     int
	stranger int
	obs      int
	sentinel int
	nodes    []*node
	byKey    map[int]*node
	silent   map[int]bool
	ref      *node
	R        uint64
	PD       int64
	pending  func(nd *node)
	stats    *runStats
	unit     int64
	dead     bool // a replica diverged: nothing more is driven in this world
}

type runStats struct {
	worlds, blocks, proposes, commits, penalties, switches, refusedOffers, forced, crafted, epochs, restarts, txs int
	gap, full                                                                                                     int
}

func (w *world) now() int64 { return w.w.Clock.Ticks() }

func (w *world) advance(d int64) { w.w.Clock.Advance(d) }

func (w *world) idx(a *common.Address) int {
	if a == nil {
		return -1
	}
	if i := w.w.Index(*a); i >= 0 {
		return i
	}
	return 99
}

func newWorld(seed int64, hid string, nVal int, R uint64, pd time.Duration, snapRange uint64, out *tr.W, rnd *rand.Rand, st *runStats) *world {
	sw := sim.NewWorld(seed, nVal+4)
	sw.Cons.StatusSwitchRange = R
	sw.Cons.DelegationSwitchRange = 50
	sw.Cons.DiscriminationSwitchRange = 50
	sw.Cons.SnapshotRange = snapRange
	sw.Cons.OfflinePenaltyDuration = pd
	sw.ValCfg.FlipLotteryDuration = 5 * time.Minute
	sw.ValCfg.ShortSessionDuration = 2 * time.Minute
	sw.ValCfg.LongSessionDuration = 10 * time.Minute
	sw.FirstCeremony = 20000000
	sts := []state.IdentityState{state.Verified, state.Human, state.Newbie, state.Verified, state.Human, state.Verified, state.Newbie}
	for i := 0; i < nVal; i++ {
		sw.Allocs = append(sw.Allocs, sim.Alloc{Key: i, State: sts[i%len(sts)], Balance: sim.Dna(int64(3000+rnd.Intn(2000)), 1), Stake: sim.Dna(int64(100+rnd.Intn(400)), 1)})
	}
	w := &world{w: sw, rnd: rnd, out: out, hid: hid, nVal: nVal, cand: nVal, stranger: nVal + 1, obs: nVal + 2, sentinel: nVal + 3, byKey: map[int]*node{},
		silent: map[int]bool{}, R: R, PD: int64(pd / time.Second), stats: st, unit: 900}
	sw.Allocs = append(sw.Allocs, sim.Alloc{Key: w.cand, State: state.Candidate, Balance: sim.Dna(2000, 1), Stake: sim.Dna(10, 1)})
	sw.Allocs = append(sw.Allocs, sim.Alloc{Key: w.stranger, State: state.Undefined, Balance: sim.Dna(2000, 1)})
	sw.Clock.Advance(1000) // the wall clock starts above 0: penalty timestamps are "unset" at 0
	keys := []int{}
	for i := 0; i < nVal; i++ {
		keys = append(keys, i)
	}
	keys = append(keys, w.obs)
	for _, k := range keys {
		nd := w.boot(k, nil)
		w.nodes = append(w.nodes, nd)
		w.byKey[k] = nd
	}
	w.ref = w.byKey[w.obs]
	st.worlds++
	return w
}

// boot starts a node (or restarts it over its database) the way node.go does for the parts this check needs: chain, detector
// (Start: restore + subscription + vote listener), vote pool, ceremony.
func (w *world) boot(key int, old *node) *node {
	var n *sim.Node
	if old == nil {
		n = w.w.NewNode(key)
	} else {
		n = old.n.Restart()
	}
	if n.BootErr != nil {
		panic(n.BootErr)
	}
	nd := &node{key: key, n: n}
	n.Offline.Start(n.Chain.Head)
	nd.props, _ = pengings.NewProposals(n.Chain, n.App, n.Offline, n.Upgrader, collector.NewStatsCollector())
	nd.votes = pengings.NewVotes(n.App, n.Bus, n.Offline, n.Upgrader)
	nd.votes.Initialize(n.Chain.Head)
	nd.vc = ceremony.VerifNewCeremony(n.App, n.Bus, n.Sec, n.DB, n.Pool, n.Chain, n.Cfg)
	n.Chain.ProvideApplyNewEpochFunc(nd.vc.ApplyNewEpoch)
	if w.pending != nil {
		w.pending(nd)
	}
	return nd
}

// ---------------------------------------------------------------------------------------------
// observation

type pair [2]int64

func (w *world) keysOfInterest() []int {
	res := []int{}
	for i := 0; i <= w.stranger; i++ {
		res = append(res, i)
	}
	return res
}

func countAddr(l []common.Address, a common.Address) int {
	n := 0
	for _, x := range l {
		if x == a {
			n++
		}
	}
	return n
}

func (w *world) projState(nd *node) tr.M {
	n := nd.n
	ro, err := n.App.Readonly(n.Chain.Head.Height())
	if err != nil {
		panic(err)
	}
	online, valid, pend := []int{}, []int{}, []int{}
	delayed := [][]int{}
	dl := ro.State.DelayedOfflinePenalties()
	ps, pts := [][]int64{}, [][]int64{}
	bal, stake := []interface{}{}, []interface{}{}
	for _, k := range w.keysOfInterest() {
		a := w.w.Addrs[k]
		if ro.IdentityState.IsOnline(a) {
			online = append(online, k)
		}
		if ro.IdentityState.IsValidated(a) {
			valid = append(valid, k)
		}
		if ro.State.HasStatusSwitchAddresses(a) {
			pend = append(pend, k)
		}
		if cnt := countAddr(dl, a); cnt > 0 {
			delayed = append(delayed, []int{k, cnt})
		}
		ps = append(ps, []int64{int64(k), int64(ro.State.GetPenaltySeconds(a))})
		pts = append(pts, []int64{int64(k), ro.State.GetPenaltyTimestamp(a)})
		bal = append(bal, []interface{}{k, sim.Limbs(ro.State.GetBalance(a))})
		stake = append(stake, []interface{}{k, sim.Limbs(ro.State.GetStakeBalance(a))})
	}
	// addresses outside the scenario's keys in the two global lists (a crafted block may name any address)
	npend, ndel := len(ro.State.StatusSwitchAddresses()), len(ro.State.DelayedOfflinePenalties())
	return tr.M{"online": online, "valid": valid, "pend": pend, "delayed": delayed, "npend": npend, "ndelayed": ndel, "ps": ps, "pts": pts,
		"bal": bal, "stake": stake, "period": int(ro.State.ValidationPeriod()), "net": ro.ValidatorsCache.NetworkSize(), "epoch": int(ro.State.Epoch())}
}

// view reads a validators cache through its public getters: online set, sizes, committee of the next round.
func (w *world) view(nd *node, vc *validators.ValidatorsCache) (string, []int) {
	head := nd.n.Chain.Head
	on := []int{}
	for _, k := range w.keysOfInterest() {
		if vc.IsOnlineIdentity(w.w.Addrs[k]) {
			on = append(on, k)
		}
	}
	all := []string{}
	for _, x := range vc.GetAllOnlineValidators().ToSlice() {
		a := x.(common.Address)
		all = append(all, fmt.Sprint(w.idx(&a)))
	}
	sort.Strings(all)
	com := []string{}
	if sv := vc.GetOnlineValidators(head.Seed(), head.Height()+1, types.Final, nd.n.Chain.GetCommitteeSize(vc, true)); sv != nil {
		for _, x := range sv.Original.ToSlice() {
			a := x.(common.Address)
			com = append(com, fmt.Sprint(w.idx(&a)))
		}
		sort.Strings(com)
	} else {
		com = append(com, "nil")
	}
	return fmt.Sprintf("on=%d/%v vs=%d net=%d com=%v thr=%d", vc.OnlineSize(), all, vc.ValidatorsSize(), vc.NetworkSize(), com,
		nd.n.Chain.GetCommitteeVotesThreshold(vc, true)), on
}

// views: for every node the LIVE cache (what consensus, the detector and validation use) and a cache freshly loaded from the
// committed identity state of that node (what a restarted or fast-synced node has).
func short(x string) string {
	h := sha256.Sum256([]byte(x))
	return hex.EncodeToString(h[:6])
}

// viewDiff lists, readable, the nodes whose live and freshly loaded views differ (empty on a healthy node).
func (w *world) views() ([]interface{}, []interface{}) {
	res := []interface{}{}
	diff := []interface{}{}
	for _, nd := range w.nodes {
		live, liveOn := w.view(nd, nd.n.App.ValidatorsCache)
		ro, err := nd.n.App.Readonly(nd.n.Chain.Head.Height())
		if err != nil {
			panic(err)
		}
		fresh := validators.NewValidatorsCache(ro.IdentityState, ro.State.GodAddress())
		fresh.Load()
		load, loadOn := w.view(nd, fresh)
		res = append(res, []interface{}{nd.key, short(live), short(load), liveOn, loadOn})
		if live != load {
			diff = append(diff, []interface{}{nd.key, live, load})
		}
	}
	return res, diff
}

func (w *world) detSnap(nd *node, headHash common.Hash) tr.M {
	s := nd.n.Offline.VerifSnapshot()
	act, props := [][]int64{}, [][]int64{}
	for _, k := range w.keysOfInterest() {
		if t, ok := s.Activity[w.w.Addrs[k]]; ok {
			act = append(act, []int64{int64(k), t.Unix()})
		}
		if t, ok := s.Proposals[w.w.Addrs[k]]; ok {
			props = append(props, []int64{int64(k), t.Unix()})
		}
	}
	tov := []int{}
	if v, ok := s.Voting[headHash]; ok {
		for _, a := range v.Voters {
			a := a
			tov = append(tov, w.idx(&a))
		}
		sort.Ints(tov)
	}
	return tr.M{"up": s.Start.Unix(), "act": act, "props": props, "tov": tov, "osize": nd.n.App.ValidatorsCache.OnlineSize()}
}

func (w *world) waitFor(what string, cond func() bool) {
	for i := 0; i < 200000; i++ {
		if cond() {
			return
		}
		if i < 1000 {
			runtime.Gosched()
		} else {
			time.Sleep(20 * time.Microsecond)
		}
	}
	panic("detector did not process " + what)
}

func sortedKeys(m map[int]bool) []int {
	res := []int{}
	for k, v := range m {
		if v {
			res = append(res, k)
		}
	}
	sort.Ints(res)
	return res
}

func hasStr(xs []string, x string) bool {
	for _, y := range xs {
		if x == y {
			return true
		}
	}
	return false
}

func has(xs []int, x int) bool {
	for _, y := range xs {
		if x == y {
			return true
		}
	}
	return false
}

// ---------------------------------------------------------------------------------------------
// votes

func (w *world) mkVote(k int, round uint64, step uint8, parent, voted common.Hash, turnOffline bool) *types.Vote {
	vote := &types.Vote{Header: &types.VoteHeader{Round: round, Step: step, ParentHash: parent, VotedHash: voted, TurnOffline: turnOffline}}
	h := crypto.SignatureHash(vote)
	sig, err := crypto.Sign(h[:], w.w.Keys[k])
	if err != nil {
		panic(err)
	}
	vote.Signature = sig
	return vote
}

// deliver hands a vote (as bytes) to the real vote pool of every node that hears it and waits until the node's detector
// has processed it: the detector consumes its vote channel in order, so a following sentinel vote (from a key that is nobody's
// identity, given to the detector directly) marks the point.  Every delivery has its own second.  Returns the nodes whose pool
// admitted the vote and the time of the delivery.
func (w *world) deliver(v *types.Vote, voter int, deaf []int) ([]int, int64) {
	data, err := v.ToBytes()
	if err != nil {
		panic(err)
	}
	w.advance(1)
	now := w.now()
	admitted := []int{}
	sa := w.w.Addrs[w.sentinel]
	for _, nd := range w.nodes {
		if has(deaf, nd.key) {
			continue
		}
		cp := new(types.Vote)
		if err := cp.FromBytes(data); err != nil {
			panic(err)
		}
		if nd.votes.AddVote(cp) {
			admitted = append(admitted, nd.key)
			nd.n.Offline.ProcessVote(w.mkVote(w.sentinel, v.Header.Round, types.Final, v.Header.ParentHash, common.Hash{}, false))
			nd := nd
			w.waitFor("a vote", func() bool {
				t, ok := nd.n.Offline.GetActivityMap()[sa]
				return ok && t.Unix() == now
			})
		}
	}
	return admitted, now
}

// awakeOnline: identities that are online (by the reference's live cache), own a node and are not silent.
func (w *world) awakeOnline() []int {
	res := []int{}
	vc := w.ref.n.App.ValidatorsCache
	for k := 0; k < w.nVal; k++ {
		if vc.IsOnlineIdentity(w.w.Addrs[k]) && !w.silent[k] {
			res = append(res, k)
		}
	}
	return res
}

// ---------------------------------------------------------------------------------------------
// steps

// wait: virtual time passes; at the end every awake online identity is heard through a real vote of the current round
// (a reduction-step vote for the empty block, as in a round whose proposal did not arrive).
func (w *world) wait(st step) {
	if w.dead {
		return
	}
	dt := int64(st.D) * w.unit
	if st.D == 0 {
		dt = 110
	}
	dt += int64(1 + w.rnd.Intn(20))
	w.advance(dt)
	head := w.ref.n.Chain.Head
	empty := w.ref.n.Chain.GenerateEmptyBlock()
	beats := []interface{}{}
	for _, k := range w.awakeOnline() {
		v := w.mkVote(k, head.Height()+1, types.ReductionOne, head.Hash(), empty.Hash(), false)
		adm, t := w.deliver(v, k, st.Deaf)
		beats = append(beats, []interface{}{k, adm, t})
	}
	w.out.Emit(tr.M{"ev": "Wait", "hid": w.hid, "dt": dt, "t": w.now(), "beats": beats, "deaf": nz(st.Deaf), "silent": sortedKeys(w.silent)})
}

func nz(x []int) []int {
	if x == nil {
		return []int{}
	}
	return x
}

func (w *world) restart(st step) {
	old := w.byKey[st.N]
	if old == nil || w.dead {
		return
	}
	nd := w.boot(st.N, old)
	for i := range w.nodes {
		if w.nodes[i] == old {
			w.nodes[i] = nd
		}
	}
	w.byKey[st.N] = nd
	if w.ref == old {
		w.ref = nd
	}
	w.stats.restarts++
	s := nd.n.Offline.VerifSnapshot()
	w.out.Emit(tr.M{"ev": "Restart", "hid": w.hid, "n": st.N, "t": w.now(), "up": s.Start.Unix()})
}

func (w *world) nonce(k int, pendingBySender map[int]uint32) (uint32, uint16) {
	s := w.ref.n.App.State
	a := w.w.Addrs[k]
	ep := s.Epoch()
	n := s.GetNonce(a)
	if s.GetEpoch(a) < ep {
		n = 0
	}
	pendingBySender[k]++
	return n + pendingBySender[k], ep
}

// judge runs a validation entry point: 1 = accepted, 0 = refused, 2 = it panicked.
func judge(f func() error) (res int, msg string) {
	defer func() {
		if r := recover(); r != nil {
			res, msg = 2, fmt.Sprint("panic: ", r)
		}
	}()
	if err := f(); err != nil {
		return 0, err.Error()
	}
	return 1, ""
}

func poolClass(err error) string {
	switch err {
	case nil:
		return "ok"
	case validation.LateTx:
		return "late"
	case validation.InvalidSender:
		return "sender"
	case validation.IsAlreadyOnline:
		return "on"
	case validation.IsAlreadyOffline:
		return "off"
	}
	return "other:" + err.Error()
}

func offCode(f types.BlockFlag) int {
	c := 0
	if f.HasFlag(types.OfflinePropose) {
		c |= 1
	}
	if f.HasFlag(types.OfflineCommit) {
		c |= 2
	}
	return c
}

func (w *world) blockTxs(b *types.Block) [][]int {
	res := [][]int{}
	if b.Body == nil {
		return res
	}
	for _, tx := range b.Body.Transactions {
		if tx.Type != types.OnlineStatusTx {
			continue
		}
		sender, _ := types.Sender(tx)
		on := 0
		if a := attachments.ParseOnlineStatusAttachment(tx); a != nil && a.Online {
			on = 1
		}
		res = append(res, []int{w.idx(&sender), on})
	}
	return res
}

// eligible proposers: awake nodes whose identity may propose on the current head.
func (w *world) eligible() []int {
	res := []int{}
	vc := w.ref.n.App.ValidatorsCache
	for k := 0; k < w.nVal; k++ {
		if w.silent[k] {
			continue
		}
		if vc.IsOnlineIdentity(w.w.Addrs[k]) || (k == w.w.God && vc.OnlineSize() == 0) {
			res = append(res, k)
		}
	}
	return res
}

// round runs one consensus round as described at the top of the file.
func (w *world) round(st step) {
	if w.dead {
		return
	}
	w.advance(int64(20 + w.rnd.Intn(30)))
	refHead := w.ref.n.Chain.Head
	height := refHead.Height() + 1

	// proposer
	p := st.P
	el := w.eligible()
	if p == -1 && len(el) > 0 {
		// prefer a proposer whose sortition is valid: its proposal can then go through the validators' whole proposal path
		var lucky []int
		for _, k := range el {
			if ok, _ := w.byKey[k].n.Chain.GetProposerSortition(); ok {
				lucky = append(lucky, k)
			}
		}
		if len(lucky) > 0 && w.rnd.Intn(5) != 0 {
			p = lucky[w.rnd.Intn(len(lucky))]
		} else {
			p = el[w.rnd.Intn(len(el))]
		}
	}
	if p >= 0 && !has(el, p) {
		p = -2
		if len(el) > 0 {
			p = el[w.rnd.Intn(len(el))]
		}
	}
	if p == -1 {
		p = -2
	}

	// transactions through the proposer's real mempool (the reference node's pool when the round has no proposer)
	pendingBySender := map[int]uint32{}
	poolNode := w.ref
	if p >= 0 {
		poolNode = w.byKey[p]
	}
	pre := w.projState(w.ref)
	for _, t := range st.Txs {
		from, on := t[0], t[1] == 1
		n, ep := w.nonce(from, pendingBySender)
		tx := w.w.Tx(sim.TxSpec{From: from, Type: types.OnlineStatusTx, MaxFee: sim.Dna(50, 1), Nonce: n, Epoch: ep,
			Payload: attachments.CreateOnlineStatusAttachment(on)})
		err := poolNode.n.Pool.AddExternalTxs(validation.InboundTx, tx)
		if err != nil {
			pendingBySender[from]--
		}
		w.stats.txs++
		w.out.Emit(tr.M{"ev": "Tx", "hid": w.hid, "from": from, "on": t[1], "pool": poolClass(err), "t": w.now()})
	}

	var blk *types.Block
	honest := true
	var det tr.M
	adopted := false
	forcedBlk := false
	if p >= 0 {
		pn := w.byKey[p]
		det = w.detSnap(pn, refHead.Hash())
		sortOk, proof := pn.n.Chain.GetProposerSortition()
		if !sortOk {
			proof = []byte{}
		}
		if len(st.Craft) == 2 {
			honest = false
			w.stats.crafted++
			var flags types.BlockFlag
			if st.Craft[0]&1 != 0 {
				flags |= types.OfflinePropose
			}
			if st.Craft[0]&2 != 0 {
				flags |= types.OfflineCommit
			}
			var addr *common.Address
			if st.Craft[1] >= 0 {
				a := w.w.Addrs[st.Craft[1]]
				addr = &a
			}
			txs := pn.n.Pool.BuildBlockTransactions()
			b, err := pn.n.Chain.VerifCraftOfflineBlock(txs, w.now(), flags, addr)
			if err != nil {
				b, err = pn.n.Chain.VerifCraftOfflineBlock(nil, w.now(), flags, addr)
			}
			if err != nil {
				panic("craft: " + err.Error())
			}
			blk = b
		} else {
			blk = pn.n.Chain.ProposeBlock(proof).Block
		}
		data := sim.Encode(blk)
		// judgement by every awake node, on both paths
		verd := []interface{}{}
		msgs := []string{}
		allDet, allChain := true, true
		for _, nd := range w.nodes {
			if w.silent[nd.key] {
				continue
			}
			b := sim.Decode(data)
			d, detMsg := judge(func() error { return nd.n.Offline.ValidateBlock(nd.n.Chain.Head, b) })
			c, chainMsg := judge(func() error { return nd.n.Validate(data) })
			if d != 1 {
				allDet = false
			}
			if c != 1 {
				allChain = false
			}
			var detErr, chainErr error
			if d != 1 {
				detErr = fmt.Errorf("%s", detMsg)
			}
			if c != 1 {
				chainErr = fmt.Errorf("%s", chainMsg)
			}
			tov := w.detSnap(nd, refHead.Hash())["tov"]
			// the validators' whole proposal path (pengings.Proposals.AddProposedBlock: proof, header, detector, upgrader), when the
			// proposer's sortition is valid: -1 = not applicable
			full, fullMsg := -1, ""
			if sortOk {
				full, fullMsg = judge(func() error {
					added, pending := nd.props.AddProposedBlock(&types.BlockProposal{Block: sim.Decode(data), Proof: proof}, "", w.w.Clock.Now())
					if !added {
						return fmt.Errorf("not added (pending %v)", pending)
					}
					return nil
				})
				w.stats.full++
			}
			verd = append(verd, []interface{}{nd.key, d, c, tov, nd.n.App.ValidatorsCache.OnlineSize(), full})
			if full == 2 && !hasStr(msgs, "proposals: "+fullMsg) {
				msgs = append(msgs, "proposals: "+fullMsg)
			}
			if detMsg != "" && !hasStr(msgs, "det: "+detMsg) {
				msgs = append(msgs, "det: "+detMsg)
			}
			if chainMsg != "" && !hasStr(msgs, "chain: "+chainMsg) {
				msgs = append(msgs, "chain: "+chainMsg)
			}
			if detErr != nil && chainErr == nil {
				w.stats.gap++
			}
		}
		adopted = allDet && allChain
		forced := false
		if !adopted && st.Force == 1 && allChain {
			adopted, forced = true, true
			w.stats.forced++
		}
		if !adopted {
			w.stats.refusedOffers++
		}
		oa := blk.Header.OfflineAddr()
		forcedBlk = forced
		w.out.Emit(tr.M{"ev": "Offer", "hid": w.hid, "h": height, "t": blk.Header.Time(), "now": w.now(), "prop": p, "honest": honest,
			"off": []int{offCode(blk.Header.Flags()), w.idx(oa)}, "prevoff": []int{offCode(refHead.Flags()), w.idx(refHead.OfflineAddr())},
			"txs": w.blockTxs(blk), "verd": verd, "det": det, "adopt": adopted, "forced": forced, "msgs": msgs, "x": st.X})
		if !adopted {
			blk = nil
		}
	}
	prop := p
	if blk == nil {
		blk = w.ref.n.Chain.GenerateEmptyBlock()
		prop = -1
	}
	data := sim.Encode(blk)

	// the final committee this block rewards (read from the pre-state cache the reward context uses); the proposer is paid after it
	rew := []int{}
	if !blk.IsEmpty() {
		vc := w.ref.n.App.ValidatorsCache
		if sv := vc.GetOnlineValidators(refHead.Seed(), height, types.Final, w.ref.n.Chain.GetCommitteeSize(vc, true)); sv != nil {
			for _, x := range sv.Original.ToSlice() {
				a := x.(common.Address)
				rew = append(rew, w.idx(&a))
			}
		}
		sort.Ints(rew)
	}

	// votes of the final step
	tv := w.now()
	votes := []interface{}{}
	var cast []*types.Vote
	nOff := 0
	for _, k := range w.awakeOnline() {
		nd := w.byKey[k]
		obsAct, obsUp := int64(-1), int64(0)
		{
			snap := nd.n.Offline.VerifSnapshot()
			obsUp = snap.Start.Unix()
			if oa := blk.Header.OfflineAddr(); oa != nil {
				if t, ok := snap.Activity[*oa]; ok {
					obsAct = t.Unix()
				}
			}
		}
		td := w.now()
		flag := nd.n.Offline.VoteForOffline(sim.Decode(data))
		byz := 0
		if has(st.Byz, k) {
			flag, byz = true, 1
		}
		v := w.mkVote(k, height, types.Final, refHead.Hash(), blk.Hash(), flag)
		adm, t := w.deliver(v, k, st.Deaf)
		cast = append(cast, v)
		f := 0
		if flag {
			f = 1
			nOff++
		}
		votes = append(votes, []interface{}{k, f, byz, adm, obsAct, obsUp, td, t})
	}
	// real certificate: compress, encode, decode, validate on the head the block extends
	certOff, certOk, certErr := 0, false, ""
	need := w.ref.n.Chain.GetCommitteeVotesThreshold(w.ref.n.App.ValidatorsCache, true)
	if len(cast) > 0 {
		full := types.FullBlockCert{Votes: cast}
		cb, err := full.Compress().ToBytes()
		if err != nil {
			panic(err)
		}
		cert := new(types.BlockCert)
		if err := cert.FromBytes(cb); err != nil {
			panic(err)
		}
		for _, s := range cert.Signatures {
			if s.TurnOffline {
				certOff++
			}
		}
		if err := w.ref.n.Chain.ValidateBlockCertOnHead(sim.Decode(data).Header, cert); err == nil {
			certOk = true
		} else {
			certErr = err.Error()
		}
	}

	// insertion on every node
	w.advance(1)
	ta := w.now()
	for _, nd := range w.nodes {
		if err := nd.n.Add(data); err != nil {
			// a node cannot follow a block that every awake node had validated: the replicas have diverged; the world ends here
			w.out.Emit(tr.M{"ev": "Diverged", "hid": w.hid, "h": height, "n": nd.key, "err": err.Error(), "prop": prop, "honest": honest,
				"off": []int{offCode(blk.Header.Flags()), w.idx(blk.Header.OfflineAddr())}, "silent": sortedKeys(w.silent)})
			w.dead = true
			return
		}
		if !blk.IsEmpty() {
			cb := blk.Header.Coinbase()
			nd := nd
			w.waitFor("a block", func() bool {
				t, ok := nd.n.Offline.GetActivityMap()[cb]
				return ok && t.Unix() >= ta
			})
		}
	}
	flags := blk.Header.Flags()
	w.stats.blocks++
	switch offCode(flags) {
	case 1:
		w.stats.proposes++
	case 2:
		w.stats.commits++
	}
	post := w.projState(w.ref)
	if flags.HasFlag(types.IdentityUpdate) {
		w.stats.switches++
		if len(pre["delayed"].([][]int)) > 0 {
			w.stats.penalties++
		}
	}
	if flags.HasFlag(types.ValidationFinished) {
		w.stats.epochs++
	}
	vws, vdiff := w.views()
	w.out.Emit(tr.M{"ev": "Block", "hid": w.hid, "h": height, "t": blk.Header.Time(), "empty": blk.IsEmpty(), "prop": prop, "honest": honest,
		"off": []int{offCode(flags), w.idx(blk.Header.OfflineAddr())}, "flags": int(flags), "idupd": flags.HasFlag(types.IdentityUpdate),
		"valfin": flags.HasFlag(types.ValidationFinished), "snap": flags.HasFlag(types.Snapshot), "txs": w.blockTxs(blk), "rew": rew,
		"votes": votes, "tv": tv, "ta": ta, "deaf": nz(st.Deaf), "silent": sortedKeys(w.silent), "certoff": certOff, "nturnoff": nOff, "certok": certOk,
		"certerr": certErr, "ncast": len(cast), "certneed": need, "forced": forcedBlk, "st": post, "views": vws, "viewdiff": vdiff})
}

// val drives the chain through a whole validation ceremony (all periods) with scenario-chosen outcomes; inside the
// ceremony a malicious proposer offers Offline flags once and identities try to switch their status.
func (w *world) val(st step) {
	s := w.ref.n.App.State
	nv := s.NextValidationTime().Unix()
	head := w.ref.n.Chain.Head.Time()
	if gap := nv - 4*60 - head - 100; gap > 0 {
		// an uneventful stretch up to the flip lottery
		w.advance(gap - 60)
		w.wait(step{K: "wait", D: 0})
	}
	tried := false
	for guard := 0; guard < 200; guard++ {
		if w.dead {
			return
		}
		s = w.ref.n.App.State
		period := s.ValidationPeriod()
		head = w.ref.n.Chain.Head.Time()
		nv = s.NextValidationTime().Unix()
		var target int64
		switch period {
		case state.NonePeriod:
			target = nv - 4*60
		case state.FlipLotteryPeriod:
			target = nv + 1
		case state.ShortSessionPeriod:
			target = nv + 2*60 + 2
		case state.LongSessionPeriod:
			target = nv + 12*60 + 2
		}
		if d := target - w.now() - 25; d > 0 {
			w.advance(d)
		}
		if period == state.AfterLongSessionPeriod && s.CanCompleteEpoch() {
			w.injectEpoch(w.ref.n.Chain.Head.Height()+1, st.Fail)
		}
		if len(w.eligible()) == 0 {
			w.silent = map[int]bool{} // somebody has to mine through the ceremony
		}
		if len(w.eligible()) == 0 {
			// the only online identities have no node (a freshly validated candidate): the chain idles on empty blocks
			for i := 0; i < 3; i++ {
				w.round(step{K: "round", P: -2, X: []string{"stalled"}})
			}
			return
		}
		r := step{K: "round", P: -1, X: []string{"ceremony"}}
		if period == state.LongSessionPeriod && !tried {
			// inside the ceremony: a status switch attempt and a crafted Offline flag
			tried = true
			on := w.awakeOnline()
			if len(on) > 1 {
				r.Txs = [][]int{{on[0], 0}}
				r.Craft = []int{1, on[1]}
				r.P = on[0]
			}
		}
		w.round(r)
		if w.ref.n.Chain.Head.Flags().HasFlag(types.ValidationFinished) {
			return
		}
	}
	panic(fmt.Sprintf("validation ceremony did not finish: period %d eligible %v silent %v online %d", w.ref.n.App.State.ValidationPeriod(), w.eligible(), sortedKeys(w.silent), w.ref.n.App.ValidatorsCache.OnlineSize()))
}

func (w *world) injectEpoch(height uint64, fail []int) {
	s := w.ref.n.App.State
	var outs []ceremony.VerifOutcome
	s.IterateOverIdentities(func(addr common.Address, id state.Identity) {
		if id.State == state.Undefined || id.State == state.Killed {
			return
		}
		o := ceremony.VerifOutcome{Addr: addr, PrevState: uint8(id.State), Birthday: id.Birthday, Delegatee: id.Delegatee()}
		ns := id.State
		k := w.w.Index(addr)
		switch {
		case k >= 0 && has(fail, k) && id.State.NewbieOrBetter():
			ns = state.Suspended
			if id.State == state.Newbie {
				ns = state.Killed
			}
		case id.State == state.Candidate:
			ns = state.Newbie
			o.Birthday = s.Epoch() + 1
		case id.State == state.Suspended || id.State == state.Zombie:
			ns = state.Verified
		case id.State == state.Newbie:
			ns = state.Verified
		}
		o.State = uint8(ns)
		o.Missed = !ns.NewbieOrBetter()
		o.Participated = !o.Missed
		o.ShortFlipPoint = 5
		o.ShortQualifiedFlipsCount = 6
		outs = append(outs, o)
	})
	epoch, shards := s.Epoch(), int(s.ShardsNum())
	w.pending = func(nd *node) {
		cp := make([]ceremony.VerifOutcome, len(outs))
		copy(cp, outs)
		nd.vc.VerifSetEpochResult(height, epoch, shards, cp, nil, false)
	}
	for _, nd := range w.nodes {
		w.pending(nd)
	}
}

func (w *world) genesis() {
	nodes := []int{}
	for _, nd := range w.nodes {
		nodes = append(nodes, nd.key)
	}
	ids := []int{}
	for i := 0; i < w.nVal; i++ {
		ids = append(ids, i)
	}
	od := w.ref.n.Cfg.OfflineDetection
	vws, _ := w.views()
	ups := [][]int64{}
	for _, nd := range w.nodes {
		ups = append(ups, []int64{int64(nd.key), nd.n.Offline.VerifSnapshot().Start.Unix()})
	}
	w.out.Emit(tr.M{"ev": "Genesis", "hid": w.hid, "ids": ids, "cand": w.cand, "stranger": w.stranger, "obs": w.obs, "nodes": nodes, "god": w.w.God,
		"R": int(w.R), "PD": w.PD, "PI": int64(od.OfflineProposeInterval / time.Second), "VI": int64(od.OfflineVoteInterval / time.Second),
		"RI": int64(od.IntervalBetweenOfflineRetry / time.Second), "maxc3": w.ref.n.Cfg.Consensus.MaxCommitteeSize * 3, "t": w.now(), "ups": ups,
		"st": w.projState(w.ref), "views": vws})
}

// allOnline is the common prefix of the model scenarios (MC_Offline starts with every identity but the god online): the
// identities ask for it, the switch block applies it, plain rounds pad up to a height = 1 mod StatusSwitchRange (the model's
// initial height).
func (w *world) allOnline() {
	var txs [][]int
	for k := 1; k < w.nVal; k++ {
		txs = append(txs, []int{k, 1})
	}
	w.round(step{K: "round", P: -1, Txs: txs, X: []string{"prefix"}})
	for i := 0; i < 3*int(w.R); i++ {
		if w.dead || (w.ref.n.App.ValidatorsCache.OnlineSize() == w.nVal-1 && w.ref.n.Chain.Head.Height()%w.R == 1) {
			return
		}
		w.round(step{K: "round", P: -1, X: []string{"prefix"}})
	}
	panic("prefix: identities did not get online")
}

func (w *world) run(steps []step) {
	w.genesis()
	w.exec(steps)
	for _, nd := range w.nodes {
		nd.n.Close()
	}
}

func (w *world) exec(steps []step) {
	for _, st := range steps {
		switch st.K {
		case "wait":
			w.wait(st)
		case "round":
			w.round(st)
		case "val":
			w.val(st)
		case "restart":
			w.restart(st)
		case "silent":
			w.silent = map[int]bool{}
			for _, k := range st.S {
				w.silent[k] = true
			}
		default:
			panic("unknown step " + st.K)
		}
	}
}

// ---------------------------------------------------------------------------------------------
// seeded generator of larger histories

// randomRun drives a seeded history of n steps; the choices depend on the state reached (who is online, silent, penalised).
func (w *world) randomRun(n int) {
	rnd := w.rnd
	w.genesis()
	var txs [][]int
	for k := 0; k < w.nVal; k++ {
		if rnd.Intn(8) != 0 {
			txs = append(txs, []int{k, 1})
		}
	}
	w.round(step{K: "round", P: -1, Txs: txs})
	vals := 0
	pick := func(xs []int) int { return xs[rnd.Intn(len(xs))] }
	subset := func(xs []int, max int) []int {
		res := []int{}
		for _, x := range xs {
			if len(res) < max && rnd.Intn(3) == 0 {
				res = append(res, x)
			}
		}
		return res
	}
	nodeKeys := func() []int {
		res := []int{}
		for _, nd := range w.nodes {
			res = append(res, nd.key)
		}
		return res
	}
	for i := 0; i < n; i++ {
		vc := w.ref.n.App.ValidatorsCache
		online, offline := []int{}, []int{}
		for k := 0; k <= w.stranger; k++ {
			if vc.IsOnlineIdentity(w.w.Addrs[k]) {
				online = append(online, k)
			} else {
				offline = append(offline, k)
			}
		}
		anySilent := false
		for _, k := range online {
			if w.silent[k] {
				anySilent = true
			}
		}
		r := rnd.Intn(100)
		switch {
		case r < 7:
			sil := []int{}
			if len(online) > 1 && rnd.Intn(4) != 0 {
				sil = subset(online, 2)
				if len(sil) == 0 {
					sil = []int{pick(online)}
				}
			}
			w.exec([]step{{K: "silent", S: sil}})
		case r < 24:
			d := []int{0, 0, 1, 2, 3}[rnd.Intn(5)]
			if anySilent {
				d = []int{2, 4, 6, 7, 7}[rnd.Intn(5)]
			}
			st := step{K: "wait", D: d}
			if rnd.Intn(6) == 0 {
				st.Deaf = subset(nodeKeys(), 2)
			}
			w.wait(st)
		case r < 27:
			w.restart(step{K: "restart", N: pick(nodeKeys())})
		case r < 29 && vals < 2 && i > n/4:
			vals++
			fail := []int{}
			if rnd.Intn(2) == 0 && w.nVal > 3 {
				fail = []int{1 + rnd.Intn(w.nVal-1)}
			}
			w.val(step{K: "val", Fail: fail})
		case r < 42 && len(online) > 0:
			// a malicious proposer
			var addr int
			switch rnd.Intn(7) {
			case 0:
				addr = -1
			case 1:
				addr = w.cand
			case 2:
				addr = w.stranger
			case 3:
				if len(offline) > 0 {
					addr = pick(offline)
				} else {
					addr = pick(online)
				}
			default:
				addr = pick(online)
			}
			flags := []int{1, 1, 2, 2, 2, 3}[rnd.Intn(6)]
			if hf := w.ref.n.Chain.Head.Flags(); hf.HasFlag(types.OfflinePropose) && rnd.Intn(3) != 0 {
				// a commit right after a proposal, for the proposed or another address
				flags = 2
				if oa := w.ref.n.Chain.Head.OfflineAddr(); oa != nil && rnd.Intn(3) != 0 {
					addr = w.idx(oa)
				}
			}
			st := step{K: "round", P: -1, Craft: []int{flags, addr}}
			if rnd.Intn(3) == 0 {
				st.Force = 1
			}
			w.round(st)
		default:
			st := step{K: "round", P: -1}
			if rnd.Intn(3) == 0 {
				for j := 0; j < 1+rnd.Intn(2); j++ {
					from := rnd.Intn(w.stranger + 1)
					on := rnd.Intn(2)
					if !has(online, from) && rnd.Intn(3) != 0 {
						on = 1
					}
					st.Txs = append(st.Txs, []int{from, on})
				}
			}
			if rnd.Intn(7) == 0 {
				st.Byz = subset(online, 2)
			}
			if rnd.Intn(7) == 0 {
				st.Deaf = subset(nodeKeys(), 2)
			}
			if rnd.Intn(25) == 0 {
				st.P = -2
			}
			w.round(st)
		}
	}
	for _, nd := range w.nodes {
		nd.n.Close()
	}
}

func main() {
	out := flag.String("out", "", "trace output")
	cases := flag.String("cases", "", "scenarios exported by TLC (json lines)")
	random := flag.Int("random", 0, "number of seeded random histories")
	rlen := flag.Int("len", 60, "steps per random history")
	thr := flag.String("thr", "", "committee-rule cases exported by TLC from MC_OfflineThr (json lines)")
	first := flag.Int("first", 0, "index of the first random history / scenario (shards of one run use disjoint ranges)")
	flag.Parse()
	w := tr.Create(*out)
	defer w.Close()
	st := &runStats{}
	seed := tr.Seed()
	nthr := 0
	if *thr != "" {
		nthr = runThr(*thr, w, seed)
	}
	if *cases != "" {
		i := *first
		tr.ReadLines(*cases, func(raw []byte) {
			var sc scenario
			if err := json.Unmarshal(raw, &sc); err != nil {
				panic(err)
			}
			i++
			if sc.NVal == 0 {
				sc.NVal = 4
			}
			rnd := rand.New(rand.NewSource(seed*104729 + int64(i)))
			wd := newWorld(seed*100000+int64(i), fmt.Sprintf("m%d", i), sc.NVal, 3, 6*900*time.Second, 100000, w, rnd, st)
			wd.genesis()
			wd.allOnline()
			wd.exec(sc.Steps)
			// let what is pending materialise: up to the next switch block and one more
			for j := 0; j < int(wd.R)+1; j++ {
				wd.round(step{K: "round", P: -1, X: []string{"tail"}})
			}
			for _, nd := range wd.nodes {
				nd.n.Close()
			}
			if i%20 == 0 {
				sim.Cleanup()
			}
		})
	}
	for i := *first; i < *first+*random; i++ {
		rnd := rand.New(rand.NewSource(seed*7919 + int64(i)))
		wd := newWorld(seed*100000+50000+int64(i), fmt.Sprintf("r%d", i), 4+rnd.Intn(3), uint64(3+rnd.Intn(3)), time.Duration(2+rnd.Intn(3))*1800*time.Second,
			uint64(7+rnd.Intn(6)), w, rnd, st)
		wd.randomRun(*rlen)
	}
	sim.Cleanup()
	fmt.Fprintf(os.Stdout, "worlds=%d blocks=%d proposes=%d commits=%d penalties=%d switches=%d refused=%d forced=%d crafted=%d epochs=%d restarts=%d txs=%d gap=%d thr=%d full=%d\n",
		st.worlds, st.blocks, st.proposes, st.commits, st.penalties, st.switches, st.refusedOffers, st.forced, st.crafted, st.epochs, st.restarts, st.txs, st.gap, nthr, st.full)
}
